// C01 — SMF write/read round trip is the identity on file content.
//
// Explicit-state search over histories of the public construction API
// (New/NewSMF1/NewSMF2, Track.Add single and multi, Track.Close early/late/
// omitted, SMF.Add), executed on the real smf.SMF in lock-step with a reference
// model; in every state whose file value changed the value is written, read
// back and compared with the model's expectation. Plus complete sweeps of the
// scalar dimensions (resolution, SMPTE division, delta, payload length).
package main

import (
	"bytes"
	"fmt"

	cc "gitlab.com/gomidi/midi/v2/internal/verifh/conccases"
	cp "gitlab.com/gomidi/midi/v2/internal/verifh/concpairs"
	"gitlab.com/gomidi/midi/v2/internal/verifh/disturb"
	"gitlab.com/gomidi/midi/v2/internal/verifh/engine"
	"gitlab.com/gomidi/midi/v2/internal/verifh/refsmf"
	sp "gitlab.com/gomidi/midi/v2/internal/verifh/smfspace"
	"gitlab.com/gomidi/midi/v2/smf"
)

var ctx *engine.Ctx

func feature(cfg sp.Cfg) string {
	rs := "rs-on"
	if cfg.NoRS {
		rs = "rs-off"
	}
	return sp.TFName(cfg.TF) + ":" + rs
}

// roundTrip is the invariant. It returns a signature ("" = holds) and text.
func roundTrip(in *sp.Inst, cfg sp.Cfg) (sig, what string) {
	exp := in.M.Expected(cfg)
	var buf bytes.Buffer
	var werr error
	c := engine.Catch(func() { _, werr = in.S.WriteTo(&buf) })
	if c.Panicked {
		return c.Sig + ":write", "WriteTo panicked: " + c.Value
	}
	if werr != nil {
		return "roundtrip:write-error:" + feature(cfg), "WriteTo failed: " + werr.Error()
	}
	var got *smf.SMF
	var rerr error
	c = engine.Catch(func() { got, rerr = smf.ReadFrom(bytes.NewReader(buf.Bytes())) })
	if c.Panicked {
		return c.Sig + ":read", "ReadFrom panicked on the library's own output: " + c.Value
	}
	if rerr != nil {
		return "roundtrip:read-error:" + feature(cfg), "ReadFrom rejected the library's own output: " + rerr.Error()
	}
	if ok, d := sp.CompareRead(exp, got); !ok {
		return "roundtrip:" + d + ":" + feature(cfg), "value read back differs in " + d
	}
	if sp.HasRunningStatus(exp) && !cfg.NoRS {
		ctx.Add("files_with_running_status_elision", 1)
	}
	return "", ""
}

func check(in *sp.Inst, hist []sp.Op, cfg sp.Cfg, p *sp.Plan) {
	sig, what := roundTrip(in, cfg)
	ctx.Add("files_written_and_read_back", 1)
	if sig != "" && ctx.SigCount(sig) < 50 {
		ctx.Violation(sig, sp.HistoryDetail(cfg, p.AlName, hist, sp.Alphabet(p.AlName), what))
	}
}

func cfgs(full bool) []sp.Cfg {
	var out []sp.Cfg
	tfs := []smf.TimeFormat{smf.MetricTicks(96), smf.SMPTE25(40)}
	for ctor := 0; ctor < 3; ctor++ {
		for _, nors := range []bool{false, true} {
			for _, tf := range tfs {
				out = append(out, sp.Cfg{Ctor: ctor, NoRS: nors, TF: tf})
			}
		}
	}
	if full {
		return out
	}
	// reduced: every value of every dimension, pairwise with NoRS
	return []sp.Cfg{out[0], out[2], out[5], out[7], out[8], out[11]}
}

type sweepCase struct {
	cfg  sp.Cfg
	ops  []sp.Op
	al   []sp.Msg
	name string
	val  interface{}
}

func runSweepCase(c sweepCase) {
	in := sp.Build(c.cfg, c.al, c.ops)
	ctx.Eval()
	sig, what := roundTrip(in, c.cfg)
	if sig != "" && ctx.SigCount(sig) < 50 {
		d := sp.HistoryDetail(c.cfg, "sweep", c.ops, c.al, what)
		d["sweep"] = c.name
		d["sweep_value"] = c.val
		ctx.Violation(sig, d)
	}
}

// sweep runs the shared scalar and value sweeps (smfspace) through the round trip.
func sweep(part, parts int) {
	for i, c := range sp.ValueSweeps() {
		if i%parts == part {
			runSweepCase(sweepCase{c.Cfg, c.Ops, c.Al, c.Name, c.Val})
			ctx.Add("sweep_values", 1)
		}
	}
	sp.ScalarSweeps(part, parts, 0xFFFFFFFF, func(c sp.SweepCase) {
		runSweepCase(sweepCase{c.Cfg, c.Ops, c.Al, c.Name, c.Val})
		ctx.Add("sweep_"+c.Name, 1)
	})
}

// fromRead turns configurations into "start from a value read from a file".
func fromRead(cs []sp.Cfg) []sp.Cfg {
	var out []sp.Cfg
	for i, c := range cs {
		c.FromRead = 1 + i%2
		out = append(out, c)
	}
	return out
}

func plans() []sp.Plan {
	return []sp.Plan{
		{Name: "full-alphabet", Cfgs: cfgs(true), AlName: "full", Deltas: []uint32{0, 1, 128}, CloseDeltas: []uint32{0, 1},
			Add2: true, MaxEvents: ctx.Pick(2, 3), MaxTracks: 2},
		{Name: "small-alphabet-deeper", Cfgs: cfgs(true), AlName: "small", Deltas: []uint32{0, 128}, CloseDeltas: []uint32{0},
			Add2: false, MaxEvents: ctx.Pick(3, 4), MaxTracks: 2},
		{Name: "lookalike-payloads", Cfgs: cfgs(false), AlName: "lookalike", Deltas: []uint32{0, 1}, CloseDeltas: []uint32{0},
			MaxEvents: ctx.Pick(3, 4), MaxTracks: 2},
		{Name: "write-in-history", Cfgs: cfgs(false), AlName: "tiny", Deltas: []uint32{0, 1}, CloseDeltas: []uint32{0},
			Write: true, MaxWrites: 2, MaxEvents: ctx.Pick(3, 4), MaxTracks: 3},
		{Name: "from-read-then-extend", Cfgs: fromRead(cfgs(false)), AlName: "tiny", Deltas: []uint32{0, 1}, CloseDeltas: []uint32{0},
			Write: true, MaxWrites: 1, MaxEvents: ctx.Pick(3, 4), MaxTracks: 4},
		{Name: "tiny-alphabet-deepest", Cfgs: cfgs(ctx.Thorough()), AlName: "tiny", Deltas: []uint32{0, 1}, CloseDeltas: []uint32{0},
			Add2: true, MaxEvents: ctx.Pick(4, 5), MaxTracks: ctx.Pick(2, 3)},
		{Name: "kept-track-variable", Cfgs: cfgs(false), AlName: "tiny", Deltas: []uint32{0, 1}, CloseDeltas: []uint32{0},
			Keep: true, MaxEvents: ctx.Pick(4, 5), MaxTracks: 2},
	}
}

func main() {
	ctx = engine.Start("C01", "model_checking")
	disturb.Install(ctx)
	sp.Thorough = ctx.Thorough()
	if ctx.ReplayPath != "" {
		if cp.Replay(ctx, ctx.LoadReplay(), "smf-write", cc.SMFWrite()) {
			ctx.Finish("replay")
		}
		if cp.Replay(ctx, ctx.LoadReplay(), "smf-read", cc.SMFRead()) {
			ctx.Finish("replay")
		}
		replay()
		return
	}
	ctx.Assume("the reference model of the construction API (Add on a closed track is a no-op, multi-message Add gives delta 0 to the later messages, SMF.Add snapshots the track, WriteTo closes open tracks with delta 0, a second track promotes format 0 to 1) is what the documentation states")
	ctx.Assume("domain: no explicit end-of-track passed to Add, MetricTicks 1..32767, at least one track (DESIGN.md C01)")

	type job struct {
		p   sp.Plan
		cfg sp.Cfg
		op  int
	}
	var jobs []job
	pl := plans()
	for _, p := range pl {
		for _, c := range p.Cfgs {
			for op := range p.Ops() {
				jobs = append(jobs, job{p, c, op})
			}
		}
	}
	const sweepParts = 8
	ctx.Jobs("concurrent", 1, func(int) {
		cp.Litmus(ctx)
		cp.Check(ctx, "smf-write", cc.SMFWrite())
		cp.Check(ctx, "smf-read", cc.SMFRead())
	})
	ctx.Jobs("search", len(jobs), func(j int) { sp.RunPlanCfgShard(ctx, jobs[j].p, jobs[j].cfg, jobs[j].op, check) })
	ctx.Jobs("sweep", sweepParts, func(j int) { sweep(j, sweepParts) })
	if !ctx.IsChild() {
		ctx.RacePairs("smf-write")
		ctx.RacePairs("smf-read")
	}

	var planInfo []map[string]interface{}
	for _, p := range pl {
		planInfo = append(planInfo, map[string]interface{}{
			"plan": p.Name, "configurations": len(p.Cfgs), "operations": len(p.Ops()), "alphabet": p.AlName,
			"max_events": p.MaxEvents, "max_tracks": p.MaxTracks,
			"states": ctx.GetInt("plan:" + p.Name + ":states"), "transitions": ctx.GetInt("plan:" + p.Name + ":transitions"),
			"depth": ctx.GetInt("max:plan:" + p.Name + ":depth"),
		})
		fmt.Printf("plan %-24s cfgs=%d ops=%d states=%d transitions=%d depth=%d\n", p.Name, len(p.Cfgs), len(p.Ops()),
			ctx.GetInt("plan:"+p.Name+":states"), ctx.GetInt("plan:"+p.Name+":transitions"), ctx.GetInt("max:plan:"+p.Name+":depth"))
	}
	states := ctx.GetInt("states")
	ctx.Set("traces_validated_against_impl", ctx.GetInt("transitions"))
	ctx.Set("max_depth", ctx.GetInt("max:depth"))
	ctx.Set("plans", planInfo)
	rs := ctx.GetInt("files_with_running_status_elision")
	ctx.NontrivialN(rs)
	ctx.Guard(states > 10000, "state space suspiciously small: %d", states)
	ctx.Guard(rs > 100, "running status elision never exercised: %d", rs)
	ctx.Guard(ctx.GetInt("sweep_resolution") == 2*32767, "resolution sweep incomplete")
	ctx.Finish("explicit-state BFS over API histories (state = reference value x observed value, deduplicated by hash); every transition is executed on the real smf.SMF; non-trivial = written files in which running-status elision could apply; plus complete sweeps of resolution, SMPTE division, delta boundaries and payload lengths")
}

func replay() {
	m := ctx.LoadReplay()
	cfg, alName, ops := sp.ParseHistory(m)
	var al []sp.Msg
	if alName == "sweep" {
		fmt.Println("sweep case", m["sweep"], m["sweep_value"], "- the whole sweep is re-run")
		sweep(0, 1)
		ctx.Finish("replay")
	}
	{
		al = sp.Alphabet(alName)
	}
	in := sp.Build(cfg, al, ops)
	sig, what := roundTrip(in, cfg)
	fmt.Println("history:", sp.DescribeOps(ops, al))
	if sig == "" {
		fmt.Println("REPLAY: property holds for this case")
		return
	}
	fmt.Printf("REPLAY: violated: %s (%s)\n", sig, what)
	ctx.Violation(sig, m)
	ctx.Finish("replay")
}

var _ = refsmf.EOT
