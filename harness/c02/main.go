// C02 — SMF decoding conforms to the Standard MIDI File 1.0 format.
//
// All files of a byte-level grammar generator up to a bound (never through the
// library's writer); the library's result is compared event by event with the
// abstract content the generator encoded, which is itself cross-checked against
// the independent tolerant decoder (generator/decoder disagreement is a harness
// error, not a verdict).
package main

import (
	"bufio"
	"bytes"
	"fmt"
	"io"
	"os"
	"strings"

	cc "gitlab.com/gomidi/midi/v2/internal/verifh/conccases"
	cp "gitlab.com/gomidi/midi/v2/internal/verifh/concpairs"
	"gitlab.com/gomidi/midi/v2/internal/verifh/disturb"
	"gitlab.com/gomidi/midi/v2/internal/verifh/engine"
	"gitlab.com/gomidi/midi/v2/internal/verifh/faultio"
	"gitlab.com/gomidi/midi/v2/internal/verifh/refsmf"
	"gitlab.com/gomidi/midi/v2/internal/verifh/smfgen"
	sp "gitlab.com/gomidi/midi/v2/internal/verifh/smfspace"
	"gitlab.com/gomidi/midi/v2/smf"
)

var ctx *engine.Ctx

// decode runs the library and compares. Returns "" or a raw difference name.
func decode(file []byte, exp *refsmf.File) (diff string, track int, what string, c engine.Caught) {
	return decodeVia("bytes.Reader", file, exp)
}

type plainReader struct{ r io.Reader }

func (p plainReader) Read(b []byte) (int, error) { return p.r.Read(b) }

var tmpFile *os.File

// source wraps the bytes in the kind of io.Reader a caller may hand to ReadFrom.
func source(kind string, file []byte) io.Reader {
	switch kind {
	case "plain":
		return plainReader{bytes.NewReader(file)} // neither Seeker nor ByteReader
	case "section":
		return io.NewSectionReader(bytes.NewReader(file), 0, int64(len(file))) // Seeker, ReaderAt, no ReadByte
	case "bufio":
		return bufio.NewReaderSize(bytes.NewReader(file), 16)
	case "os.File":
		if tmpFile == nil {
			f, err := os.CreateTemp(os.Getenv("VERIF_WORK"), "c02-*.mid")
			if err != nil {
				return bytes.NewReader(file)
			}
			os.Remove(f.Name())
			tmpFile = f
		}
		tmpFile.Truncate(0)
		tmpFile.Seek(0, 0)
		tmpFile.Write(file)
		tmpFile.Seek(0, 0)
		return tmpFile
	}
	return bytes.NewReader(file)
}

var sourceKinds = []string{"plain", "section", "bufio", "logged"}

// nullLogger: reading with the logging option switched on must not change
// what is read (source kind "logged").
type nullLogger struct{ n int }

// (the text is built as a real logger would build it - String methods of the
// arguments run - and thrown away)
func (l *nullLogger) Printf(format string, vals ...interface{}) {
	l.n += len(fmt.Sprintf(format, vals...))
}

func decodeVia(kind string, file []byte, exp *refsmf.File) (diff string, track int, what string, c engine.Caught) {
	var got *smf.SMF
	var err error
	src := source(kind, file)
	var opts []smf.ReadOption
	if kind == "logged" {
		opts = append(opts, smf.Log(&nullLogger{}))
	}
	if kind == "ReadFile" {
		// the convenience function on a regular file
		path := fmt.Sprintf("%s/c02-readfile-%d.mid", os.Getenv("VERIF_WORK"), os.Getpid())
		if werr := os.WriteFile(path, file, 0o644); werr != nil {
			return "", 0, "", c
		}
		c = engine.Catch(func() { got, err = smf.ReadFile(path) })
		os.Remove(path)
	} else {
		c = engine.Catch(func() { got, err = smf.ReadFrom(src, opts...) })
	}
	if c.Panicked {
		return "panic", -1, c.Value, c
	}
	if err != nil {
		return "error", -1, "ReadFrom returned an error for a valid file: " + err.Error(), c
	}
	if got.Format() != exp.Format {
		return "header:format", -1, fmt.Sprintf("format %d, want %d", got.Format(), exp.Format), c
	}
	if got.TimeFormat == nil || sp.Division(got.TimeFormat) != exp.Division {
		return "header:division", -1, fmt.Sprintf("time format %v, want division %04X", got.TimeFormat, exp.Division), c
	}
	if len(got.Tracks) != len(exp.Tracks) {
		return "header:ntrks", -1, fmt.Sprintf("%d tracks, want %d", len(got.Tracks), len(exp.Tracks)), c
	}
	for i := range exp.Tracks {
		g := sp.FromTrack(got.Tracks[i])
		if d := refsmf.FirstDiff(exp.Tracks[i], g); d != "" {
			return "event:" + d, i, fmt.Sprintf("track %d differs (%s): got %s want %s", i, d, render(g), render(exp.Tracks[i])), c
		}
	}
	return "", 0, "", c
}

func render(evs []refsmf.Event) string {
	var b strings.Builder
	for i, e := range evs {
		if i > 0 {
			b.WriteString(" | ")
		}
		m := e.Msg
		if len(m) > 12 {
			fmt.Fprintf(&b, "%d:%s..(%d)", e.Delta, engine.Hex(m[:12]), len(m))
		} else {
			fmt.Fprintf(&b, "%d:%s", e.Delta, engine.Hex(m))
		}
	}
	return b.String()
}

// firstWrongToken finds the index of the first event that differs.
func firstWrongToken(exp []refsmf.Event, file []byte, track int) int {
	got, err := smf.ReadFrom(bytes.NewReader(file))
	if err != nil || got == nil || track < 0 || track >= len(got.Tracks) {
		return -1
	}
	g := sp.FromTrack(got.Tracks[track])
	for i := range exp {
		if i >= len(g) || g[i].Delta != exp[i].Delta || !bytes.Equal(g[i].Msg, exp[i].Msg) {
			return i
		}
	}
	return len(exp)
}

var tokens = smfgen.Tokens()
var deltas = smfgen.Deltas()

// judge evaluates one (shape, sequence) case.
func judge(sh smfgen.Shape, seq []smfgen.Timed, eot *smfgen.Delta) {
	body, evs, ok := smfgen.Track(seq, eot)
	if !ok {
		return
	}
	file, exp := smfgen.File(sh, body, evs)
	ctx.Eval()
	// triangle: generator vs tolerant decoder
	ref, err := refsmf.Parse(file, refsmf.Tolerant)
	if err != nil {
		ctx.Guard(false, "generator/decoder disagreement: decoder rejects %s: %v", engine.Hex(file), err)
		return
	}
	if okk, d := sp.CompareParsed(exp, ref); !okk {
		ctx.Guard(false, "generator/decoder disagreement (%s) on %s", d, engine.Hex(file))
		return
	}
	nontrivial(sh, seq)
	diff, track, what, c := decode(file, exp)
	if diff == "" {
		// the same bytes through other kinds of io.Reader (a seeker without
		// ReadByte, a plain reader, a small bufio.Reader; os.File for shaped files)
		kinds := sourceKinds
		if len(sh.Aliens) > 0 && len(seq) <= 1 && sh.Division == 96 {
			kinds = append(append([]string{}, kinds...), "os.File")
		}
		for _, k := range kinds {
			ctx.Eval()
			if d2, _, w2, c2 := decodeVia(k, file, exp); d2 != "" {
				sig := "decode-via-" + k + ":" + d2 + ":alien=" + sh.AlienPosition()
				if d2 == "panic" {
					sig = c2.Sig + ":via-" + k
				}
				if ctx.SigCount(sig) < 10 {
					ctx.Violation(sig, map[string]interface{}{"kind": "file", "file": engine.Hex(file), "shape": sh.Name, "source": k,
						"what": "decodes correctly from a bytes.Reader but not from a " + k + ": " + w2})
				}
			}
		}
		return
	}
	// blame: shape or sequence?
	feature := ""
	base := smfgen.BaseShape()
	bfile, bexp := smfgen.File(base, body, evs)
	bdiff, _, _, _ := decode(bfile, bexp)
	if bdiff == "" {
		// the sequence is fine in the plain file: the shape is what breaks it
		pfile, pexp := smfgen.File(smfgen.Shape{Format: sh.Format, NTracks: sh.NTracks, Division: sh.Division, SeqTrack: sh.SeqTrack}, body, evs)
		pdiff, _, _, _ := decode(pfile, pexp)
		if pdiff == "" {
			feature = "alien-chunk:" + sh.AlienPosition()
		} else if sh.Division&0x8000 != 0 {
			feature = "smpte-division"
		} else {
			feature = fmt.Sprintf("shape:fmt%d-%dtracks", sh.Format, sh.NTracks)
		}
	} else {
		idx := firstWrongToken(evs, bfile, 0)
		switch {
		case idx >= 0 && idx < len(seq):
			feature = "token:" + seq[idx].T.Name + ":delta-" + seq[idx].D.Name
			if idx > 0 {
				feature += ":after-" + kindOf(seq[idx-1].T)
			}
		case idx == len(seq):
			feature = "end-of-track:delta-" + eot.Name
		default:
			if len(seq) > 0 {
				feature = "sequence-starting:" + seq[0].T.Name
			} else {
				feature = "empty-track"
			}
		}
	}
	_ = track
	var sig string
	if diff == "panic" {
		sig = c.Sig + ":" + feature
	} else {
		sig = "decode:" + diff + ":" + feature
	}
	if ctx.SigCount(sig) < 20 {
		var names []string
		for _, s := range seq {
			names = append(names, s.String())
		}
		ctx.Violation(sig, map[string]interface{}{"kind": "file", "file": engine.Hex(file), "shape": sh.Name, "sequence": names, "eot_delta": eot.Name, "what": what})
	}
}

func kindOf(t *smfgen.Tok) string {
	switch {
	case t.Channel:
		return "channel"
	case t.Raw[0] == 0xFF:
		return "meta"
	}
	return "sysex"
}

func nontrivial(sh smfgen.Shape, seq []smfgen.Timed) {
	// files the library's own writer never produces
	nt := len(sh.Aliens) > 0
	for _, s := range seq {
		if s.T.Running || strings.Contains(s.D.Name, "pad") || strings.Contains(s.T.Name, "Padded") ||
			strings.HasPrefix(s.T.Name, "SysExOpen") || strings.HasPrefix(s.T.Name, "Continuation") || strings.HasPrefix(s.T.Name, "Escape") || strings.HasPrefix(s.T.Name, "Unknown") {
			nt = true
		}
	}
	if nt {
		ctx.NontrivialN(1)
	}
}

func timed(toks []int, dls []int) []smfgen.Timed {
	var out []smfgen.Timed
	for _, d := range dls {
		for _, t := range toks {
			out = append(out, smfgen.Timed{T: &tokens[t], D: &deltas[d]})
		}
	}
	return out
}

func rangeN(n int) []int {
	r := make([]int, n)
	for i := range r {
		r[i] = i
	}
	return r
}

// seqs enumerates all sequences of length exactly depth over al whose first
// element is al[first], calling f.
func seqs(al []smfgen.Timed, first, depth int, f func(seq []smfgen.Timed)) {
	seq := make([]smfgen.Timed, depth)
	seq[0] = al[first]
	var rec func(i int)
	rec = func(i int) {
		if i == depth {
			f(seq)
			return
		}
		for k := range al {
			seq[i] = al[k]
			rec(i + 1)
		}
	}
	rec(1)
}

type space struct {
	name   string
	al     []smfgen.Timed
	depths []int
	eots   []int
	shapes []smfgen.Shape
}

func spaces() []space {
	all := rangeN(len(tokens))
	base := []smfgen.Shape{smfgen.BaseShape()}
	twoTrack := smfgen.Shape{Name: "fmt1/2trk/seq@1", Format: 1, NTracks: 2, Division: 480, SeqTrack: 1}
	sps := []space{
		{"all-tokens-all-deltas", timed(all, rangeN(len(deltas))), []int{1, 2}, []int{0, 1, 2}, base},
		{"all-tokens-2-deltas", timed(all, []int{0, 1}), []int{3}, []int{0}, append(base, twoTrack)},
		{"12-tokens", timed(rangeN(12), []int{0}), []int{4, ctx.Pick(5, 6)}, []int{0}, base},
		{"shapes-depth1", timed(all, rangeN(len(deltas))), []int{1}, []int{0, 1}, smfgen.Shapes(true)},
		{"shapes-depth2", timed(rangeN(8), []int{0, 1}), []int{2}, []int{0}, smfgen.Shapes(false)},
		{"alien-chunk-types", timed(rangeN(6), []int{0, 1}), []int{1, 2}, []int{0}, smfgen.AlienTypes()},
		{"alien-chunk-runs", timed(rangeN(6), []int{0, 1}), []int{1}, []int{0}, smfgen.AlienRuns()},
	}
	if ctx.Thorough() {
		sps = append(sps, space{"all-tokens-3-deltas-depth3-shapes", timed(all, []int{0, 1, 2}), []int{3}, []int{0, 1}, smfgen.Shapes(false)[:0]})
		sps[1].al = timed(all, []int{0, 1, 2, 3})
	}
	return sps
}

func main() {
	ctx = engine.Start("C02", "exploration")
	disturb.Install(ctx)
	if ctx.ReplayPath != "" {
		if cp.Replay(ctx, ctx.LoadReplay(), "smf-read", cc.SMFRead()) {
			ctx.Finish("replay")
		}
		replay()
		return
	}
	ctx.Assume("spec-valid streams only: header length 6, every track ends in end-of-track, running status never first in a track or after meta/sysex, meta type < 0x80, VLQ <= 4 bytes")
	ctx.Assume("oracle = abstract content emitted by the generator, cross-checked against the independent tolerant decoder on every file")
	type job struct {
		sp    int
		first int
	}
	sps := spaces()
	var jobs []job
	for si, s := range sps {
		for f := range s.al {
			jobs = append(jobs, job{si, f})
		}
	}
	ctx.Jobs("concurrent", 1, func(int) {
		cp.Litmus(ctx)
		cp.Check(ctx, "smf-read", cc.SMFRead())
	})
	ctx.Jobs("files", len(jobs), func(j int) {
		s := sps[jobs[j].sp]
		for _, depth := range s.depths {
			seqs(s.al, jobs[j].first, depth, func(seq []smfgen.Timed) {
				for _, e := range s.eots {
					for _, sh := range s.shapes {
						judge(sh, seq, &deltas[e])
					}
				}
			})
		}
		if jobs[j].first == 0 {
			// the empty track (end-of-track only) in every shape
			for _, e := range s.eots {
				for _, sh := range s.shapes {
					judge(sh, nil, &deltas[e])
				}
			}
			ctx.Add("space:"+s.name+":timed_tokens", int64(len(s.al)))
			ctx.Add("space:"+s.name+":shapes", int64(len(s.shapes)))
		}
	})
	ctx.Jobs("manytracks", 1, func(int) { manyTracks() })
	ctx.Jobs("huge-alien", 1, func(int) { hugeAlien() })
	ctx.Jobs("big-and-many", 2, func(j int) { bigAndMany(j) })
	ctx.Jobs("value-sweeps", 8, func(j int) { valueSweeps(j, 8) })
	ctx.Jobs("two-readers", 1, func(int) { twoReaders() })
	if !ctx.IsChild() {
		ctx.RacePairs("smf-read")
	}
	ctx.Sample(map[string]interface{}{"file": "MThd fmt1 2 tracks div 96 | XFIH(5) | MTrk: 0:NoteOn0 128:NoteOn0~ 0:EOT | MTrk filler", "meaning": "alien chunk before the first track, running status"})
	ctx.Set("token_alphabet", len(tokens))
	ctx.Set("delta_encodings", len(deltas))
	ctx.Guard(ctx.NontrivialCount() > 1000, "too few files outside the writer's range")
	ctx.Finish("all files of the byte-level grammar generator: token sequences (30 event tokens x 6 delta encodings) up to depth 2-6 in a plain file, and depth 1-2 in every file shape (format x tracks x position x 16 divisions x alien chunk placements); non-trivial = files the library's writer never produces (running status tokens, padded VLQs, packets/escapes, unknown meta, alien chunks)")
}

// valueSweeps: every channel status (explicit and under running status) and
// every meta type, in a plain file and in a two-track file.
func valueSweeps(part, parts int) {
	shapes := []smfgen.Shape{smfgen.BaseShape(), {Name: "fmt1/2trk/seq@0", Format: 1, NTracks: 2, Division: 480, SeqTrack: 0},
		{Name: "fmt1/2trk/seq@0/alien", Format: 1, NTracks: 2, Division: 480, SeqTrack: 0, Aliens: []smfgen.Alien{{Before: 1, Type: "XFIH", Body: []byte{1, 2, 3}}}}}
	sweep := func(kind string, bodies [][]byte, evs [][]refsmf.Event) {
		for i := range bodies {
			if i%parts != part {
				continue
			}
			for _, sh := range shapes {
				file, exp := smfgen.File(sh, bodies[i], evs[i])
				ctx.Eval()
				if ref, err := refsmf.Parse(file, refsmf.Tolerant); err != nil {
					ctx.Guard(false, "sweep %s: reference decoder rejects %s: %v", kind, engine.Hex(file), err)
					continue
				} else if ok, d := sp.CompareParsed(exp, ref); !ok {
					ctx.Guard(false, "sweep %s: generator/decoder disagree (%s)", kind, d)
					continue
				}
				ctx.NontrivialN(1)
				diff, _, what, c := decode(file, exp)
				for _, k := range append(sourceKinds, "os.File", "ReadFile") {
					if diff == "" {
						ctx.Eval()
						diff, _, what, c = decodeVia(k, file, exp)
						if diff != "" {
							what = "via " + k + ": " + what
						}
					}
				}
				if diff == "" {
					// the same file once more, straight after cut copies of it were
					// read and rejected (what an error path leaves behind)
					for _, cut := range []int{len(file) / 2, len(file) * 3 / 4, len(file) - 2} {
						engine.Catch(func() { smf.ReadFrom(bytes.NewReader(file[:cut])) })
						ctx.Eval()
						diff, _, what, c = decode(file, exp)
						if diff != "" {
							what = fmt.Sprintf("read again after a copy cut at byte %d had been read: %s", cut, what)
							diff = "after-failed-read:" + diff
							break
						}
					}
				}
				if diff == "" {
					continue
				}
				feat := fmt.Sprintf("%s:%02X", kind, evs[i][0].Msg[0])
				if kind == "meta-type" {
					feat = fmt.Sprintf("%s:%02X", kind, evs[i][1].Msg[1])
				}
				sig := "decode:" + diff + ":" + feat
				if diff == "panic" {
					sig = c.Sig + ":" + feat
				}
				if ctx.SigCount(sig) < 5 {
					ctx.Violation(sig, map[string]interface{}{"kind": "file", "file": engine.Hex(file), "shape": sh.Name, "what": what})
				}
			}
		}
		ctx.Add("sweep_"+kind, int64(len(bodies)))
	}
	b, e := smfgen.StatusSweep()
	sweep("status", b, e)
	b, e = smfgen.MetaSweep()
	sweep("meta-type", b, e)
	b, e = smfgen.LongSweep()
	sweep("long-payload", b, e)
	b, e = smfgen.ManyEvents()
	sweep("many-events", b, e)
	b, e = smfgen.Bursts()
	sweep("bursts", b, e)
	b, e = smfgen.MagicSpelling()
	sweep("magic-spelling", b, e)
	if part != 0 {
		return
	}
	files, exps, names := smfgen.EOTEncodings()
	for i, file := range files {
		ctx.Eval()
		ctx.NontrivialN(1)
		if ref, err := refsmf.Parse(file, refsmf.Tolerant); err != nil {
			ctx.Guard(false, "eot encodings: reference decoder rejects %s: %v", names[i], err)
			continue
		} else if ok, d := sp.CompareParsed(exps[i], ref); !ok {
			ctx.Guard(false, "eot encodings: generator/decoder disagree (%s)", d)
			continue
		}
		diff, _, what, c := decode(file, exps[i])
		if diff == "" {
			continue
		}
		sig := "decode:" + diff + ":end-of-track-with-padded-length"
		if diff == "panic" {
			sig = c.Sig + ":end-of-track-with-padded-length"
		}
		if ctx.SigCount(sig) < 5 {
			ctx.Violation(sig, map[string]interface{}{"kind": "file", "file": engine.Hex(file), "shape": names[i], "what": what})
		}
	}
	ctx.Add("sweep_eot_encodings", int64(len(files)))
}

// twoReaders: two files decoded by two threads that are switched inside their
// Read calls (every schedule with at most two switches): each result must be
// the one the file gives when decoded alone.
func twoReaders() {
	toks := smfgen.Tokens()
	dls := smfgen.Deltas()
	var files [][]byte
	var exps []*refsmf.File
	for _, pick := range [][]int{{0, 1}, {4, 2}, {5, 0}, {14, 3}, {2, 3}} {
		var seq []smfgen.Timed
		for k, ti := range pick {
			seq = append(seq, smfgen.Timed{T: &toks[ti], D: &dls[(k+1)%4]})
		}
		body, evs, ok := smfgen.Track(seq, &dls[1])
		if !ok {
			continue
		}
		f, e := smfgen.File(smfgen.BaseShape(), body, evs)
		files = append(files, f)
		exps = append(exps, e)
	}
	var iv engine.Interleaver
	for a := range files {
		for b := range files {
			if a == b && a > 0 {
				continue
			}
			var diffs [2]string
			run := func(first, i, j int) {
				diffs = [2]string{"?", "?"}
				body := func(k int, f []byte, e *refsmf.File) func(yield func()) {
					return func(yield func()) {
						var got *smf.SMF
						var err error
						c := engine.Catch(func() { got, err = smf.ReadFrom(&faultio.YieldReader{R: bytes.NewReader(f), Yield: yield}) })
						switch {
						case c.Panicked:
							diffs[k] = "panic " + c.Value
						case err != nil:
							diffs[k] = "error " + err.Error()
						default:
							if len(got.Tracks) != len(e.Tracks) {
								diffs[k] = "track count"
								return
							}
							diffs[k] = ""
							for t := range e.Tracks {
								if d := refsmf.FirstDiff(e.Tracks[t], sp.FromTrack(got.Tracks[t])); d != "" {
									diffs[k] = d
								}
							}
						}
					}
				}
				iv.Run(first, i, j, body(0, files[a], exps[a]), body(1, files[b], exps[b]))
			}
			run(0, -1, -1)
			ya, yb := iv.Yields()
			for first := 0; first < 2; first++ {
				n1, n2 := ya, yb
				if first == 1 {
					n1, n2 = yb, ya
				}
				for i := 1; i <= n1; i++ {
					for j := -1; j <= n2; j++ {
						if j == 0 {
							continue
						}
						run(first, i, j)
						ctx.Eval()
						ctx.Add("two_reader_schedules", 1)
						if diffs[0] != "" || diffs[1] != "" {
							if ctx.SigCount("concurrent-readers:interference") < 5 {
								ctx.Violation("concurrent-readers:interference", map[string]interface{}{"kind": "two-readers", "file_a": engine.Hex(files[a]), "file_b": engine.Hex(files[b]),
									"first": first, "switch_first_at_read": i, "switch_second_at_read": j,
									"what": fmt.Sprintf("two files decoded by two threads switched inside Read calls: A: %q B: %q (each decodes correctly alone)", diffs[0], diffs[1])})
							}
						}
					}
				}
			}
		}
	}
}

// zeros is an endless source of zero bytes.
type zeros struct{}

func (zeros) Read(p []byte) (int, error) {
	for i := range p {
		p[i] = 0
	}
	return len(p), nil
}

// hugeAlien: an unknown chunk whose length has the top bit set (2 GiB and
// more), served from a synthetic source, in front of the only track.
func hugeAlien() {
	trk := refsmf.Chunk("MTrk", []byte{0x00, 0x90, 0x3C, 0x40, 0x00, 0xFF, 0x2F, 0x00})
	for _, ln := range []uint32{0x7FFFFFFF, 0x80000000, 0x80000001, 0xFFFFFFF0} {
		hd := append(refsmf.Header(0, 1, 96), 'X', 'F', 'I', 'H', byte(ln>>24), byte(ln>>16), byte(ln>>8), byte(ln))
		src := io.MultiReader(bytes.NewReader(hd), io.LimitReader(zeros{}, int64(ln)), bytes.NewReader(trk))
		ctx.Eval()
		ctx.Add("huge_alien_chunks", 1)
		var got *smf.SMF
		var err error
		c := engine.Catch(func() { got, err = smf.ReadFrom(src) })
		what := ""
		switch {
		case c.Panicked:
			what = "panicked: " + c.Value
		case err != nil:
			what = "error: " + err.Error()
		case len(got.Tracks) != 1 || len(got.Tracks[0]) != 2 || !bytes.Equal(got.Tracks[0][0].Message, []byte{0x90, 0x3C, 0x40}):
			what = fmt.Sprintf("%d tracks, first track %v", len(got.Tracks), got.Tracks)
		}
		if what != "" {
			ctx.Violation("decode:huge-unknown-chunk", map[string]interface{}{"kind": "huge-alien", "length": ln, "what": fmt.Sprintf("unknown chunk of %d bytes before the track: %s", ln, what)})
		}
	}
}

// manyTracks: boundary files around the int16 track counter.
func manyTracks() {
	for _, n := range []int{32766, 32767, 32768, 32769, 65535} {
		file := refsmf.Header(1, uint16(n), 96)
		exp := &refsmf.File{Format: 1, NTrks: uint16(n), Division: 96}
		trk := refsmf.Chunk("MTrk", []byte{0x00, 0xFF, 0x2F, 0x00})
		for i := 0; i < n; i++ {
			file = append(file, trk...)
			exp.Tracks = append(exp.Tracks, []refsmf.Event{{0, refsmf.EOT}})
		}
		ctx.Eval()
		diff, _, what, c := decode(file, exp)
		if diff != "" {
			sig := "decode:" + diff + ":track-count-above-32767"
			if diff == "panic" {
				sig = c.Sig + ":track-count-above-32767"
			}
			ctx.Violation(sig, map[string]interface{}{"kind": "manytracks", "n": n, "what": what})
		}
	}
}

// bigAndMany: track chunks around one megabyte next to small ones in every
// order (a reader that treats long chunks differently changes its ways in the
// middle of a file), and unknown chunks by the hundred spread over a file of
// several tracks (whatever counts them counts over the whole file).
func bigAndMany(part int) {
	nth := 0
	judge := func(name string, file []byte) {
		nth++
		if nth%2 != part {
			return
		}
		ctx.Eval()
		ctx.Add("big_and_many_files", 1)
		exp, err := refsmf.Parse(file, refsmf.Tolerant)
		if err != nil {
			ctx.Guard(false, "big-and-many %s: reference decoder rejects the file: %v", name, err)
			return
		}
		diff, _, what, c := decode(file, exp)
		for _, k := range sourceKinds {
			if len(file) > 500000 && k != "plain" {
				continue
			}
			if diff == "" {
				diff, _, what, c = decodeVia(k, file, exp)
				if diff != "" {
					what = "via " + k + ": " + what
				}
			}
		}
		if diff != "" {
			sig := "decode:" + diff + ":" + name
			if diff == "panic" {
				sig = c.Sig + ":" + name
			}
			if ctx.SigCount(sig) < 3 {
				ctx.Violation(sig, map[string]interface{}{"kind": "big-and-many", "name": name, "what": what})
			}
		}
	}
	track := func(size int, ch byte) []byte {
		// a track chunk whose body is size bytes long: a note, a sysex that fills it up, a note
		head := []byte{0x00, 0x90 | ch, 0x3C, 0x40, 0x01, 0xF0}
		tail := []byte{0x02, 0x80 | ch, 0x3C, 0x00, 0x00, 0xFF, 0x2F, 0x00}
		pl := size - len(head) - len(tail) - 3
		if pl < 1 {
			return refsmf.Chunk("MTrk", append(append([]byte{}, head[:4]...), tail...))
		}
		for len(refsmf.VLQ(uint32(pl)))+pl+len(head)+len(tail) > size {
			pl--
		}
		body := append(append([]byte{}, head...), refsmf.VLQ(uint32(pl))...)
		for i := 0; i < pl-1; i++ {
			body = append(body, byte(i*7)&0x7F)
		}
		body = append(body, 0xF7)
		body = append(body, tail...)
		return refsmf.Chunk("MTrk", body)
	}
	const mib = 1 << 20
	for _, sizes := range [][]int{{40, mib + 1}, {mib + 1, 40}, {40, mib + 1, 40}, {mib, mib + 1}, {mib - 1, mib, mib + 1, 40}, {70000, 40, 70000}, {65536, 65537, 65535}} {
		file := refsmf.Header(1, uint16(len(sizes)), 480)
		for i, sz := range sizes {
			file = append(file, track(sz, byte(i))...)
		}
		judge(fmt.Sprintf("track-sizes-%v", sizes), file)
	}
	for _, total := range []int{63, 64, 65, 66, 127, 128, 129, 255, 256, 257, 1000, 5000} {
		for _, ntr := range []int{1, 4} {
			file := refsmf.Header(1, uint16(ntr), 96)
			per := total / ntr
			for t := 0; t < ntr; t++ {
				n := per
				if t == ntr-1 {
					n = total - per*(ntr-1)
				}
				for i := 0; i < n; i++ {
					file = append(file, refsmf.Chunk([]string{"XFIH", "junk", "MThd"}[i%3], []byte{byte(i), byte(t)}[:i%3])...)
				}
				file = append(file, refsmf.Chunk("MTrk", []byte{0x00, 0x90 | byte(t), 0x3C, 0x40, 0x05, 0x3C, 0x00, 0x00, 0xFF, 0x2F, 0x00})...)
			}
			judge(fmt.Sprintf("%d-unknown-chunks-over-%d-tracks", total, ntr), file)
		}
	}
}

func replay() {
	m := ctx.LoadReplay()
	if m["kind"] == "big-and-many" {
		bigAndMany(0)
		bigAndMany(1)
		ctx.Finish("replay")
	}
	if m["kind"] == "huge-alien" {
		hugeAlien()
		ctx.Finish("replay")
	}
	if m["kind"] == "manytracks" {
		manyTracks()
		ctx.Finish("replay")
	}
	if m["kind"] == "two-readers" {
		twoReaders()
		ctx.Finish("replay")
	}
	file := engine.UnHex(m["file"].(string))
	exp, err := refsmf.Parse(file, refsmf.Tolerant)
	if err != nil {
		fmt.Println("reference decoder rejects the file:", err)
		return
	}
	diff, _, what, c := decode(file, exp)
	for _, k := range append(sourceKinds, "os.File") {
		if diff == "" {
			diff, _, what, c = decodeVia(k, file, exp)
		}
	}
	if diff == "" {
		fmt.Println("REPLAY: property holds for this case")
		return
	}
	fmt.Printf("REPLAY: violated: %s %s %s\n", diff, what, c.Sig)
	ctx.Violation(m["signature"].(string), m)
	ctx.Finish("replay")
}
