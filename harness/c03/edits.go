package main

import (
	"bytes"
	"fmt"

	"gitlab.com/gomidi/midi/v2"
	"gitlab.com/gomidi/midi/v2/internal/verifh/engine"
	"gitlab.com/gomidi/midi/v2/internal/verifh/refsmf"
	sp "gitlab.com/gomidi/midi/v2/internal/verifh/smfspace"
	"gitlab.com/gomidi/midi/v2/smf"
)

// editsBetweenWrites: a value is written, changed through its public fields
// (Tracks is an exported slice of exported events), and written again - once
// per kind of edit, for values built through the API and for values that come
// from ReadFrom. What is written is what the fields hold at that moment:
// nothing is remembered from the earlier write (or from the read), whatever
// the edit left alone (addresses, lengths, counts).
func editsBetweenWrites() {
	expectedOf := func(s *smf.SMF) *refsmf.File {
		f := &refsmf.File{Format: s.Format(), Division: sp.Division(s.TimeFormat)}
		for _, t := range s.Tracks {
			evs := sp.FromTrack(t)
			if len(evs) == 0 || !refsmf.IsEOT(evs[len(evs)-1].Msg) {
				evs = append(evs, refsmf.Event{Delta: 0, Msg: refsmf.EOT})
			}
			f.Tracks = append(f.Tracks, evs)
		}
		f.NTrks = uint16(len(f.Tracks))
		if f.NTrks > 1 && f.Format == 0 {
			f.Format = 1
		}
		return f
	}
	build := func(k int) *smf.SMF {
		s := smf.New()
		s.TimeFormat = smf.MetricTicks(480)
		var t0, t1 smf.Track
		t0.Add(0, smf.MetaTempo(100))
		t0.Add(10, midi.NoteOn(0, 60, 100))
		t0.Add(20, midi.NoteOn(0, 62, 90))
		t0.Add(300, midi.NoteOff(0, 60))
		t0.Add(0, smf.MetaText("abc"))
		t0.Add(5, smf.Message(midi.SysEx([]byte{1, 2, 3})))
		t0.Close(7)
		s.Add(t0)
		if k > 0 {
			t1.Add(1, midi.ControlChange(1, 7, 100))
			t1.Add(2, midi.ControlChange(1, 8, 1))
			t1.Add(0, midi.ProgramChange(1, 5))
			t1.Close(0)
			s.Add(t1)
		}
		return s
	}
	edits := []struct {
		name string
		f    func(s *smf.SMF)
	}{
		{"a data byte of an event changed in place", func(s *smf.SMF) { s.Tracks[0][1].Message[1] ^= 0x01 }},
		{"a data byte of the last track's first event changed in place", func(s *smf.SMF) { t := s.Tracks[len(s.Tracks)-1]; t[0].Message[len(t[0].Message)-1] ^= 0x02 }},
		{"a delta changed", func(s *smf.SMF) { s.Tracks[0][2].Delta += 129 }},
		{"a message replaced by another of the same length", func(s *smf.SMF) { s.Tracks[0][2].Message = smf.Message(midi.NoteOn(3, 11, 12)) }},
		{"a message replaced by a longer one", func(s *smf.SMF) { s.Tracks[0][4].Message = smf.MetaText("a longer text than before") }},
		{"two events exchanged", func(s *smf.SMF) { t := s.Tracks[0]; t[1], t[2] = t[2], t[1] }},
		{"the text of a meta event changed in place", func(s *smf.SMF) { m := s.Tracks[0][4].Message; m[len(m)-1] = 'z' }},
		{"the last track reopened and extended", func(s *smf.SMF) {
			l := len(s.Tracks) - 1
			s.Tracks[l] = s.Tracks[l][:len(s.Tracks[l])-1]
			s.Tracks[l].Add(9, midi.NoteOn(2, 1, 2))
		}},
		{"the first track reopened and extended", func(s *smf.SMF) {
			s.Tracks[0] = s.Tracks[0][:len(s.Tracks[0])-1]
			s.Tracks[0].Add(9, midi.NoteOn(2, 1, 2))
		}},
		{"an event removed", func(s *smf.SMF) { t := s.Tracks[0]; s.Tracks[0] = append(t[:1:1], t[2:]...) }},
		{"a track appended through the field", func(s *smf.SMF) {
			var t smf.Track
			t.Add(3, midi.NoteOn(5, 5, 5))
			t.Close(1)
			s.Tracks = append(s.Tracks, t)
		}},
		{"the first track removed", func(s *smf.SMF) {
			if len(s.Tracks) > 1 {
				s.Tracks = s.Tracks[1:]
			}
		}},
		{"the time format changed", func(s *smf.SMF) { s.TimeFormat = smf.MetricTicks(96) }},
		{"running status switched off", func(s *smf.SMF) { s.NoRunningStatus = true }},
	}
	for k := 0; k < 2; k++ {
		for _, origin := range []string{"built", "read"} {
			for _, ed := range edits {
				for _, twice := range []bool{false, true} {
					ctx.Eval()
					ctx.Add("edit_histories", 1)
					s := build(k)
					detail := map[string]interface{}{"kind": "edit-between-writes", "tracks": k + 1, "origin": origin, "edit": ed.name, "written_twice_before": twice}
					if origin == "read" {
						var b bytes.Buffer
						s.WriteTo(&b)
						r, err := smf.ReadFrom(bytes.NewReader(b.Bytes()))
						if err != nil {
							ctx.Guard(false, "edit histories: cannot read back the base value: %v", err)
							return
						}
						s = r
					}
					var first bytes.Buffer
					c := engine.Catch(func() {
						s.WriteTo(&first)
						if twice {
							s.WriteTo(&bytes.Buffer{})
						}
						ed.f(s)
					})
					if c.Panicked {
						detail["what"] = "panicked: " + c.Value
						ctx.Violation(c.Sig+":edit-between-writes", detail)
						continue
					}
					exp := expectedOf(s)
					var out bytes.Buffer
					var werr error
					c = engine.Catch(func() { _, werr = s.WriteTo(&out) })
					if c.Panicked || werr != nil {
						detail["what"] = fmt.Sprintf("the write after the edit failed: %v %s", werr, c.Value)
						ctx.Violation("edit-between-writes:write", detail)
						continue
					}
					got, perr := refsmf.Parse(out.Bytes(), refsmf.Strict)
					if perr != nil {
						detail["what"] = "strict parser rejects what was written after the edit: " + perr.Error() + " bytes=" + engine.Hex(clip(out.Bytes()))
						ctx.Violation("edit-between-writes:invalid", detail)
						continue
					}
					if ok, d := sp.CompareParsed(exp, got); !ok {
						detail["what"] = fmt.Sprintf("written after the edit: %s differs from what the fields hold (the bytes of the first write: %s, now: %s)", d, engine.Hex(clip(first.Bytes())), engine.Hex(clip(out.Bytes())))
						ctx.Violation("edit-between-writes:stale:"+d, detail)
						continue
					}
					// and it reads back as written
					back, rerr := smf.ReadFrom(bytes.NewReader(out.Bytes()))
					if rerr != nil || len(back.Tracks) != len(exp.Tracks) {
						detail["what"] = fmt.Sprintf("what was written after the edit does not read back: %v", rerr)
						ctx.Violation("edit-between-writes:read-back", detail)
						continue
					}
					for ti := range exp.Tracks {
						if d := refsmf.FirstDiff(exp.Tracks[ti], sp.FromTrack(back.Tracks[ti])); d != "" {
							detail["what"] = fmt.Sprintf("track %d read back differs from what was written: %s", ti, d)
							ctx.Violation("edit-between-writes:read-back", detail)
							break
						}
					}
					ctx.NontrivialN(1)
				}
			}
		}
	}
}
