// C03 — SMF encoding emits structurally valid, deterministic SMF 1.0 files.
//
// Same explicit-state search as C01 (shared code, deltas <= 0x0FFFFFFF); in
// every state the written bytes must be accepted by the independent strict
// parser, which must recover exactly the reference value; reported size equals
// the bytes the destination received; a second write emits identical bytes.
// Plus the complete enumeration of the VLQ codec over all 2^28 legal values.
package main

import (
	"bytes"
	"fmt"
	"io"
	"os"

	"gitlab.com/gomidi/midi/v2"
	"gitlab.com/gomidi/midi/v2/internal/utils"
	cc "gitlab.com/gomidi/midi/v2/internal/verifh/conccases"
	cp "gitlab.com/gomidi/midi/v2/internal/verifh/concpairs"
	"gitlab.com/gomidi/midi/v2/internal/verifh/disturb"
	"gitlab.com/gomidi/midi/v2/internal/verifh/engine"
	"gitlab.com/gomidi/midi/v2/internal/verifh/faultio"
	"gitlab.com/gomidi/midi/v2/internal/verifh/refsmf"
	sp "gitlab.com/gomidi/midi/v2/internal/verifh/smfspace"
	"gitlab.com/gomidi/midi/v2/smf"
)

var ctx *engine.Ctx
var vlqStable engine.Stable

type countWriter struct {
	buf bytes.Buffer
}

func (w *countWriter) Write(p []byte) (int, error) { return w.buf.Write(p) }

func feature(cfg sp.Cfg) string {
	rs := "rs-on"
	if cfg.NoRS {
		rs = "rs-off"
	}
	return sp.TFName(cfg.TF) + ":" + rs
}

func strictCheck(in *sp.Inst, cfg sp.Cfg) (sig, what string) {
	exp := in.M.Expected(cfg)
	var w1 countWriter
	var n int64
	var werr error
	c := engine.Catch(func() { n, werr = in.S.WriteTo(&w1) })
	if c.Panicked {
		return c.Sig + ":write", "WriteTo panicked: " + c.Value
	}
	if werr != nil {
		return "strict:write-error:" + feature(cfg), "WriteTo failed: " + werr.Error()
	}
	out := w1.buf.Bytes()
	if n != int64(len(out)) {
		return "size:" + feature(cfg), fmt.Sprintf("reported size %d, destination received %d bytes", n, len(out))
	}
	got, err := refsmf.Parse(out, refsmf.Strict)
	if err != nil {
		return "strict:rejected:" + classify(err.Error()) + ":" + feature(cfg), "strict parser rejects the output: " + err.Error() + " bytes=" + engine.Hex(clip(out))
	}
	if ok, d := sp.CompareParsed(exp, got); !ok {
		return "strict:content:" + d + ":" + feature(cfg), "strict parser recovers different content (" + d + ") bytes=" + engine.Hex(clip(out))
	}
	// second write of the same value (now with all tracks closed by the first write)
	var w2 countWriter
	var n2 int64
	c = engine.Catch(func() { n2, werr = in.S.WriteTo(&w2) })
	if c.Panicked {
		return c.Sig + ":write2", "second WriteTo panicked: " + c.Value
	}
	if werr != nil || n2 != n || !bytes.Equal(out, w2.buf.Bytes()) {
		return "determinism:" + feature(cfg), "second write of the same value differs: " + engine.Hex(clip(w2.buf.Bytes())) + " vs " + engine.Hex(clip(out))
	}
	// a third write with the logging hook set: observing must not change the bytes
	in.S.Logger = &nullLogger{}
	var w3 countWriter
	c = engine.Catch(func() { _, werr = in.S.WriteTo(&w3) })
	in.S.Logger = nil
	if c.Panicked {
		return c.Sig + ":write-logged", "WriteTo with a Logger panicked: " + c.Value
	}
	if werr != nil || !bytes.Equal(out, w3.buf.Bytes()) {
		return "determinism:with-logger:" + feature(cfg), "writing with SMF.Logger set emits other bytes: " + engine.Hex(clip(w3.buf.Bytes())) + " vs " + engine.Hex(clip(out))
	}
	if !cfg.NoRS && len(out) < len(refsmf.Encode(exp)) {
		ctx.Add("files_with_running_status_elision", 1)
	}
	return "", ""
}

type nullLogger struct{ n int }

func (l *nullLogger) Printf(format string, vals ...interface{}) {
	// built as a real logger would build it (String methods run), thrown away
	l.n += len(fmt.Sprintf(format, vals...))
}

func clip(b []byte) []byte {
	if len(b) > 200 {
		return b[:200]
	}
	return b
}

func classify(e string) string {
	for _, k := range []string{"trailing", "ntrks", "non-canonical", "end-of-track", "running status", "status byte", "header length", "division", "format", "events after", "unexpected end", "VLQ longer", "alien"} {
		if bytes.Contains([]byte(e), []byte(k)) {
			return k
		}
	}
	return "other"
}

func check(in *sp.Inst, hist []sp.Op, cfg sp.Cfg, p *sp.Plan) {
	sig, what := strictCheck(in, cfg)
	ctx.Add("files_written_and_parsed_strictly", 1)
	if sig != "" && ctx.SigCount(sig) < 50 {
		ctx.Violation(sig, sp.HistoryDetail(cfg, p.AlName, hist, sp.Alphabet(p.AlName), what))
	}
}

func cfgs(full bool) []sp.Cfg {
	var out []sp.Cfg
	tfs := []smf.TimeFormat{smf.MetricTicks(96), smf.SMPTE30DropFrame(80)}
	for ctor := 0; ctor < 3; ctor++ {
		for _, nors := range []bool{false, true} {
			for _, tf := range tfs {
				out = append(out, sp.Cfg{Ctor: ctor, NoRS: nors, TF: tf})
			}
		}
	}
	if full {
		return out
	}
	return []sp.Cfg{out[0], out[2], out[5], out[7], out[8], out[11]}
}

// fromRead turns configurations into "start from a value read from a file".
func fromRead(cs []sp.Cfg) []sp.Cfg {
	var out []sp.Cfg
	for i, c := range cs {
		c.FromRead = 1 + i%2
		out = append(out, c)
	}
	return out
}

func plans() []sp.Plan {
	return []sp.Plan{
		{Name: "full-alphabet", Cfgs: cfgs(true), AlName: "full", Deltas: []uint32{0, 1, 128}, CloseDeltas: []uint32{0, 1},
			Add2: true, MaxEvents: ctx.Pick(2, 3), MaxTracks: 2},
		{Name: "small-alphabet-deeper", Cfgs: cfgs(true), AlName: "small", Deltas: []uint32{0, 128}, CloseDeltas: []uint32{0},
			Add2: false, MaxEvents: ctx.Pick(3, 4), MaxTracks: 2},
		{Name: "lookalike-payloads", Cfgs: cfgs(false), AlName: "lookalike", Deltas: []uint32{0, 1}, CloseDeltas: []uint32{0},
			MaxEvents: ctx.Pick(3, 4), MaxTracks: 2},
		{Name: "write-in-history", Cfgs: cfgs(false), AlName: "tiny", Deltas: []uint32{0, 1}, CloseDeltas: []uint32{0},
			Write: true, MaxWrites: 2, MaxEvents: ctx.Pick(3, 4), MaxTracks: 3},
		{Name: "from-read-then-extend", Cfgs: fromRead(cfgs(false)), AlName: "tiny", Deltas: []uint32{0, 1}, CloseDeltas: []uint32{0},
			Write: true, MaxWrites: 1, MaxEvents: ctx.Pick(3, 4), MaxTracks: 4},
		{Name: "tiny-alphabet-deepest", Cfgs: cfgs(ctx.Thorough()), AlName: "tiny", Deltas: []uint32{0, 1}, CloseDeltas: []uint32{0},
			Add2: true, MaxEvents: ctx.Pick(4, 5), MaxTracks: ctx.Pick(2, 3)},
	}
}

// vlqRange checks the VLQ codec on [lo,hi).
func vlqRange(lo, hi uint64) {
	var multi int64
	for n := lo; n < hi; n++ {
		v := uint32(n)
		enc := utils.VlqEncode(v)
		bad := ""
		if ok, _, _ := vlqStable.Next(enc); !ok {
			bad = "aliasing"
		}
		want := refsmf.VLQ(v)
		switch {
		case bad != "":
		case !bytes.Equal(enc, want):
			bad = "encoding"
		case utils.VlqDecode(enc) != v:
			bad = "decode"
		default:
			r, err := utils.ReadVarLength(bytes.NewReader(enc))
			if err != nil || r != v {
				bad = "read"
			}
		}
		if len(enc) > 1 {
			multi++
		}
		if bad != "" {
			sig := fmt.Sprintf("vlq:%s:width%d", bad, len(want))
			if ctx.SigCount(sig) < 5 {
				ctx.Violation(sig, map[string]interface{}{"kind": "vlq", "value": n, "encoded": engine.Hex(enc), "expected": engine.Hex(want),
					"what": "VLQ codec wrong in " + bad})
			}
		}
	}
	ctx.Evals.Add(int64(hi - lo))
	ctx.Add("vlq_values_checked", int64(hi-lo))
	ctx.Add("vlq_multibyte", multi)
}

// vlqBeyond checks what the API accepts above 2^28: boundaries and all values
// with a single non-zero 7-bit digit; encode/decode must still be inverse.
func vlqBeyond() {
	var vals []uint64
	for _, b := range []uint64{1 << 28, 1 << 31, 1<<32 - 1} {
		for d := int64(-2); d <= 2; d++ {
			v := int64(b) + d
			if v >= 0 && v <= 0xFFFFFFFF {
				vals = append(vals, uint64(v))
			}
		}
	}
	for shift := 0; shift < 32; shift += 7 {
		for d := uint64(1); d < 128; d++ {
			v := d << shift
			if v <= 0xFFFFFFFF {
				vals = append(vals, v)
			}
		}
	}
	for _, n := range vals {
		v := uint32(n)
		enc := utils.VlqEncode(v)
		ctx.Eval()
		ok := utils.VlqDecode(enc) == v
		r, err := utils.ReadVarLength(bytes.NewReader(enc))
		ok = ok && err == nil && r == v
		for i, b := range enc {
			if (b&0x80 != 0) != (i < len(enc)-1) {
				ok = false
			}
		}
		if !ok {
			ctx.Violation("vlq:beyond-2^28", map[string]interface{}{"kind": "vlq", "value": n, "encoded": engine.Hex(enc), "what": "VLQ of a 32-bit value does not decode back"})
		}
	}
	ctx.Add("vlq_values_above_2^28", int64(len(vals)))
}

// twoWriters: two values written by two threads that are switched inside the
// Write calls of their destinations (every schedule with at most two
// switches): each output must be the bytes the value gives when written alone.
func twoWriters() {
	al := sp.FullAlphabet()
	mk := func(k int) *sp.Inst {
		ops := []sp.Op{{Kind: sp.OpAdd, D: 0, M1: k % len(al)}, {Kind: sp.OpAdd, D: 1, M1: (k + 3) % len(al)}, {Kind: sp.OpSMFAdd},
			{Kind: sp.OpAdd, D: 2, M1: (k + 5) % len(al)}, {Kind: sp.OpClose, D: 0}, {Kind: sp.OpSMFAdd}}
		return sp.Build(sp.Cfg{Ctor: 0, NoRS: k%2 == 1, TF: smf.MetricTicks(96)}, al, ops)
	}
	var refs [][]byte
	for k := 0; k < 4; k++ {
		var b bytes.Buffer
		mk(k).S.WriteTo(&b)
		refs = append(refs, b.Bytes())
	}
	var iv engine.Interleaver
	for a := 0; a < 4; a++ {
		for b := 0; b < 4; b++ {
			var outs [2]bytes.Buffer
			var errs [2]error
			run := func(first, i, j int) {
				outs = [2]bytes.Buffer{}
				body := func(k, v int) func(yield func()) {
					return func(yield func()) {
						_, errs[k] = mk(v).S.WriteTo(&faultio.YieldWriter{W: &outs[k], Yield: yield})
					}
				}
				iv.Run(first, i, j, body(0, a), body(1, b))
			}
			run(0, -1, -1)
			ya, yb := iv.Yields()
			for first := 0; first < 2; first++ {
				n1, n2 := ya, yb
				if first == 1 {
					n1, n2 = yb, ya
				}
				for i := 1; i <= n1; i++ {
					for j := -1; j <= n2; j++ {
						if j == 0 {
							continue
						}
						run(first, i, j)
						ctx.Eval()
						ctx.Add("two_writer_schedules", 1)
						if errs[0] != nil || errs[1] != nil || !bytes.Equal(outs[0].Bytes(), refs[a]) || !bytes.Equal(outs[1].Bytes(), refs[b]) {
							if ctx.SigCount("concurrent-writers:interference") < 5 {
								ctx.Violation("concurrent-writers:interference", map[string]interface{}{"kind": "two-writers", "a": a, "b": b, "first": first, "switch_first_at_write": i, "switch_second_at_write": j,
									"what": "two values written by two threads switched inside Write calls: an output differs from what the value gives when written alone"})
							}
						}
					}
				}
			}
		}
	}
}

// writeFile: WriteFile must leave exactly the bytes WriteTo emits in the file,
// also when the path already holds another (longer or shorter) file.
// oddValues: SMF values that were not made by the constructors (zero value,
// time format given as a pointer or missing): WriteTo either fails or emits a
// valid file, it does not report success for something else.
func oddValues() {
	mk := func(tf smf.TimeFormat) smf.SMF {
		var s smf.SMF
		s.TimeFormat = tf
		var t smf.Track
		t.Add(0, smf.Message([]byte{0x90, 0x3C, 0x40}))
		t.Close(1)
		s.Tracks = append(s.Tracks, t)
		return s
	}
	tc := smf.TimeCode{FramesPerSecond: 25, SubFrames: 40}
	mt := smf.MetricTicks(96)
	type odd struct {
		name string
		s    smf.SMF
	}
	odds := []odd{{"zero-value-no-time-format", mk(nil)}, {"pointer-to-timecode", mk(&tc)}, {"pointer-to-metric-ticks", mk(&mt)}, {"metric-ticks-0", mk(smf.MetricTicks(0))}}
	// resolutions the header cannot hold (the type takes 16 bits, the format
	// 15): refused, or written as some valid file - never an invalid header
	for r := 32768; r <= 65535; r++ {
		odds = append(odds, odd{fmt.Sprintf("metric-ticks-%d", r), mk(smf.MetricTicks(r))})
	}
	for _, o := range odds {
		name, s := o.name, o.s
		if len(name) > 15 && name[:13] == "metric-ticks-" {
			name = "metric-ticks-above-32767"
		}
		ctx.Eval()
		ctx.Add("odd_values", 1)
		var w countWriter
		var n int64
		var err error
		c := engine.Catch(func() { n, err = s.WriteTo(&w) })
		out := w.buf.Bytes()
		switch {
		case c.Panicked:
			ctx.Violation(c.Sig+":odd-value:"+name, map[string]interface{}{"kind": "odd-value", "value": o.name, "what": "WriteTo panicked: " + c.Value})
		case err != nil:
			// refused: fine
		case n != int64(len(out)):
			ctx.Violation("size:odd-value:"+name, map[string]interface{}{"kind": "odd-value", "value": o.name, "what": fmt.Sprintf("reported size %d, emitted %d bytes", n, len(out))})
		default:
			if _, perr := refsmf.Parse(out, refsmf.Strict); perr != nil {
				ctx.Violation("strict:rejected:odd-value:"+name, map[string]interface{}{"kind": "odd-value", "value": o.name,
					"what": "WriteTo reported success but the strict parser rejects the output: " + perr.Error() + " bytes=" + engine.Hex(clip(out))})
			}
		}
	}
}

func writeFile() {
	dir, err := os.MkdirTemp(os.Getenv("VERIF_WORK"), "c03-writefile-")
	if err != nil {
		ctx.Guard(false, "no temp dir: %v", err)
		return
	}
	defer os.RemoveAll(dir)
	al := sp.FullAlphabet()
	mk := func(n int) *sp.Inst {
		var ops []sp.Op
		for i := 0; i < n; i++ {
			ops = append(ops, sp.Op{Kind: sp.OpAdd, D: uint32(i % 3), M1: i % len(al)})
		}
		ops = append(ops, sp.Op{Kind: sp.OpSMFAdd})
		return sp.Build(sp.Cfg{Ctor: 0, TF: smf.MetricTicks(96)}, al, ops)
	}
	path := dir + "/song.mid"
	path2 := dir + "/direct.mid"
	for _, seq := range [][]int{{1}, {40, 2}, {2, 40, 3}, {10, 10}, {200, 1, 0}} {
		os.Remove(path)
		for _, n := range seq {
			ctx.Eval()
			in := mk(n)
			var want bytes.Buffer
			if _, err := in.Clone().S.WriteTo(&want); err != nil {
				continue
			}
			var werr error
			c := engine.Catch(func() { werr = in.S.WriteFile(path) })
			got, _ := os.ReadFile(path)
			switch {
			case c.Panicked:
				ctx.Violation(c.Sig+":WriteFile", map[string]interface{}{"kind": "writefile", "events": n, "what": "WriteFile panicked: " + c.Value})
			case werr != nil:
				ctx.Violation("writefile:error", map[string]interface{}{"kind": "writefile", "events": n, "what": "WriteFile failed: " + werr.Error()})
			case !bytes.Equal(got, want.Bytes()):
				ctx.Violation("writefile:content", map[string]interface{}{"kind": "writefile", "events": n, "sequence": seq,
					"what": fmt.Sprintf("the file holds %d bytes, WriteTo emits %d (the path held another file before)", len(got), want.Len())})
			}
			ctx.Add("writefile_cases", 1)
			// WriteTo straight into an *os.File: the file holds the bytes and the
			// size says so; into a descriptor that takes nothing the size is 0
			for _, kind := range []string{"good-file", "read-only-descriptor"} {
				os.WriteFile(path2, nil, 0o644)
				var f *os.File
				if kind == "good-file" {
					f, _ = os.Create(path2)
				} else {
					f, _ = os.Open(path2)
				}
				if f == nil {
					continue
				}
				var size int64
				c := engine.Catch(func() { size, werr = in.Clone().S.WriteTo(f) })
				// the handle stays the caller's: it is still open afterwards (a second
				// file may follow behind the first, the caller may rewind and read)
				if _, serr := f.Seek(0, io.SeekCurrent); serr != nil && !c.Panicked {
					ctx.Violation("write:destination-closed:"+kind, map[string]interface{}{"kind": "writefile", "events": n,
						"what": "after WriteTo the *os.File it was given is no longer usable: " + serr.Error()})
				}
				f.Close()
				got, _ = os.ReadFile(path2)
				switch {
				case c.Panicked:
					ctx.Violation(c.Sig+":WriteTo-os-file", map[string]interface{}{"kind": "writefile", "events": n, "what": "WriteTo into an *os.File panicked: " + c.Value})
				case size != int64(len(got)) || (kind == "good-file" && (werr != nil || !bytes.Equal(got, want.Bytes()))):
					ctx.Violation("size:os-file:"+kind, map[string]interface{}{"kind": "writefile", "events": n,
						"what": fmt.Sprintf("WriteTo into an *os.File (%s): error %v, reported size %d, the file holds %d bytes, the value has %d", kind, werr, size, len(got), want.Len())})
				}
				ctx.Add("writefile_cases", 1)
			}
		}
	}
}

func main() {
	ctx = engine.Start("C03", "model_checking")
	disturb.Install(ctx)
	sp.Thorough = ctx.Thorough()
	if ctx.ReplayPath != "" {
		if cp.Replay(ctx, ctx.LoadReplay(), "smf-write", cc.SMFWrite()) {
			ctx.Finish("replay")
		}
		replay()
		return
	}
	ctx.Assume("strict parser refsmf (DESIGN.md appendix B) is the definition of a structurally valid SMF 1.0 file")
	ctx.Assume("domain of C01 restricted to deltas <= 0x0FFFFFFF")
	type job struct {
		p   sp.Plan
		cfg sp.Cfg
		op  int
	}
	var jobs []job
	pl := plans()
	for _, p := range pl {
		for _, c := range p.Cfgs {
			for op := range p.Ops() {
				jobs = append(jobs, job{p, c, op})
			}
		}
	}
	ctx.Jobs("concurrent", 1, func(int) {
		cp.Litmus(ctx)
		cp.Check(ctx, "smf-write", cc.SMFWrite())
	})
	ctx.Jobs("search", len(jobs), func(j int) { sp.RunPlanCfgShard(ctx, jobs[j].p, jobs[j].cfg, jobs[j].op, check) })
	ctx.Jobs("value-sweeps", 8, func(j int) {
		for i, c := range sp.ValueSweeps() {
			if i%8 != j || c.Name == "meta-type-8bit" {
				continue
			}
			in := sp.Build(c.Cfg, c.Al, c.Ops)
			ctx.Eval()
			ctx.Add("sweep_values", 1)
			sig, what := strictCheck(in, c.Cfg)
			if sig != "" && ctx.SigCount(sig) < 20 {
				d := sp.HistoryDetail(c.Cfg, "sweep", c.Ops[:min(len(c.Ops), 12)], c.Al, what)
				d["sweep"] = c.Name
				d["sweep_value"] = c.Val
				ctx.Violation(sig+":"+c.Name, d)
			}
		}
		sp.ScalarSweeps(j, 8, 0x0FFFFFFF, func(c sp.SweepCase) {
			in := sp.Build(c.Cfg, c.Al, c.Ops)
			ctx.Eval()
			ctx.Add("sweep_"+c.Name, 1)
			sig, what := strictCheck(in, c.Cfg)
			if sig != "" && ctx.SigCount(sig+":"+c.Name) < 20 {
				d := sp.HistoryDetail(c.Cfg, "sweep", c.Ops, c.Al, what)
				d["sweep"] = c.Name
				d["sweep_value"] = c.Val
				ctx.Violation(sig+":"+c.Name, d)
			}
		})
	})
	ctx.Jobs("writefile", 1, func(int) { writeFile(); twoWriters(); oddValues(); sizeOnError(); editsBetweenWrites() })
	const parts = 32
	ctx.Jobs("vlq", parts, func(j int) {
		step := uint64(1<<28) / parts
		vlqRange(uint64(j)*step, uint64(j+1)*step)
		if j == 0 {
			vlqBeyond()
		}
	})
	if !ctx.IsChild() {
		ctx.RacePairs("smf-write")
	}
	var planInfo []map[string]interface{}
	for _, p := range pl {
		planInfo = append(planInfo, map[string]interface{}{
			"plan": p.Name, "configurations": len(p.Cfgs), "operations": len(p.Ops()), "alphabet": p.AlName,
			"max_events": p.MaxEvents, "max_tracks": p.MaxTracks,
			"states": ctx.GetInt("plan:" + p.Name + ":states"), "transitions": ctx.GetInt("plan:" + p.Name + ":transitions"),
			"depth": ctx.GetInt("max:plan:" + p.Name + ":depth"),
		})
		fmt.Printf("plan %-24s cfgs=%d ops=%d states=%d transitions=%d depth=%d\n", p.Name, len(p.Cfgs), len(p.Ops()),
			ctx.GetInt("plan:"+p.Name+":states"), ctx.GetInt("plan:"+p.Name+":transitions"), ctx.GetInt("max:plan:"+p.Name+":depth"))
	}
	ctx.Set("traces_validated_against_impl", ctx.GetInt("transitions"))
	ctx.Set("max_depth", ctx.GetInt("max:depth"))
	ctx.Set("plans", planInfo)
	ctx.NontrivialN(ctx.GetInt("files_with_running_status_elision"))
	ctx.Guard(ctx.GetInt("states") > 10000, "state space suspiciously small")
	ctx.Guard(ctx.GetInt("vlq_values_checked") == 1<<28, "VLQ enumeration incomplete: %d", ctx.GetInt("vlq_values_checked"))
	ctx.Guard(ctx.GetInt("files_with_running_status_elision") > 100, "running status never elided")
	ctx.Sample(map[string]interface{}{"vlq": "all n in [0,2^28): VlqEncode(n) == shortest form, VlqDecode and ReadVarLength give n back"})
	ctx.Finish("explicit-state BFS over API histories (as C01); in every state the output is parsed by the strict reference parser and compared with the reference value, size and second-write determinism checked; non-trivial = outputs shorter than the plain encoding (running status elided); plus all 2^28 VLQ values")
}

// sizeOnError: WriteTo is an io.WriterTo - the size it reports is the number
// of bytes the destination has taken, also when the destination fails part way
// (inside the header, inside a track chunk, at a chunk boundary).
func sizeOnError() {
	al := sp.FullAlphabet()
	big := make([]byte, 5000)
	for i := range big {
		big[i] = byte(i) & 0x7F
	}
	alb := append(append([]sp.Msg{}, al...), sp.Msg{Name: "SysEx5000", Bytes: midi.SysEx(big)})
	mk := func(tracks, n int, withBig bool) *sp.Inst {
		var ops []sp.Op
		for t := 0; t < tracks; t++ {
			for i := 0; i < n; i++ {
				ops = append(ops, sp.Op{Kind: sp.OpAdd, D: uint32(i % 3 * 100), M1: (i + t) % len(al)})
			}
			if withBig && t == 0 {
				ops = append(ops, sp.Op{Kind: sp.OpAdd, D: 1, M1: len(al)})
			}
			ops = append(ops, sp.Op{Kind: sp.OpSMFAdd})
		}
		return sp.Build(sp.Cfg{Ctor: 0, TF: smf.MetricTicks(96)}, alb, ops)
	}
	for vi, v := range []struct {
		tracks, n int
		big       bool
	}{{1, 0, false}, {1, 3, false}, {2, 20, false}, {3, 1, false}, {1, 150, false}, {2, 2, true}} {
		base := mk(v.tracks, v.n, v.big)
		var ok bytes.Buffer
		if _, err := base.Clone().S.WriteTo(&ok); err != nil {
			ctx.Guard(false, "size-on-error: value %d cannot be written: %v", vi, err)
			continue
		}
		for _, mode := range []string{"short", "call", "full", "once-short", "once-full"} {
			limit := ok.Len() + 1
			if mode[0] == 'o' {
				limit = 8 // the number of the failing Write call
			}
			for k := 0; k <= limit; k++ {
				fw := &faultio.FailWriter{At: k, Mode: mode}
				var n int64
				var err error
				in := base.Clone()
				c := engine.Catch(func() { n, err = in.S.WriteTo(fw) })
				ctx.Eval()
				ctx.Add("size_on_error_cases", 1)
				sig, what := "", ""
				switch {
				case c.Panicked:
					sig, what = c.Sig+":size-on-error", "WriteTo panicked: "+c.Value
				case n != int64(len(fw.Got)):
					where := "track-data"
					if len(fw.Got) < 14 {
						where = "header"
					}
					sig = "size:failing-destination:" + where + ":" + mode
					what = fmt.Sprintf("the destination took %d bytes (fault at %d, mode %s, error %v), WriteTo reports %d", len(fw.Got), k, mode, err, n)
				}
				if sig != "" && ctx.SigCount(sig) < 5 {
					ctx.Violation(sig, map[string]interface{}{"kind": "size-on-error", "value": vi, "fault_at": k, "mode": mode, "what": what})
				}
			}
		}
	}
}

func replay() {
	m := ctx.LoadReplay()
	switch m["kind"] {
	case "size-on-error":
		sizeOnError()
		ctx.Finish("replay")
	case "vlq":
		n := uint64(m["value"].(float64))
		vlqRange(n, n+1)
		ctx.Finish("replay")
	case "odd-value":
		oddValues()
		ctx.Finish("replay")
	case "writefile":
		writeFile()
		ctx.Finish("replay")
	case "two-writers":
		twoWriters()
		ctx.Finish("replay")
	case "edit-between-writes":
		editsBetweenWrites()
		ctx.Finish("replay")
	}
	cfg, alName, ops := sp.ParseHistory(m)
	if alName == "sweep" {
		fmt.Println("sweep case", m["sweep"], m["sweep_value"], "- the whole sweep is re-run")
		for _, c := range sp.ValueSweeps() {
			if c.Name == "meta-type-8bit" {
				continue
			}
			if sig, what := strictCheck(sp.Build(c.Cfg, c.Al, c.Ops), c.Cfg); sig != "" {
				fmt.Println("REPLAY: violated:", sig, what)
				ctx.Violation(sig+":"+c.Name, m)
			}
		}
		sp.ScalarSweeps(0, 1, 0x0FFFFFFF, func(c sp.SweepCase) {
			if sig, what := strictCheck(sp.Build(c.Cfg, c.Al, c.Ops), c.Cfg); sig != "" {
				fmt.Println("REPLAY: violated:", sig, what)
				ctx.Violation(sig+":"+c.Name, m)
			}
		})
		ctx.Finish("replay")
	}
	al := sp.Alphabet(alName)
	in := sp.Build(cfg, al, ops)
	sig, what := strictCheck(in, cfg)
	fmt.Println("history:", sp.DescribeOps(ops, al))
	if sig == "" {
		fmt.Println("REPLAY: property holds for this case")
		return
	}
	fmt.Printf("REPLAY: violated: %s (%s)\n", sig, what)
	ctx.Violation(sig, m)
	ctx.Finish("replay")
}
