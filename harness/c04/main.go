// C04 — live MIDI byte streams are decoded into exactly the messages sent.
//
// (a) Product search (decoder private state x reference receiver x sender
// automaton) over sender-legal byte streams to the fixpoint: every length.
// (b) Bounded sender space: message sequences x every legal running-status
// elision x real-time bytes inserted at every position x every partition of
// the byte stream into Send calls x time deltas; expected = the messages
// themselves, each once, complete, explicit status, in order of completion,
// stamped with the accumulated time of the completing chunk.
package main

import (
	"fmt"
	"time"

	"gitlab.com/gomidi/midi/v2/internal/verifh/engine"
	ls "gitlab.com/gomidi/midi/v2/internal/verifh/livespace"
	"gitlab.com/gomidi/midi/v2/internal/verifh/refmidi"
)

var ctx *engine.Ctx

const buf = 5

var alphabet = ls.SenderAlphabet(buf)

func names(seq []ls.SMsg) []string {
	var n []string
	for _, m := range seq {
		n = append(n, m.Name)
	}
	return n
}

// play sends wire in chunks with the given per-chunk sleeps (ms) and judges.
var playCount int

func play(seq []ls.SMsg, wire []ls.WireByte, chunks []int, sleeps []int32, space string) {
	o := ls.All(buf)
	playCount++
	o.Reversed = playCount%2 == 1 // the order in which the options are passed must not matter
	l := ls.NewLoop(o)
	if l.Err != nil {
		ctx.Guard(false, "loopback: %v", l.Err)
		return
	}
	stamps := make([]int32, len(chunks))
	var acc int32
	pos := 0
	ctx.Eval()
	raw := make([]byte, len(wire))
	for i, w := range wire {
		raw[i] = w.B
	}
	for ci, n := range chunks {
		acc += sleeps[ci]
		stamps[ci] = acc
		l.Drv.Sleep(time.Duration(sleeps[ci]) * time.Millisecond)
		_, c := l.Send(raw[pos : pos+n])
		if c.Panicked {
			report(c.Sig+":"+space, seq, raw, chunks, sleeps, "Send panicked: "+c.Value)
			return
		}
		pos += n
	}
	want := ls.Expected(seq, wire, chunks, stamps)
	if was, now, yes := l.Overwritten(); yes {
		report("sent:retained-message-overwritten:"+space, seq, raw, chunks, sleeps, fmt.Sprintf("a message handed to the listener (% X) changed afterwards to % X", was, now))
		return
	}
	if d := ls.Match(l.Got, want); d != "" {
		feat := ""
		// feature: kind of the first message that is wrong
		for i := range want {
			if i >= len(l.Got) || string(l.Got[i].Msg) != string(want[i].Msg) || l.Got[i].TS < want[i].TSLo || l.Got[i].TS > want[i].TSHi {
				feat = refmidi.ByteClass(want[i].Msg[0])
				break
			}
		}
		report("sent:"+d+":"+feat+":"+space, seq, raw, chunks, sleeps,
			fmt.Sprintf("delivered [%s], sent [%s]", ls.RenderDeliveries(l.Got), ls.RenderExpect(want)))
	}
}

func report(sig string, seq []ls.SMsg, raw []byte, chunks []int, sleeps []int32, what string) {
	if ctx.SigCount(sig) < 10 {
		ctx.Violation(sig, map[string]interface{}{"kind": "wire", "messages": names(seq), "wire": engine.Hex(raw), "chunks": chunks, "sleeps_ms": sleeps, "what": what})
	}
}

func compositions(n int, f func([]int)) {
	for mask := 0; mask < 1<<(n-1); mask++ {
		var c []int
		run := 1
		for i := 0; i < n-1; i++ {
			if mask&(1<<i) != 0 {
				c = append(c, run)
				run = 1
			} else {
				run++
			}
		}
		c = append(c, run)
		f(c)
	}
}

var deltaSet = []int32{0, 1, 5}

// sleepsFor enumerates time delta assignments: all of them for up to maxAll
// chunks, otherwise two cyclic patterns.
func sleepsFor(k, maxAll int, f func([]int32)) {
	if k <= maxAll {
		idx := make([]int, k)
		rad := make([]int, k)
		for i := range rad {
			rad[i] = len(deltaSet)
		}
		s := make([]int32, k)
		for {
			for i := range idx {
				s[i] = deltaSet[idx[i]]
			}
			f(s)
			if !engine.Odometer(idx, rad) {
				return
			}
		}
	}
	s := make([]int32, k)
	for i := range s {
		s[i] = deltaSet[(i+1)%3]
	}
	f(s)
	for i := range s {
		s[i] = 0
	}
	f(s)
}

func withRT(wire []ls.WireByte, pos int, b byte) []ls.WireByte {
	out := make([]ls.WireByte, 0, len(wire)+1)
	out = append(out, wire[:pos]...)
	out = append(out, ls.WireByte{B: b, Msg: -1})
	return append(out, wire[pos:]...)
}

// sequences enumerates sequences of exactly depth messages starting with
// alphabet[first].
func sequences(first, depth int, f func([]ls.SMsg)) {
	seq := make([]ls.SMsg, depth)
	seq[0] = alphabet[first]
	var rec func(i int)
	rec = func(i int) {
		if i == depth {
			f(seq)
			return
		}
		for _, m := range alphabet {
			seq[i] = m
			rec(i + 1)
		}
	}
	rec(1)
}

func senderSpace(first int) {
	maxDepth := ctx.Pick(4, 6)
	for depth := 1; depth <= maxDepth; depth++ {
		sequences(first, depth, func(seq []ls.SMsg) {
			for el := uint(0); el < 1<<uint(depth); el++ {
				wire := ls.Serialize(seq, el)
				if wire == nil {
					continue
				}
				if el != 0 {
					ctx.NontrivialN(1)
				}
				n := len(wire)
				// S1: whole stream at once, and bytewise
				one := []int{n}
				play(seq, wire, one, []int32{1}, "one-chunk")
				bw := make([]int, n)
				for i := range bw {
					bw[i] = 1
				}
				sleepsFor(n, 0, func(s []int32) { play(seq, wire, bw, s, "bytewise") })
				if depth <= 3 {
					// empty Send calls (nil and zero-length) that only let time pass
					ez := make([]int, 0, 2*n+1)
					es := make([]int32, 0, 2*n+1)
					ez = append(ez, 0)
					es = append(es, 5)
					for i := 0; i < n; i++ {
						ez = append(ez, 1, 0)
						es = append(es, int32(i%2), 1)
					}
					play(seq, wire, ez, es, "empty-chunks")
				}
				if depth <= 3 && n <= ctx.Pick(11, 13) {
					// S2': depth 3 sequences, every partition, one time pattern
					if depth == 3 {
						compositions(n, func(c []int) {
							sleepsFor(len(c), 0, func(s []int32) { play(seq, wire, c, s, "partitions") })
						})
					}
				}
				if depth == 3 {
					// one real-time byte at every position, one chunk and bytewise
					for p := 0; p <= n; p++ {
						w1 := withRT(wire, p, 0xF8)
						play(seq, w1, []int{n + 1}, []int32{1}, "realtime-1")
						bw1 := make([]int, n+1)
						for i := range bw1 {
							bw1[i] = 1
						}
						sleepsFor(n+1, 0, func(s []int32) { play(seq, w1, bw1, s, "realtime-1") })
					}
				}
				if depth <= 2 {
					// S2: every partition x time deltas
					if n <= ctx.Pick(12, 14) {
						compositions(n, func(c []int) {
							sleepsFor(len(c), ctx.Pick(3, 4), func(s []int32) { play(seq, wire, c, s, "partitions") })
						})
					}
					// S3: one real-time byte at every position x every partition;
					// two real-time bytes at every pair of positions, one chunk and bytewise
					for _, rt := range []byte{0xF8, 0xFE} {
						for p := 0; p <= n; p++ {
							w1 := withRT(wire, p, rt)
							if n+1 <= ctx.Pick(11, 13) {
								compositions(n+1, func(c []int) {
									sleepsFor(len(c), 0, func(s []int32) { play(seq, w1, c, s, "realtime-1") })
								})
							} else {
								play(seq, w1, []int{n + 1}, []int32{0}, "realtime-1")
							}
							for q := p; q <= n+1; q++ {
								w2 := withRT(w1, q, 0xFA)
								play(seq, w2, []int{n + 2}, []int32{5}, "realtime-2")
								bw2 := make([]int, n+2)
								for i := range bw2 {
									bw2[i] = 1
								}
								sleepsFor(n+2, 0, func(s []int32) { play(seq, w2, bw2, s, "realtime-2") })
							}
						}
					}
				}
			}
		})
	}
}

// product: sender-legal streams to the fixpoint.
func product() {
	b := &engine.BFS{NumOps: len(ls.Classes), MaxStates: 200000, MaxTransitions: 1000000, Stop: func() bool { return ctx.ViolationCount() > 0 }}
	cfgOpts := ls.All(buf)
	b.Run = func(path []uint16) (string, bool) {
		snd := refmidi.NewSender(buf)
		stream := make([]byte, len(path))
		for i, p := range path {
			stream[i] = ls.Classes[p]
			if !snd.Legal(stream[i]) {
				return "", false
			}
		}
		ctx.Eval()
		l := ls.NewLoop(cfgOpts)
		ref := &refmidi.Receiver{BufSize: buf, SysexOn: true}
		for i, by := range stream {
			cls := ref.StateClass()
			want := ref.Feed(by)
			_, c := l.Send([]byte{by})
			got := l.Take()
			if i < len(stream)-1 {
				continue
			}
			if c.Panicked {
				reportStream(c.Sig+":"+cls+":"+refmidi.ByteClass(by), stream, "Send panicked: "+c.Value)
				return "", false
			}
			if d := ls.Compare(got, want); d != "" {
				reportStream("deliver:"+d+":"+cls+":"+refmidi.ByteClass(by), stream,
					fmt.Sprintf("delivered [%s], reference [%s]", ls.RenderDeliveries(got), ls.RenderRef(want)))
				return "", false
			}
		}
		return l.ReaderState() + "|" + ref.Key() + "|" + snd.Key(), true
	}
	b.Explore("init")
	ctx.Add("states", b.States)
	ctx.Add("transitions", b.Transitions)
	ctx.Max("max:depth", int64(b.Depth))
	if !b.Fixpoint {
		ctx.NotExhaustive("sender-legal product search did not reach its fixpoint")
	} else {
		ctx.Add("fixpoints_reached", 1)
	}
	fmt.Printf("product (sender-legal) states=%d transitions=%d depth=%d fixpoint=%v\n", b.States, b.Transitions, b.Depth, b.Fixpoint)
}

func reportStream(sig string, stream []byte, what string) {
	if ctx.SigCount(sig) < 10 {
		ctx.Violation(sig, map[string]interface{}{"kind": "stream", "stream": engine.Hex(stream), "what": what})
	}
}

// pauses: every pause length 0..6000 ms (and a few long ones) before a message:
// the stamp is the accumulated whole-millisecond time.
func pauses(part, parts int) {
	seq := []ls.SMsg{alphabet[0], alphabet[2]}
	wire := ls.Serialize(seq, 0)
	var ps []int32
	for p := int32(part); p <= 6000; p += int32(parts) {
		ps = append(ps, p)
	}
	if part == 0 {
		ps = append(ps, 59999, 60000, 60001, 3599999, 3600000, 3600001, 86400000, 1<<30)
	}
	// pauses inside a message: every message of the alphabet cut at every inner
	// position, seconds to days between the two pieces
	if part == 1 {
		for _, m := range alphabet {
			sq := []ls.SMsg{m, alphabet[0]}
			w := ls.Serialize(sq, 0)
			n := len(m.Bytes)
			for k := 1; k < n; k++ {
				for _, p := range []int32{999, 1000, 9999, 10000, 10001, 59999, 60001, 3600000, 86400001, 1 << 30} {
					play(sq, w, []int{k, n - k, 3}, []int32{1, p, 1}, "pause-inside")
					ctx.Add("pauses_inside_messages", 1)
					// the same behind an active sensing byte (a receiver that has
					// seen one may watch the clock from then on)
					for _, a := range alphabet {
						if a.Name == "ActiveSense" {
							sq2 := []ls.SMsg{a, m, alphabet[0]}
							w2 := ls.Serialize(sq2, 0)
							play(sq2, w2, []int{1, k, n - k, 3}, []int32{1, 1, p, 1}, "pause-inside")
						}
					}
				}
			}
		}
	}
	for _, p := range ps {
		play(seq, wire, []int{3, 2}, []int32{p, 1}, "pause-sweep")
		play(seq, wire, []int{3, 2}, []int32{1, p}, "pause-sweep")
		ctx.Add("pause_lengths", 1)
	}
}

func main() {
	ctx = engine.Start("C04", "model_checking")
	ls.OnViolation = func(sig, what string) {
		if ctx.SigCount(sig) < 3 {
			ctx.Violation(sig, map[string]interface{}{"kind": "wrapper", "what": what})
		}
	}
	if ctx.ReplayPath != "" {
		replay()
		return
	}
	ctx.Assume("time stamps: whole-millisecond deltas on the driver's virtual clock (Driver.Sleep); time.Now inside the driver is a constant (import substitution), so the first stamp does not depend on harness speed")
	ctx.Assume("sender-legal streams: data only inside a message or under legal running status, sysex no longer than the buffer, no F4/F5/F9/FD, F7 only closing a sysex")
	ctx.JobsW("product", 1, 4, func(int) { product() })
	ctx.Jobs("sender", len(alphabet), func(j int) { senderSpace(j) })
	ctx.Jobs("pauses", 8, func(j int) { pauses(j, 8) })
	ctx.Jobs("periodic", 16, func(j int) { periodic(j, 16) })
	ctx.Jobs("deep", len(deepKinds), func(j int) { deepSpace(j) })
	ctx.Jobs("thru", 1, func(int) { thru(); refused(); fractions() })
	ctx.Set("traces_validated_against_impl", ctx.GetInt("transitions"))
	ctx.Set("max_depth", ctx.GetInt("max:depth"))
	ctx.Set("fixpoint_reached", ctx.GetInt("fixpoints_reached") == 1)
	ctx.Set("message_alphabet", len(alphabet))
	ctx.Sample(map[string]interface{}{"messages": []string{"NoteOn0a", "NoteOn0b", "SPP"}, "wire": "90 3C 40 | 3E F8 00 | F2 01 7F", "note": "running status, real-time byte inside a message, three Send calls with 0/1/5 ms"})
	ctx.Guard(ctx.GetInt("states") > 100, "product too small")
	ctx.Guard(ctx.NontrivialCount() > 100, "running status never elided")
	ctx.Finish("(a) BFS over sender-legal single-byte Sends (23 byte classes) on the product decoder-state x reference-receiver x sender automaton to the fixpoint; (b) message sequences up to depth 4 (thorough 6) over 18 messages x all legal running-status elisions, bytewise and single-chunk; depth <= 2: every partition into Send calls x time deltas {0,1,5} ms, one real-time byte at every position x every partition, two real-time bytes at every pair of positions; non-trivial = serialisations with at least one elided status byte")
}

func replay() {
	m := ctx.LoadReplay()
	if m["kind"] == "thru" || m["kind"] == "refused" || m["kind"] == "fractions" {
		thru()
		refused()
		fractions()
		ctx.Finish("replay")
	}
	if m["kind"] == "periodic" {
		replayPeriodic(m)
		ctx.Finish("replay")
	}
	if m["kind"] == "stream" {
		fmt.Println("product-search case: stream", m["stream"], "— replay with ./run C06 quick --replay is equivalent (same decoder, same reference)")
		return
	}
	var seq []ls.SMsg
	for _, n := range m["messages"].([]interface{}) {
		for _, a := range alphabet {
			if a.Name == n.(string) {
				seq = append(seq, a)
			}
		}
	}
	raw := engine.UnHex(m["wire"].(string))
	// rebuild the wire structure by matching elisions / inserted real-time bytes
	var chunks []int
	for _, c := range m["chunks"].([]interface{}) {
		chunks = append(chunks, int(c.(float64)))
	}
	var sleeps []int32
	for _, c := range m["sleeps_ms"].([]interface{}) {
		sleeps = append(sleeps, int32(c.(float64)))
	}
	for el := uint(0); el < 1<<uint(len(seq)); el++ {
		w := ls.Serialize(seq, el)
		if w == nil {
			continue
		}
		cands := [][]ls.WireByte{w}
		for p := 0; p <= len(w); p++ {
			for _, rt := range []byte{0xF8, 0xFE} {
				w1 := withRT(w, p, rt)
				cands = append(cands, w1)
				for q := p; q <= len(w1); q++ {
					cands = append(cands, withRT(w1, q, 0xFA))
				}
			}
		}
		for _, c := range cands {
			if len(c) != len(raw) {
				continue
			}
			same := true
			for i := range c {
				if c[i].B != raw[i] {
					same = false
				}
			}
			if same {
				play(seq, c, chunks, sleeps, "replay")
				ctx.Finish("replay")
			}
		}
	}
	fmt.Println("could not reconstruct the case")
}
