package main

import (
	"fmt"
	"time"

	"gitlab.com/gomidi/midi/v2/internal/verifh/engine"
	ls "gitlab.com/gomidi/midi/v2/internal/verifh/livespace"
)

// periodic: long sender-legal streams on one listener. Every pattern of one to
// three messages over eight kinds (two notes with the same status, program
// change, channel pressure, clock, active sensing, song position, a sysex of
// buffer size) is repeated up to 1800 messages (thorough 24000), with and
// without running status, sent in one piece and in chunks of seven bytes one
// millisecond apart. Whatever the decoder counts or fills while it runs passes
// every remainder this way; the bounded spaces stop at a handful of messages.
var periodicKinds = []string{"NoteOn0a", "NoteOn0b", "Prog0", "After0", "Clock", "ActiveSense", "SPP", "SysExFull"}

func periodicPatterns() [][]int {
	n := len(periodicKinds)
	var pats [][]int
	for a := 0; a < n; a++ {
		pats = append(pats, []int{a})
		for b := 0; b < n; b++ {
			pats = append(pats, []int{a, b})
			for c := 0; c < n; c++ {
				pats = append(pats, []int{a, b, c})
			}
		}
	}
	return pats
}

func periodicOne(pat []int, total int, elide bool, sevens bool, ins int) {
	var kinds []ls.SMsg
	for _, k := range periodicKinds {
		for _, a := range alphabet {
			if a.Name == k {
				kinds = append(kinds, a)
			}
		}
	}
	seq := make([]ls.SMsg, 0, total+3)
	for len(seq) < total {
		for _, p := range pat {
			seq = append(seq, kinds[p])
		}
	}
	wire := ls.SerializeLong(seq, elide)
	if ins > 0 {
		// a real-time byte after every ins-th byte (inside messages and sysex too)
		w2 := make([]ls.WireByte, 0, 2*len(wire))
		for i, w := range wire {
			w2 = append(w2, w)
			if i%ins == ins-1 {
				w2 = append(w2, ls.WireByte{B: []byte{0xF8, 0xFE, 0xFA}[ins%3], Msg: -1})
			}
		}
		wire = w2
	}
	raw := make([]byte, len(wire))
	for i, w := range wire {
		raw[i] = w.B
	}
	chunks := []int{len(raw)}
	if sevens {
		chunks = nil
		for left := len(raw); left > 0; left -= 7 {
			chunks = append(chunks, min(7, left))
		}
	}
	ctx.Eval()
	ctx.Add("periodic_streams", 1)
	o := ls.All(buf)
	l := ls.NewLoop(o)
	if l.Err != nil {
		ctx.Guard(false, "loopback: %v", l.Err)
		return
	}
	detail := func(what string) map[string]interface{} {
		return map[string]interface{}{"kind": "periodic", "pattern": pat, "messages": total, "running_status": elide, "chunks_of_seven": sevens, "realtime_every": ins, "what": what}
	}
	stamps := make([]int32, len(chunks))
	pos := 0
	for ci, n := range chunks {
		l.Drv.Sleep(time.Millisecond)
		stamps[ci] = int32(ci + 1)
		_, c := l.Send(raw[pos : pos+n])
		if c.Panicked {
			if ctx.SigCount(c.Sig+":periodic") < 5 {
				ctx.Violation(c.Sig+":periodic", detail(fmt.Sprintf("Send panicked at byte %d of %d: %s", pos, len(raw), c.Value)))
			}
			return
		}
		pos += n
	}
	want := ls.Expected(seq, wire, chunks, stamps)
	if was, now, yes := l.Overwritten(); yes {
		if ctx.SigCount("sent:retained-message-overwritten:periodic") < 5 {
			ctx.Violation("sent:retained-message-overwritten:periodic", detail(fmt.Sprintf("a message handed to the listener (% X) changed afterwards to % X", was, now)))
		}
		return
	}
	if d := ls.Match(l.Got, want); d != "" {
		at := 0
		for at < len(want) && at < len(l.Got) && string(l.Got[at].Msg) == string(want[at].Msg) && l.Got[at].TS >= want[at].TSLo && l.Got[at].TS <= want[at].TSHi {
			at++
		}
		lo := max(at-2, 0)
		if ctx.SigCount("sent:"+d+":periodic") < 5 {
			ctx.Violation("sent:"+d+":periodic", detail(fmt.Sprintf("%d messages delivered, %d sent; first difference at message %d: delivered [%s], sent [%s]",
				len(l.Got), len(want), at, ls.RenderDeliveries(l.Got[lo:min(at+3, len(l.Got))]), ls.RenderExpect(want[lo:min(at+3, len(want))]))))
		}
	}
}

func periodic(part, parts int) {
	total := ctx.Pick(1800, 24000)
	for pi, pat := range periodicPatterns() {
		if pi%parts != part {
			continue
		}
		for _, elide := range []bool{true, false} {
			for _, sevens := range []bool{false, true} {
				for _, ins := range []int{0, 3, 4, 5} {
					periodicOne(pat, total, elide, sevens, ins)
				}
			}
		}
	}
}

func replayPeriodic(m map[string]interface{}) {
	var pat []int
	for _, x := range m["pattern"].([]interface{}) {
		pat = append(pat, int(x.(float64)))
	}
	periodicOne(pat, int(m["messages"].(float64)), m["running_status"].(bool), m["chunks_of_seven"].(bool), int(m["realtime_every"].(float64)))
}

var _ = engine.Hex

// deepSpace: sequences of five and six messages (thorough seven) over six
// kinds, with and without running status, in one piece and bytewise (see the
// same family in C14: what the listener keeps from several messages ago).
var deepKinds = []string{"NoteOn0a", "NoteOn1", "CC0", "Prog0", "SysExMin", "Clock"}

func deepSpace(first int) {
	var kinds []ls.SMsg
	for _, k := range deepKinds {
		for _, a := range alphabet {
			if a.Name == k {
				kinds = append(kinds, a)
			}
		}
	}
	maxDepth := ctx.Pick(6, 7)
	seq := make([]ls.SMsg, maxDepth)
	var rec func(i, depth int)
	rec = func(i, depth int) {
		if i == depth {
			for _, elide := range []bool{false, true} {
				wire := ls.SerializeLong(seq[:depth], elide)
				play(append([]ls.SMsg(nil), seq[:depth]...), wire, []int{len(wire)}, []int32{2}, "deep")
				bw := make([]int, len(wire))
				sl := make([]int32, len(wire))
				for k := range bw {
					bw[k] = 1
					sl[k] = int32(k % 2)
				}
				play(append([]ls.SMsg(nil), seq[:depth]...), wire, bw, sl, "deep")
			}
			return
		}
		for _, m := range kinds {
			seq[i] = m
			rec(i+1, depth)
		}
	}
	for depth := 5; depth <= maxDepth; depth++ {
		seq[0] = kinds[first]
		rec(1, depth)
	}
}
