package main

import (
	"fmt"
	"time"

	"gitlab.com/gomidi/midi/v2"
	"gitlab.com/gomidi/midi/v2/drivers/testdrv"
	"gitlab.com/gomidi/midi/v2/internal/verifh/engine"
	ls "gitlab.com/gomidi/midi/v2/internal/verifh/livespace"
)

// thru: the listener answers some messages by sending another one on the same
// port pair from inside its call-back (a MIDI-thru or echo handler). The
// answer is on the wire at the moment it is sent: it arrives complete, right
// after the message that caused it, with that message's time stamp; later
// messages keep their own times.
func thru() {
	gaps := []int32{0, 1, 10}
	idx := make([]int, 3)
	rad := []int{len(gaps), len(gaps), len(gaps)}
	for {
		for variant := 0; variant < 5; variant++ {
			for _, viaSendTo := range []bool{false, true} {
				ctx.Eval()
				ctx.Add("thru_histories", 1)
				drv := testdrv.New("thru")
				ins, _ := drv.Ins()
				outs, _ := drv.Outs()
				// every history once with the port's own Send and once with the function
				// midi.SendTo hands out for it (used by the caller and by the call-back)
				out := &sender{port: outs[0]}
				if viaSendTo {
					f, serr := midi.SendTo(outs[0])
					if serr != nil {
						ctx.Guard(false, "thru: SendTo: %v", serr)
						return
					}
					out.fn = f
				}
				var got []ls.Delivered
				stop, err := midi.ListenTo(ins[0], func(m midi.Message, ts int32) {
					got = append(got, ls.Delivered{Msg: append([]byte(nil), m...), TS: ts})
					if len(m) == 3 && m[0]&0xF0 == 0x90 && m[1] < 64 {
						switch variant {
						case 0:
							out.Send([]byte{m[0], m[1] + 64, m[2]})
						case 1: // the answer uses running status and is followed by a real-time byte
							out.Send([]byte{0x80 | m[0]&0x0F, m[1] + 64, 0x00, m[1] + 65, 0x00, 0xFA})
						case 2: // the answer arrives in two pieces
							out.Send([]byte{m[0], m[1] + 64})
							out.Send([]byte{m[2]})
						case 3: // the answer is data bytes only: running status of the message being handled
							out.Send([]byte{m[1] + 64, m[2]})
						}
					}
					if variant == 4 && len(m) == 3 && m[0]&0xF0 == 0x90 && m[1] < 96 {
						// a chain: the answer is answered again, twice (keys k, k+32, k+64, k+96)
						out.Send([]byte{m[0], m[1] + 32, m[2]})
					}
				})
				if err != nil || outs[0].Open() != nil {
					ctx.Guard(false, "thru: cannot set up the loopback: %v", err)
					return
				}
				var want []ls.Delivered
				var acc int32
				var sl []int32
				var c engine.Caught
				hung := false
				for i := 0; i < 3 && !c.Panicked; i++ {
					d := gaps[idx[i]]
					sl = append(sl, d)
					acc += d
					drv.Sleep(time.Duration(d) * time.Millisecond)
					key := byte(10 + i)
					msg := []byte{0x90 + byte(i), key, 100}
					if i == 2 {
						msg = []byte{0xB0, 7, 99} // no answer for this one
					}
					want = append(want, ls.Delivered{Msg: msg, TS: acc})
					if i < 2 && variant == 4 {
						for step := byte(32); step <= 96; step += 32 {
							want = append(want, ls.Delivered{Msg: []byte{msg[0], key + step, 100}, TS: acc})
						}
					}
					if i < 2 {
						switch variant {
						case 0, 2, 3:
							want = append(want, ls.Delivered{Msg: []byte{msg[0], key + 64, 100}, TS: acc})
						case 1:
							want = append(want, ls.Delivered{Msg: []byte{0x80 | msg[0]&0x0F, key + 64, 0}, TS: acc},
								ls.Delivered{Msg: []byte{0x80 | msg[0]&0x0F, key + 65, 0}, TS: acc}, ls.Delivered{Msg: []byte{0xFA}, TS: acc})
						}
					}
					// (watched: a send function that waits for itself never comes back)
					done := make(chan engine.Caught, 1)
					go func() { done <- engine.Catch(func() { out.Send(msg) }) }()
					select {
					case c = <-done:
					case <-time.After(30 * time.Second):
						hung = true
					}
					if hung {
						break
					}
				}
				if hung {
					if ctx.SigCount("thru:hang") < 3 {
						ctx.Violation("thru:hang", map[string]interface{}{"kind": "thru", "gaps_ms": sl, "variant": variant, "via_send_to": viaSendTo,
							"what": "a Send whose listener sends on the same port from inside its call-back did not return within 30 s"})
					}
					return // every further history would wait as long
				}
				stop()
				sig, what := "", ""
				switch {
				case c.Panicked:
					sig, what = c.Sig+":thru", "Send panicked with a call-back that sends: "+c.Value
				case len(got) != len(want):
					sig, what = "thru:count", fmt.Sprintf("delivered [%s], expected [%s]", ls.RenderDeliveries(got), ls.RenderDeliveries(want))
				default:
					for i := range want {
						if string(got[i].Msg) != string(want[i].Msg) {
							sig, what = "thru:content", fmt.Sprintf("delivered [%s], expected [%s]", ls.RenderDeliveries(got), ls.RenderDeliveries(want))
							break
						}
						if got[i].TS != want[i].TS {
							sig, what = "thru:timestamp", fmt.Sprintf("delivered [%s], expected [%s]", ls.RenderDeliveries(got), ls.RenderDeliveries(want))
							break
						}
					}
				}
				if sig != "" && ctx.SigCount(sig) < 10 {
					ctx.Violation(sig, map[string]interface{}{"kind": "thru", "gaps_ms": sl, "variant": variant, "via_send_to": viaSendTo, "what": what})
				}
				ctx.NontrivialN(1)
			}
		}
		if !engine.Odometer(idx, rad) {
			break
		}
	}
}

// refused: histories of sleeping, sending, closing and re-opening the out port
// while a listener is active. A Send that is refused (port closed) delivers
// nothing and changes nothing: every delivered message carries the time that
// has passed since the listener started.
func refused() {
	const nOps = 5 // 0 sleep 5 ms, 1 sleep 10 ms, 2 send, 3 close out, 4 open out
	maxLen := ctx.Pick(6, 7)
	path := make([]int, 0, maxLen)
	var rec func()
	run := func() {
		ctx.Eval()
		ctx.Add("refused_send_histories", 1)
		drv := testdrv.New("refused")
		ins, _ := drv.Ins()
		outs, _ := drv.Outs()
		out := outs[0]
		var got []ls.Delivered
		stop, err := midi.ListenTo(ins[0], func(m midi.Message, ts int32) {
			got = append(got, ls.Delivered{Msg: append([]byte(nil), m...), TS: ts})
		})
		if err != nil {
			ctx.Guard(false, "refused: ListenTo: %v", err)
			return
		}
		open := false
		var acc int32
		var want []ls.Delivered
		sig, what := "", ""
		for i, op := range path {
			switch op {
			case 0, 1:
				d := int32(5 + 5*op)
				acc += d
				drv.Sleep(time.Duration(d) * time.Millisecond)
			case 2:
				msg := []byte{0x90, byte(i), 1}
				e := out.Send(msg)
				if open {
					want = append(want, ls.Delivered{Msg: msg, TS: acc})
				}
				if (e == nil) != open {
					sig, what = "refused:send-error", fmt.Sprintf("Send with the out port open=%v returned %v", open, e)
				}
			case 3:
				out.Close()
				open = false
			case 4:
				out.Open()
				open = true
			}
		}
		stop()
		if sig == "" && ls.RenderDeliveries(got) != ls.RenderDeliveries(want) {
			sig, what = "refused:deliveries", fmt.Sprintf("delivered [%s], expected [%s]", ls.RenderDeliveries(got), ls.RenderDeliveries(want))
		}
		if sig != "" && ctx.SigCount(sig) < 10 {
			ctx.Violation(sig, map[string]interface{}{"kind": "refused", "ops": append([]int(nil), path...), "legend": "0 sleep 5 ms, 1 sleep 10 ms, 2 send, 3 close out, 4 open out", "what": what})
		}
		if len(want) > 1 {
			ctx.NontrivialN(1)
		}
	}
	rec = func() {
		if len(path) > 0 && path[len(path)-1] == 2 {
			run() // histories that end in a Send
		}
		if len(path) == maxLen {
			return
		}
		for op := 0; op < nOps; op++ {
			path = append(path, op)
			rec()
			path = path[:len(path)-1]
		}
	}
	rec()
}

// fractions: many waits that are not whole milliseconds between two Sends. The
// driver's clock counts milliseconds; whatever it does with the fractions, a
// time stamp is never further from the time that really passed than one
// millisecond per Send so far (each Send may drop its own fraction).
func fractions() {
	for _, step := range []time.Duration{250 * time.Microsecond, 600 * time.Microsecond, 999 * time.Microsecond, 1500 * time.Microsecond, 20833 * time.Microsecond} {
		for _, perGap := range []int{1, 4, 40} {
			ctx.Eval()
			ctx.Add("fraction_histories", 1)
			l := ls.NewLoop(ls.All(buf))
			var elapsed time.Duration
			bad := ""
			for i := 0; i < 6 && bad == ""; i++ {
				for k := 0; k < perGap; k++ {
					l.Drv.Sleep(step)
					elapsed += step
				}
				l.Send([]byte{0x90, byte(i), 1})
				got := l.Take()
				if len(got) != 1 {
					bad = fmt.Sprintf("send %d: %d deliveries", i, len(got))
					break
				}
				trueMs := float64(elapsed) / float64(time.Millisecond)
				if d := trueMs - float64(got[0].TS); d < -0.001 || d > float64(i+1)+0.001 {
					bad = fmt.Sprintf("after %d waits of %v and %d Sends, %.3f ms have passed but the time stamp is %d", (i+1)*perGap, step, i+1, trueMs, got[0].TS)
				}
			}
			if bad != "" && ctx.SigCount("sent:timestamp:fractional-waits") < 10 {
				ctx.Violation("sent:timestamp:fractional-waits", map[string]interface{}{"kind": "fractions", "step_us": step.Microseconds(), "waits_per_gap": perGap, "what": bad})
			}
			ctx.NontrivialN(1)
		}
	}
}

// sender sends through the port itself or through the function midi.SendTo
// returned for it.
type sender struct {
	port interface{ Send([]byte) error }
	fn   func(midi.Message) error
}

func (s *sender) Send(b []byte) error {
	if s.fn != nil {
		return s.fn(midi.Message(b))
	}
	return s.port.Send(b)
}
