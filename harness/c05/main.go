// C05 — reading malformed or truncated SMF data fails cleanly and never fabricates.
//
// Exhaustive spaces: (1) all short byte strings over a 16-byte alphabet as
// track body and as whole file; (2) every value of every header field;
// declared vs actual track counts; (3) all single-byte substitutions of
// representative valid files (and pairs over the alphabet on the smallest);
// (4) every truncation point of every file of a generated family. Checked: the
// call returns, no panic, (value,nil) or (nil,err), allocation proportional to
// the input, and for truncations: error or event-for-event prefixes.
package main

import (
	"bytes"
	"fmt"
	"io"
	"runtime"
	"runtime/debug"
	"runtime/metrics"
	"strings"

	"gitlab.com/gomidi/midi/v2/internal/verifh/engine"
	"gitlab.com/gomidi/midi/v2/internal/verifh/faultio"
	"gitlab.com/gomidi/midi/v2/internal/verifh/refsmf"
	"gitlab.com/gomidi/midi/v2/internal/verifh/smfgen"
	sp "gitlab.com/gomidi/midi/v2/internal/verifh/smfspace"
	"gitlab.com/gomidi/midi/v2/smf"
)

var ctx *engine.Ctx

var alphabet = []byte{0x00, 0x01, 0x03, 0x2F, 0x40, 0x51, 0x7F, 0x80, 0x81, 0x90, 0xC0, 0xF0, 0xF1, 0xF7, 0xF8, 0xFF}

// budgetReader fails the case (not the process) if the library asks for more
// reads than any terminating parse of the input could need.
type budgetReader struct {
	r      io.Reader
	budget int
}

type hang struct{}

func (b *budgetReader) Read(p []byte) (int, error) {
	b.budget--
	if b.budget < 0 {
		panic(hang{})
	}
	return b.r.Read(p)
}

var allocSample = []metrics.Sample{{Name: "/gc/heap/allocs:bytes"}}

func allocated() uint64 {
	metrics.Read(allocSample)
	return allocSample[0].Value.Uint64()
}

type outcome struct {
	val   *smf.SMF
	err   error
	c     engine.Caught
	hung  bool
	alloc uint64
}

func read(data []byte) (o outcome) {
	var src io.Reader = bytes.NewReader(data)
	switch readerKind {
	case 1:
		src = &faultio.FragReader{Data: data, MaxPerCall: 1}
	case 2:
		src = &faultio.FragReader{Data: data, ZeroEvery: true}
	case 3:
		src = &faultio.FragReader{Data: data, EOFWithData: true}
	}
	br := &budgetReader{r: src, budget: 8*len(data) + 64}
	a0 := allocated()
	o.c = engine.Catch(func() {
		defer func() {
			if r := recover(); r != nil {
				if _, ok := r.(hang); ok {
					o.hung = true
					return
				}
				panic(r)
			}
		}()
		o.val, o.err = smf.ReadFrom(br)
	})
	o.alloc = allocated() - a0
	return
}

// readerKind selects the source read() hands to the library: 0 memory, 1 one
// byte per call, 2 every other call answers (0, nil), 3 the last bytes come
// together with io.EOF. What a prefix may yield does not depend on it.
var readerKind int

var readerNames = []string{"memory", "one-byte-per-call", "zero-byte-reads", "eof-with-data"}

func allocBound(n int) uint64 { return 64*1024 + 256*uint64(n) }

// exactAlloc re-measures with MemStats (exact) to confirm a suspicious case.
func exactAlloc(data []byte) uint64 {
	var m0, m1 runtime.MemStats
	runtime.GC()
	runtime.ReadMemStats(&m0)
	engine.Catch(func() { smf.ReadFrom(bytes.NewReader(data)) })
	runtime.ReadMemStats(&m1)
	return m1.TotalAlloc - m0.TotalAlloc
}

// basic checks every case; returns the outcome for further checks.
func basic(data []byte, space, feature string) outcome {
	ctx.Eval()
	o := read(data)
	report := func(sig, what string) {
		if ctx.SigCount(sig) < 20 {
			ctx.Violation(sig, map[string]interface{}{"kind": "bytes", "input": engine.Hex(data), "space": space, "what": what})
		}
	}
	switch {
	case o.hung:
		report("hang:"+feature, "ReadFrom keeps reading after the input is exhausted")
	case o.c.Panicked:
		report(o.c.Sig, "ReadFrom panicked: "+o.c.Value)
	case o.val == nil && o.err == nil:
		report("result:nil-nil", "ReadFrom returned neither a value nor an error")
	case o.val != nil && o.err != nil:
		report("result:value-and-error", "ReadFrom returned both a value and an error: "+o.err.Error())
	}
	if o.alloc > allocBound(len(data)) {
		if ex := exactAlloc(data); ex > allocBound(len(data)) {
			report("alloc:"+allocKind(data), fmt.Sprintf("ReadFrom allocated %d bytes for %d bytes of input", ex, len(data)))
		}
	}
	if o.err != nil {
		ctx.Add("rejected", 1)
	} else if o.val != nil {
		ctx.Add("accepted", 1)
	}
	return o
}

// allocKind names the kind of declared length that precedes the end of input.
func allocKind(data []byte) string {
	if len(data) < 22 {
		return "declared-length"
	}
	body := data[22:]
	for i := 0; i+1 < len(body); i++ {
		switch body[i] {
		case 0xFF:
			return "meta-length"
		case 0xF0, 0xF7:
			return "sysex-length"
		}
	}
	return "declared-length"
}

func hdr(format, ntrks, div uint16) []byte { return refsmf.Header(format, ntrks, div) }

// --- space 1: short strings ---------------------------------------------------

func strings1(first int, maxLen int) {
	// as track body (exact chunk length), first byte fixed by the shard
	buf := make([]byte, maxLen)
	var rec func(n, l int)
	h := hdr(0, 1, 96)
	rec = func(n, l int) {
		if n == l {
			file := append(append([]byte{}, h...), refsmf.Chunk("MTrk", buf[:l])...)
			basic(file, "track-body", "track-body")
			return
		}
		for _, b := range alphabet {
			buf[n] = b
			rec(n+1, l)
		}
	}
	for l := 1; l <= maxLen; l++ {
		buf[0] = alphabet[first]
		rec(1, l)
	}
	if first == 0 {
		file := append(append([]byte{}, h...), refsmf.Chunk("MTrk", nil)...)
		basic(file, "track-body", "track-body")
	}
}

func strings2(first int, maxLen int) {
	al := append(append([]byte{}, alphabet...), 'M', 'T', 'r', 'k', 'h', 'd', 0x06)
	buf := make([]byte, maxLen)
	var rec func(n, l int)
	rec = func(n, l int) {
		if n == l {
			basic(append([]byte{}, buf[:l]...), "whole-file", "whole-file")
			// and after a valid magic, as header content
			basic(append([]byte("MThd"), buf[:l]...), "after-magic", "after-magic")
			return
		}
		for _, b := range al {
			buf[n] = b
			rec(n+1, l)
		}
	}
	if first >= len(al) {
		return
	}
	for l := 1; l <= maxLen; l++ {
		buf[0] = al[first]
		rec(1, l)
	}
	if first == 0 {
		basic(nil, "whole-file", "whole-file")
	}
}

// --- space 2: header fields -----------------------------------------------------

func headerFields(part, parts int) {
	trk := refsmf.Chunk("MTrk", []byte{0x00, 0x90, 0x3C, 0x40, 0x00, 0xFF, 0x2F, 0x00})
	for v := part; v < 65536; v += parts {
		for field := 0; field < 4; field++ {
			var h []byte
			switch field {
			case 0:
				h = hdr(uint16(v), 1, 96)
			case 1:
				h = hdr(1, uint16(v), 96)
				if v > 3 {
					// with one track present: missing tracks; keep files small
				}
			case 2:
				h = hdr(0, 1, uint16(v))
			case 3:
				// header length field (low 16 bits)
				h = hdr(0, 1, 96)
				h[6], h[7] = byte(v>>8), byte(v)
			}
			o := basic(append(append([]byte{}, h...), trk...), "header-field", "header-field")
			if field == 2 && o.err == nil && o.val != nil && v >= 1 {
				// every division value: the file is valid (SMPTE rates other than the
				// four standard ones are merely unusual) and must decode to its content
				if len(o.val.Tracks) != 1 || len(o.val.Tracks[0]) != 2 {
					if ctx.SigCount("header:division-content") < 5 {
						ctx.Violation("header:division-content", map[string]interface{}{"kind": "bytes", "input": engine.Hex(append(h, trk...)), "what": "track content lost for a division value"})
					}
				}
			}
		}
	}
	if part == 0 {
		// declared track counts x actual chunks
		for _, decl := range []int{0, 1, 2, 3, 32767, 32768, 65535} {
			for actual := 0; actual <= 3; actual++ {
				for _, f := range []uint16{0, 1, 2} {
					file := hdr(f, uint16(decl), 96)
					for i := 0; i < actual; i++ {
						file = append(file, trk...)
					}
					o := basic(file, "track-count", "track-count")
					if o.err == nil && o.val != nil && actual < decl {
						// fewer chunks than declared: only tolerated if the data ends inside the last track
						if len(o.val.Tracks) > 0 && actual == 0 {
							// nothing read at all but accepted
							if ctx.SigCount("track-count:accepted-without-tracks") < 5 {
								ctx.Violation("track-count:accepted-without-tracks", map[string]interface{}{"kind": "bytes", "input": engine.Hex(file), "what": "file without any track chunk accepted"})
							}
						}
					}
				}
			}
		}
		// huge declared lengths in every length-carrying position (a few explicit cases)
		// (and quantities of five and more bytes, which no writer produces: the
		// values around 2^31, 2^32 and 2^35, 2^63, a padded small one)
		overlong := [][]byte{{0x8F, 0xFF, 0xFF, 0xFF, 0x7F}, {0x8F, 0xFF, 0xFF, 0xFF, 0x7E}, {0x88, 0x80, 0x80, 0x80, 0x00}, {0x87, 0xFF, 0xFF, 0xFF, 0x7F},
			{0x81, 0x80, 0x80, 0x80, 0x00}, {0x90, 0x80, 0x80, 0x80, 0x00}, {0x90, 0x80, 0x80, 0x80, 0x01}, {0xFF, 0xFF, 0xFF, 0xFF, 0x7F},
			{0x81, 0x80, 0x80, 0x80, 0x80, 0x00}, {0x80, 0x80, 0x80, 0x80, 0x05}, {0xFF, 0xFF, 0xFF, 0xFF, 0xFF, 0xFF, 0xFF, 0xFF, 0x7F},
			{0x81, 0x80, 0x80, 0x80, 0x80, 0x80, 0x80, 0x80, 0x80, 0x00}, {0x82, 0x80, 0x80, 0x80, 0x80, 0x80, 0x80, 0x80, 0x80, 0x01}}
		for _, ln := range overlong {
			// as a delta time in front of every kind of event
			for _, ev := range [][]byte{{0x90, 0x40, 0x40}, {0xC0, 0x05}, {0xFF, 0x01, 0x01, 0x41}, {0xF0, 0x01, 0xF7}, {0xFF, 0x2F, 0x00}} {
				b := append(append([]byte{}, ln...), ev...)
				b = append(b, 0x00, 0xFF, 0x2F, 0x00)
				basic(append(hdr(0, 1, 96), refsmf.Chunk("MTrk", b)...), "declared-length", "overlong-delta")
			}
		}
		for _, ln := range append([][]byte{{0xFF, 0x7F}, {0xFF, 0xFF, 0x7F}, {0xFF, 0xFF, 0xFF, 0x7F}, {0x81, 0x80, 0x80, 0x00}}, overlong...) {
			for _, lead := range [][]byte{{0xFF, 0x01}, {0xF0}, {0xF7}, {0xFF, 0x7F}, {0xFF, 0x51}} {
				body := append([]byte{0x00}, lead...)
				body = append(body, ln...)
				for _, tail := range [][]byte{nil, {0x41}, {0x41, 0x00, 0xFF, 0x2F, 0x00}, make([]byte, 4095), make([]byte, 4096), make([]byte, 5000), make([]byte, 9000)} {
					b := append(append([]byte{}, body...), tail...)
					basic(append(hdr(0, 1, 96), refsmf.Chunk("MTrk", b)...), "declared-length", "declared-length")
				}
			}
		}
		// both at once: a track chunk that declares a huge length and, inside it,
		// an event that declares a huge length too (a few bytes actually present)
		for _, cl := range []uint32{0x00100000, 0x02000000, 0x7FFFFFFF, 0xFFFFFFFF} {
			for _, l := range []uint32{0x000FFFFF, 0x00100000, 0x01FFFFFF, 0x02000000, 0x0FFFFFFF} {
				for _, pre := range [][]byte{{0x00, 0xFF, 0x01}, {0x00, 0xF0}, {0x00, 0xF7}, {0x00, 0xFF, 0x7F}, {0x00, 0xFF, 0x51}} {
					for _, tail := range []int{0, 3} {
						b := append(append([]byte{}, pre...), refsmf.VLQ(l)...)
						b = append(b, make([]byte, tail)...)
						data := append(hdr(0, 1, 96), 'M', 'T', 'r', 'k', byte(cl>>24), byte(cl>>16), byte(cl>>8), byte(cl))
						basic(append(data, b...), "declared-length", "declared-length")
					}
				}
			}
		}
		// chunk lengths: huge track length, huge alien length
		for _, typ := range []string{"MTrk", "XXXX"} {
			for _, l := range []uint32{0x7FFFFFFF, 0xFFFFFFFF, 0x10000000} {
				c := []byte(typ)
				c = append(c, byte(l>>24), byte(l>>16), byte(l>>8), byte(l))
				c = append(c, 0x00, 0xFF, 0x2F, 0x00)
				basic(append(hdr(0, 1, 96), c...), "chunk-length", "chunk-length")
			}
		}
	}
}

// --- space 3: substitutions -----------------------------------------------------

func representatives() [][]byte {
	var out [][]byte
	toks := smfgen.Tokens()
	dls := smfgen.Deltas()
	base := smfgen.BaseShape()
	// one file per token (with a second plain token after it), plus shaped files
	for i := range toks {
		if len(toks[i].Raw) > 60 {
			continue // keep mutation targets small; long payloads are covered by truncation
		}
		seq := []smfgen.Timed{{T: &toks[0], D: &dls[0]}, {T: &toks[i], D: &dls[1]}, {T: &toks[2], D: &dls[0]}}
		body, evs, ok := smfgen.Track(seq, &dls[0])
		if !ok {
			continue
		}
		f, _ := smfgen.File(base, body, evs)
		out = append(out, f)
	}
	shapes := smfgen.Shapes(false)
	for i := 0; i < len(shapes); i += 17 {
		seq := []smfgen.Timed{{T: &toks[0], D: &dls[0]}, {T: &toks[1], D: &dls[0]}}
		body, evs, _ := smfgen.Track(seq, &dls[0])
		f, _ := smfgen.File(shapes[i], body, evs)
		out = append(out, f)
	}
	return out
}

func substitutions(part, parts int) {
	reps := representatives()
	if part == 0 {
		ctx.Add("representative_files", int64(len(reps)))
	}
	n := 0
	for _, f := range reps {
		for off := range f {
			if n%parts == part {
				orig := f[off]
				for v := 0; v < 256; v++ {
					if byte(v) == orig {
						continue
					}
					f[off] = byte(v)
					basic(f, "substitution", "substitution")
				}
				f[off] = orig
			}
			n++
		}
	}
	// pairs of substitutions over the alphabet on the five smallest
	small := append([][]byte{}, reps...)
	for i := 1; i < len(small); i++ {
		for j := i; j > 0 && len(small[j]) < len(small[j-1]); j-- {
			small[j], small[j-1] = small[j-1], small[j]
		}
	}
	if len(small) > 5 {
		small = small[:5]
	}
	for _, f := range small {
		for o1 := 14; o1 < len(f); o1++ {
			if n%parts == part {
				for o2 := o1 + 1; o2 < len(f); o2++ {
					a, b := f[o1], f[o2]
					for _, v1 := range alphabet {
						for _, v2 := range alphabet {
							f[o1], f[o2] = v1, v2
							basic(f, "double-substitution", "double-substitution")
						}
					}
					f[o1], f[o2] = a, b
				}
			}
			n++
		}
	}
}

// --- space 4: truncations -------------------------------------------------------

func region(file []byte, p int, exp *refsmf.File) string {
	// classify where the cut lands, by decoding the full file with positions
	if p < 8 {
		return "magic-or-header-length"
	}
	if p < 14 {
		return "header-field"
	}
	return "chunk"
}

func isPrefix(full, part []refsmf.Event) bool {
	if len(part) > len(full) {
		return false
	}
	for i := range part {
		if part[i].Delta != full[i].Delta || !bytes.Equal(part[i].Msg, full[i].Msg) {
			return false
		}
	}
	return true
}

func truncations(file []byte, exp *refsmf.File, label string) {
	for k := range readerNames {
		readerKind = k
		truncationsKind(file, exp, label)
	}
	readerKind = 0
}

func truncationsKind(file []byte, exp *refsmf.File, label string) {
	for p := 0; p < len(file); p++ {
		pre := file[:p]
		o := basic(pre, "truncation", "truncation")
		if o.val == nil || o.err != nil {
			continue
		}
		ctx.NontrivialN(1) // an accepted proper prefix: the interesting case
		bad := ""
		switch {
		case o.val.Format() != exp.Format:
			bad = "format"
		case o.val.TimeFormat == nil || sp.Division(o.val.TimeFormat) != exp.Division:
			bad = "division"
		case len(o.val.Tracks) > len(exp.Tracks):
			bad = "extra-track"
		default:
			for i, t := range o.val.Tracks {
				if !isPrefix(exp.Tracks[i], sp.FromTrack(t)) {
					bad = "track-not-a-prefix:" + cutKind(exp.Tracks[i], sp.FromTrack(t))
					break
				}
			}
		}
		if bad != "" {
			sig := "prefix:" + bad
			if readerKind != 0 {
				sig += ":reader=" + readerNames[readerKind]
			}
			if ctx.SigCount(sig) < 20 {
				var got []string
				for _, t := range o.val.Tracks {
					got = append(got, renderEvents(sp.FromTrack(t)))
				}
				ctx.Violation(sig, map[string]interface{}{"kind": "truncation", "file": engine.Hex(file), "cut": p, "family": label, "reader": readerNames[readerKind],
					"what": "accepted prefix is not an event-for-event prefix of the original", "got_tracks": got})
			}
		}
	}
}

// cutKind names the kind of the first event that is not the original's.
func cutKind(full, part []refsmf.Event) string {
	for i := range part {
		if i >= len(full) {
			return "extra-event"
		}
		if part[i].Delta != full[i].Delta {
			return "delta"
		}
		if !bytes.Equal(part[i].Msg, full[i].Msg) {
			if len(part[i].Msg) == 0 {
				return "empty-message-for-" + refsmf.Kind(full[i].Msg)
			}
			return refsmf.Kind(full[i].Msg)
		}
	}
	return "?"
}

func renderEvents(evs []refsmf.Event) string {
	s := ""
	for i, e := range evs {
		if i > 0 {
			s += " | "
		}
		m := e.Msg
		if len(m) > 10 {
			m = m[:10]
		}
		s += fmt.Sprintf("%d:%s", e.Delta, engine.Hex(m))
	}
	return s
}

func truncationFamily(first int) {
	toks := smfgen.Tokens()
	dls := smfgen.Deltas()
	var al []smfgen.Timed
	for d := range dls[:4] {
		for t := range toks {
			al = append(al, smfgen.Timed{T: &toks[t], D: &dls[d]})
		}
	}
	if first >= len(al) {
		return
	}
	shapes := smfgen.Shapes(false)
	base := smfgen.BaseShape()
	one := func(seq []smfgen.Timed, shs []smfgen.Shape) {
		body, evs, ok := smfgen.Track(seq, &dls[1])
		if !ok {
			return
		}
		for _, sh := range shs {
			f, exp := smfgen.File(sh, body, evs)
			ctx.Add("files_truncated_everywhere", 1)
			truncations(f, exp, sh.Name)
		}
	}
	// depth 1 in every shape (every 3rd shape in quick)
	step := ctx.Pick(3, 1)
	var shs []smfgen.Shape
	for i := first % step; i < len(shapes); i += step {
		shs = append(shs, shapes[i])
	}
	one([]smfgen.Timed{al[first]}, shs)
	// depth 2 in the plain file
	for k := range al {
		if len(al[first].T.Raw)+len(al[k].T.Raw) > 150 && !ctx.Thorough() {
			continue
		}
		one([]smfgen.Timed{al[first], al[k]}, []smfgen.Shape{base})
	}
}

// deepInputs: inputs made of very many small units (unknown chunks, empty
// tracks, tiny events), read with the goroutine stack limited to 16 MiB: any
// recursion whose depth grows with the input overflows the stack, which is a
// fatal error of the worker process (reported as fatal:...:stack-overflow).
func deepInputs() {
	debug.SetMaxStack(16 << 20)
	// growth first: the three kinds of input at a few thousand elements, with
	// the allocation bound of the property. A reader whose cost grows with the
	// square of the input is reported here, in seconds, and the inputs of
	// hundreds of thousands of elements (hours, then) are not tried.
	{
		mk := map[string]func(n int) []byte{
			"unknown-chunks": func(n int) []byte {
				b := hdr(1, 1, 96)
				for i := 0; i < n; i++ {
					b = append(b, refsmf.Chunk("XXXX", nil)...)
				}
				return append(b, refsmf.Chunk("MTrk", []byte{0x00, 0xFF, 0x2F, 0x00})...)
			},
			"events": func(n int) []byte {
				var body []byte
				for i := 0; i < n; i++ {
					body = append(body, 0x00, 0x90, 0x3C, 0x40, 0x00, 0xFF, 0x01, 0x00)
				}
				body = append(body, 0x00, 0xFF, 0x2F, 0x00)
				return append(hdr(0, 1, 96), refsmf.Chunk("MTrk", body)...)
			},
			"tracks": func(n int) []byte {
				b := hdr(1, uint16(n), 96)
				for i := 0; i < n; i++ {
					b = append(b, refsmf.Chunk("MTrk", []byte{0x00, 0xFF, 0x2F, 0x00})...)
				}
				return b
			},
		}
		for _, kind := range []string{"unknown-chunks", "events", "tracks"} {
			for _, n := range []int{1000, 4000, 8000} {
				data := mk[kind](n)
				o := read(data)
				ctx.Eval()
				if o.alloc > allocBound(len(data)) {
					if ex := exactAlloc(data); ex > allocBound(len(data)) {
						report2("alloc:growth:"+kind, fmt.Sprintf("%d %s (%d bytes of input): ReadFrom allocated %d bytes (the bound of 64 KiB + 256 per input byte is %d)", n, kind, len(data), ex, allocBound(len(data))))
						return
					}
				}
			}
		}
	}
	const n = 400000
	alien := refsmf.Chunk("XXXX", nil)
	var many []byte
	many = append(many, hdr(1, 1, 96)...)
	for i := 0; i < n; i++ {
		many = append(many, alien...)
	}
	many = append(many, refsmf.Chunk("MTrk", []byte{0x00, 0xFF, 0x2F, 0x00})...)
	o := read(many)
	ctx.Eval()
	if o.c.Panicked || o.err != nil {
		report2("deep:alien-chunks", fmt.Sprintf("%d empty unknown chunks before the track: %v %s", n, o.err, o.c.Value))
	}
	// many events, many meta events, many tracks
	var body []byte
	for i := 0; i < n; i++ {
		body = append(body, 0x00, 0x90, 0x3C, 0x40, 0x00, 0xFF, 0x01, 0x00)
	}
	body = append(body, 0x00, 0xFF, 0x2F, 0x00)
	ev := append(hdr(0, 1, 96), refsmf.Chunk("MTrk", body)...)
	o = read(ev)
	ctx.Eval()
	if o.c.Panicked || o.err != nil {
		report2("deep:events", fmt.Sprintf("%d events in one track: %v %s", 2*n, o.err, o.c.Value))
	}
	tr := hdr(1, 65535, 96)
	for i := 0; i < 65535; i++ {
		tr = append(tr, refsmf.Chunk("MTrk", []byte{0x00, 0xFF, 0x2F, 0x00})...)
	}
	o = read(tr)
	ctx.Eval()
	if o.c.Panicked || o.err != nil {
		report2("deep:tracks", fmt.Sprintf("65535 tracks: %v %s", o.err, o.c.Value))
	}
	ctx.Add("deep_inputs", 3)
}

// amplification: valid inputs of moderate size whose cost could grow faster
// than their length: thousands of events of one kind spread over two tracks
// with interleaved ticks (whatever the reader collects per kind - tempo
// changes, signatures - arrives out of order), and track counts around 65536
// under headers that declare none, fewer or exactly that many.
func amplification() {
	judge := func(name string, data []byte) {
		if ctx.ViolationCount() > 0 {
			return // the inputs grow: what a smaller one has shown, a larger one shows at greater cost
		}
		ctx.Eval()
		ctx.Add("amplification_inputs", 1)
		o := read(data)
		sig, what := "", ""
		switch {
		case o.hung:
			sig, what = "hang:amplification:"+name, "ReadFrom keeps reading after the input is exhausted"
		case o.c.Panicked:
			sig, what = o.c.Sig+":amplification:"+name, "ReadFrom panicked: "+o.c.Value
		case o.val == nil && o.err == nil:
			sig, what = "result:nil-nil:amplification", "neither value nor error"
		case o.alloc > allocBound(len(data)):
			if ex := exactAlloc(data); ex > allocBound(len(data)) {
				sig, what = "alloc:amplification:"+name, fmt.Sprintf("ReadFrom allocated %d bytes for %d bytes of input (%d per byte)", ex, len(data), ex/uint64(len(data)))
			}
		}
		if sig != "" {
			ctx.Violation(sig, map[string]interface{}{"kind": "amplification", "input_name": name, "input_len": len(data), "what": what})
		}
		ctx.NontrivialN(1)
	}
	kinds := []struct {
		name string
		ev   func(i int) []byte
	}{
		{"tempo", func(i int) []byte { return []byte{0xFF, 0x51, 0x03, 0x07, byte(i >> 7 & 0x7F), byte(i & 0x7F)} }},
		{"time-signature", func(i int) []byte { return []byte{0xFF, 0x58, 0x04, byte(1 + i%12), 2, 24, 8} }},
		{"key-signature", func(i int) []byte { return []byte{0xFF, 0x59, 0x02, byte(i % 7), byte(i % 2)} }},
		{"text", func(i int) []byte { return []byte{0xFF, 0x01, 0x01, byte('a' + i%26)} }},
		{"sysex", func(i int) []byte { return []byte{0xF0, 0x02, byte(i % 128), 0xF7} }},
		{"program-change", func(i int) []byte { return []byte{0xC0 + byte(i%16), byte(i % 128)} }},
	}
	for _, k := range kinds {
		for _, n := range []int{2000, 8000} {
			var t0, t1 []byte
			for i := 0; i < n; i++ {
				t0 = append(append(t0, 0x02), k.ev(i)...)   // ticks 2, 4, 6 ...
				t1 = append(append(t1, 0x02), k.ev(i+1)...) // the same ticks again, in the next track
			}
			t0 = append(t0, 0x00, 0xFF, 0x2F, 0x00)
			t1 = append([]byte{0x01}, t1[1:]...) // ... shifted by one: 1, 3, 5 ...
			t1 = append(t1, 0x00, 0xFF, 0x2F, 0x00)
			data := append(append(hdr(1, 2, 96), refsmf.Chunk("MTrk", t0)...), refsmf.Chunk("MTrk", t1)...)
			judge(fmt.Sprintf("%s-x%d-in-two-tracks", k.name, n), data)
		}
	}
	// one long track next to many short ones (memory that is the product of
	// the longest track and the number of tracks)
	for _, n := range []int{1000, 6000} {
		for _, m := range []int{500, 2500} {
			var long []byte
			for i := 0; i < n; i++ {
				long = append(long, 0x01, 0xC0+byte(i%16), byte(i%128))
			}
			long = append(long, 0x00, 0xFF, 0x2F, 0x00)
			short := refsmf.Chunk("MTrk", []byte{0x00, 0xC1, 0x05, 0x00, 0xFF, 0x2F, 0x00})
			for _, where := range []string{"first", "middle", "last"} {
				data := hdr(1, uint16(m+1), 96)
				for i := 0; i <= m; i++ {
					if (where == "first" && i == 0) || (where == "middle" && i == m/2) || (where == "last" && i == m) {
						data = append(data, refsmf.Chunk("MTrk", long)...)
					}
					if i < m {
						data = append(data, short...)
					}
				}
				judge(fmt.Sprintf("track-of-%d-events-%s-among-%d-short-tracks", n, where, m), data)
			}
		}
	}
	trk := refsmf.Chunk("MTrk", []byte{0x00, 0xFF, 0x2F, 0x00})
	for _, declared := range []uint16{0, 1, 65535} {
		for _, chunks := range []int{65535, 65536, 65537, 70000} {
			data := hdr(1, declared, 96)
			for i := 0; i < chunks; i++ {
				data = append(data, trk...)
			}
			judge(fmt.Sprintf("%d-track-chunks-under-a-header-declaring-%d", chunks, declared), data)
		}
	}
}

// poisonPairs: a file that fails inside a long payload, and straight after it
// a valid file with long payloads of its own (buffers that are kept between
// calls and come back unclean from an error path). Every cut point in steps
// through three long payloads; the valid file must read as the reference
// parser reads it.
func poisonPairs() {
	pay := func(n int, seed byte) []byte {
		b := make([]byte, n)
		for i := range b {
			b[i] = (seed + byte(i*7)) & 0x7F
		}
		return b
	}
	mk := func(seed byte) []byte {
		var body []byte
		body = append(body, 0x00, 0xF0)
		body = append(body, refsmf.VLQ(5001)...)
		body = append(append(body, pay(5000, seed)...), 0xF7)
		body = append(body, 0x00, 0xFF, 0x01)
		body = append(body, refsmf.VLQ(9000)...)
		body = append(body, pay(9000, seed+1)...)
		body = append(body, 0x00, 0xFF, 0x7F)
		body = append(body, refsmf.VLQ(4097)...)
		body = append(body, pay(4097, seed+2)...)
		body = append(body, 0x00, 0x90, 0x40, 0x7F, 0x00, 0xFF, 0x2F, 0x00)
		return append(hdr(0, 1, 96), refsmf.Chunk("MTrk", body)...)
	}
	good, bad := mk(3), mk(0x55)
	exp, err := refsmf.Parse(good, refsmf.Strict)
	ctx.Guard(err == nil, "poison-pair file is not valid: %v", err)
	if err != nil {
		return
	}
	var sb strings.Builder
	for _, t := range exp.Tracks {
		for _, e := range t {
			fmt.Fprintf(&sb, "%d:%X ", e.Delta, e.Msg)
		}
	}
	want := sb.String()
	readGood := func() string {
		s, err := smf.ReadFrom(bytes.NewReader(good))
		if err != nil {
			return "error: " + err.Error()
		}
		var sb strings.Builder
		for _, t := range s.Tracks {
			for _, e := range sp.FromTrack(t) {
				fmt.Fprintf(&sb, "%d:%X ", e.Delta, e.Msg)
			}
		}
		return sb.String()
	}
	for rep := 0; rep < 2; rep++ {
		for cut := 23; cut < len(bad); cut += 487 {
			ctx.Eval()
			engine.Catch(func() { smf.ReadFrom(bytes.NewReader(bad[:cut])) })
			ctx.Add("poison_pairs", 1)
			if got := readGood(); got != want {
				i := 0
				for i < len(got) && i < len(want) && got[i] == want[i] {
					i++
				}
				if ctx.SigCount("canary:changed-by-failed-read-of-long-payload") < 3 {
					report2("canary:changed-by-failed-read-of-long-payload", fmt.Sprintf("after a file cut at byte %d (inside a long payload) was read, a valid file with long payloads reads differently from position %d on: ...%s (expected ...%s)", cut, i, clipS(got[max(i-20, 0):], 60), clipS(want[max(i-20, 0):], 60)))
				}
				return
			}
			ctx.NontrivialN(1)
		}
	}
}

// twoPrefixes: two proper prefixes (of different files, cut inside a channel
// message, inside a meta payload and at an event boundary) are read by two
// threads that are switched inside Read calls, every schedule with at most two
// switches: each result must be what the same prefix yields when read alone.
func twoPrefixes() {
	toks := smfgen.Tokens()
	dls := smfgen.Deltas()
	var inputs [][]byte
	for _, pick := range [][]int{{0, 1}, {4, 2}, {5, 0}} {
		var seq []smfgen.Timed
		for k, ti := range pick {
			seq = append(seq, smfgen.Timed{T: &toks[ti], D: &dls[(k+1)%4]})
		}
		body, evs, ok := smfgen.Track(seq, &dls[1])
		if !ok {
			continue
		}
		f, _ := smfgen.File(smfgen.BaseShape(), body, evs)
		for _, back := range []int{0, 1, 2, 4, 6} {
			if len(f)-back > 23 {
				inputs = append(inputs, f[:len(f)-back])
			}
		}
	}
	render := func(data []byte, yield func()) string {
		var got *smf.SMF
		var err error
		c := engine.Catch(func() { got, err = smf.ReadFrom(&faultio.YieldReader{R: bytes.NewReader(data), Yield: yield}) })
		switch {
		case c.Panicked:
			return "panic " + c.Value
		case err != nil:
			return "error"
		}
		out := fmt.Sprintf("fmt%d div%d", got.Format(), sp.Division(got.TimeFormat))
		for _, t := range got.Tracks {
			out += " | " + renderEvents(sp.FromTrack(t))
		}
		return out
	}
	var iv engine.Interleaver
	for a := range inputs {
		for b := a; b < len(inputs); b++ {
			wa, wb := render(inputs[a], func() {}), render(inputs[b], func() {})
			var ga, gb string
			n := iv.AllSchedules(
				func(y func()) { ga = render(inputs[a], y) },
				func(y func()) { gb = render(inputs[b], y) },
				func(first, i, j int) {
					ctx.Eval()
					if ga != wa || gb != wb {
						if ctx.SigCount("concurrent-readers:interference") < 5 {
							ctx.Violation("concurrent-readers:interference", map[string]interface{}{"kind": "two-prefixes", "input_a": engine.Hex(inputs[a]), "input_b": engine.Hex(inputs[b]),
								"first": first, "switch_first_at_read": i, "switch_second_at_read": j,
								"what": fmt.Sprintf("two inputs read by two threads switched inside Read calls: A gives %q (alone %q), B gives %q (alone %q)", ga, wa, gb, wb)})
						}
					}
				})
			ctx.Add("two_reader_schedules", int64(n))
			ctx.NontrivialN(int64(n))
		}
	}
}

// canary: a valid file that holds every channel status with data bytes from
// {00, 01, 40, 7F}, every meta type and a few sysex packets is read after a
// family of malformed inputs, in the same process: whatever the reader went
// through before (and may remember in package-level state), the valid file
// must read as the reference parser reads it, event for event.
var canaryFile []byte
var canaryWant string

func canaryBuild() {
	var body []byte
	for st := 0x80; st <= 0xEF; st++ {
		for _, d1 := range []byte{0x00, 0x01, 0x40, 0x7F} {
			for _, d2 := range []byte{0x00, 0x01, 0x40, 0x7F} {
				body = append(body, 0x01, byte(st), d1)
				if st < 0xC0 || st >= 0xE0 {
					body = append(body, d2)
				}
			}
		}
	}
	for typ := 0; typ < 0x80; typ++ {
		if typ != 0x2F {
			body = append(body, 0x00, 0xFF, byte(typ), 0x02, byte(typ), 0x01)
		}
	}
	body = append(body, 0x00, 0xF0, 0x03, 0x01, 0x02, 0xF7, 0x00, 0xF7, 0x02, 0xF3, 0x01, 0x00, 0xFF, 0x2F, 0x00)
	canaryFile = append(hdr(0, 1, 96), refsmf.Chunk("MTrk", body)...)
}

func canaryRead() string {
	s, err := smf.ReadFrom(bytes.NewReader(canaryFile))
	if err != nil {
		return "error: " + err.Error()
	}
	var sb strings.Builder
	for _, t := range s.Tracks {
		for _, e := range sp.FromTrack(t) {
			fmt.Fprintf(&sb, "%d:%X ", e.Delta, e.Msg)
		}
	}
	return sb.String()
}

// withCanary runs f between two readings of the canary file.
func withCanary(family string, f func()) {
	if canaryFile == nil {
		canaryBuild()
		exp, err := refsmf.Parse(canaryFile, refsmf.Strict)
		if err != nil {
			ctx.Guard(false, "canary file is not valid: %v", err)
		}
		var sb strings.Builder
		for _, t := range exp.Tracks {
			for _, e := range t {
				fmt.Fprintf(&sb, "%d:%X ", e.Delta, e.Msg)
			}
		}
		canaryWant = sb.String()
	}
	// (the canary is not read before the family: whatever is remembered from the
	// first reading of a message would then come from the valid file)
	f()
	ctx.Eval()
	ctx.Add("canary_readings", 1)
	if got := canaryRead(); got != canaryWant {
		i := 0
		for i < len(got) && i < len(canaryWant) && got[i] == canaryWant[i] {
			i++
		}
		lo := i - 30
		if lo < 0 {
			lo = 0
		}
		report2("canary:changed-by-earlier-reads:"+family, fmt.Sprintf("after the inputs of family %s were read in this process, the valid canary file reads differently: ...%s (expected ...%s)", family, clipS(got[lo:], 80), clipS(canaryWant[lo:], 80)))
	}
}

func clipS(s string, n int) string {
	if len(s) > n {
		return s[:n]
	}
	return s
}

func report2(sig, what string) {
	ctx.Violation(sig, map[string]interface{}{"kind": "deep", "what": what})
}

func main() {
	ctx = engine.Start("C05", "fault_enumeration")
	if ctx.ReplayPath != "" {
		replay()
		return
	}
	ctx.Assume("the random / coverage-guided part of the quantifier is replaced by the exhaustive bounded spaces 1-3 (DESIGN.md C05)")
	ctx.Assume("allocation is measured with runtime/metrics (/gc/heap/allocs:bytes: large objects immediately, small ones at span granularity) in single-threaded worker processes; a suspicious case is re-measured exactly with MemStats.TotalAlloc before it is reported; bound 64 KiB + 256 x len(input)")
	maxLen := ctx.Pick(5, 7)
	ctx.Jobs("strings-track-body", len(alphabet), func(j int) { withCanary("strings-track-body", func() { strings1(j, maxLen) }) })
	ctx.Jobs("strings-whole-file", len(alphabet)+7, func(j int) { withCanary("strings-whole-file", func() { strings2(j, 4) }) })
	ctx.Jobs("header-fields", 16, func(j int) { withCanary("header-fields", func() { headerFields(j, 16) }) })
	ctx.Jobs("substitutions", 32, func(j int) { withCanary("substitutions", func() { substitutions(j, 32) }) })
	ctx.Jobs("deep-inputs", 1, func(int) { deepInputs() })
	ctx.Jobs("amplification", 1, func(int) { amplification() })
	ctx.Jobs("poison-pairs", 1, func(int) { poisonPairs() })
	if !ctx.IsChild() {
		ctx.RacePairs("smf-read")
	}
	ctx.Jobs("two-prefixes", 1, func(int) { twoPrefixes() })
	nal := len(smfgen.Tokens()) * 4
	ctx.Jobs("truncations", nal, func(j int) { truncationFamily(j) })
	ctx.Sample(map[string]interface{}{"truncation": "every proper prefix of: MThd fmt0 1trk div96 | MTrk 0:NoteOn0 128:Text128 128:EOT", "check": "error, or tracks are event-for-event prefixes"})
	ctx.Sample(map[string]interface{}{"track-body": "00 FF 51 FF 7F", "check": "no panic, terminates, (value,nil)|(nil,err), allocation <= 64KiB+256*len"})
	ctx.Guard(ctx.GetInt("accepted") > 1000 && ctx.GetInt("rejected") > 1000, "outcomes not diverse: accepted=%d rejected=%d", ctx.GetInt("accepted"), ctx.GetInt("rejected"))
	ctx.Guard(ctx.NontrivialCount() > 1000, "too few accepted proper prefixes: %d", ctx.NontrivialCount())
	ctx.Finish("exhaustive: byte strings up to length 5/7 over a 16-byte alphabet as track body, up to 4 over alphabet+magic letters as whole file; all 65536 values of each header field; declared x actual track counts; explicit huge declared lengths; all 255 single-byte substitutions at every offset of the representative files and alphabet pairs on the five smallest; every truncation point of every generated family file; non-trivial = proper prefixes that were accepted (prefix oracle applied)")
}

func replay() {
	m := ctx.LoadReplay()
	var data []byte
	if m["kind"] == "truncation" {
		file := engine.UnHex(m["file"].(string))
		exp, err := refsmf.Parse(file, refsmf.Tolerant)
		if err != nil {
			fmt.Println("reference rejects file:", err)
			return
		}
		truncations(file, exp, "replay")
		ctx.Finish("replay")
	}
	if m["kind"] == "amplification" {
		amplification()
		ctx.Finish("replay")
	}
	if m["kind"] == "two-prefixes" {
		twoPrefixes()
		ctx.Finish("replay")
	}
	if m["kind"] == "deep" || m["kind"] == "job" {
		if strings.Contains(fmt.Sprint(m["what"]), "long payload") {
			poisonPairs()
			ctx.Finish("replay")
		}
		if strings.Contains(fmt.Sprint(m["signature"]), "alloc:growth") {
			deepInputs()
			ctx.Finish("replay")
		}
		deepInputs()
		ctx.Finish("replay")
	}
	data = engine.UnHex(m["input"].(string))
	var _ io.Reader
	basic(data, "replay", "replay")
	ctx.Finish("replay")
}
