// C06 — the live decoder survives arbitrary bytes and resynchronises like a
// MIDI receiver.
//
// (a) Product search: BFS over single-byte Sends from a 23-symbol byte-class
// alphabet; state = (private state of the decoder, read by reflection) x
// (state of the reference receiver) x (status of the last delivery); checked on
// every transition: same deliveries as the reference, every delivered message
// well formed, no panic. Run to the fixpoint, so streams of every length over
// the alphabet are covered. (b) All streams up to a bounded length with all
// chunkings. (c) Garbage prefixes followed by well-formed messages.
package main

import (
	"fmt"
	"time"

	"gitlab.com/gomidi/midi/v2/drivers"
	"gitlab.com/gomidi/midi/v2/internal/verifh/engine"
	ls "gitlab.com/gomidi/midi/v2/internal/verifh/livespace"
	"gitlab.com/gomidi/midi/v2/internal/verifh/refmidi"
)

var ctx *engine.Ctx

type config struct {
	sysex bool
	buf   uint32
}

var optFlip int

func (c config) opts() ls.Options {
	optFlip++
	// every third listener gets a buffer size option in front of the one that
	// counts (a small one, a large one in turn): the later option is the
	// configured size
	var earlier uint32
	if optFlip%3 == 0 {
		earlier = []uint32{3, 70000}[(optFlip/3)%2]
	}
	return ls.Options{SysEx: c.sysex, TimeCode: true, ActiveSense: true, BufSize: c.buf, Reversed: optFlip%2 == 1, Earlier: earlier}
}

func (c config) String() string { return fmt.Sprintf("sysex=%v/buf=%d", c.sysex, c.buf) }

func report(sig string, cfg config, stream []byte, chunks []int, what string) {
	if ctx.SigCount(sig) < 10 {
		ctx.Violation(sig, map[string]interface{}{"kind": "stream", "stream": engine.Hex(stream), "chunks": chunks, "sysex": cfg.sysex, "buf": cfg.buf, "what": what})
	}
}

// feed sends stream cut into chunks of the given sizes (nil = bytewise) on a
// fresh loopback and compares, per chunk, the deliveries with the reference.
// Returns the loop and reference for state inspection (nil loop after panic).
func feed(cfg config, stream []byte, chunks []int, judgeFrom int) (*ls.Loop, *refmidi.Receiver, bool) {
	l := ls.NewLoop(cfg.opts())
	if l.Err != nil {
		ctx.Guard(false, "cannot set up loopback: %v", l.Err)
		return nil, nil, false
	}
	ref := &refmidi.Receiver{BufSize: int(cfg.buf), SysexOn: cfg.sysex}
	if refBuf != 0 {
		ref.BufSize = refBuf
	}
	pos := 0
	ci := 0
	for pos < len(stream) {
		n := 1
		if chunks != nil {
			n = chunks[ci]
			ci++
		}
		chunk := stream[pos : pos+n]
		cls := ref.StateClass()
		var want []refmidi.Delivery
		for _, b := range chunk {
			want = append(want, ref.Feed(b)...)
		}
		_, c := l.Send(chunk)
		got := l.Take()
		if c.Panicked {
			if pos+n > judgeFrom {
				report(c.Sig+":"+cls+":"+refmidi.ByteClass(chunk[len(chunk)-1]), cfg, stream[:pos+n], chunks, "Send panicked: "+c.Value)
			}
			return nil, nil, false
		}
		if pos+n > judgeFrom {
			if d := ls.Compare(got, want); d != "" {
				bc := refmidi.ByteClass(chunk[0])
				if len(chunk) > 1 {
					bc = "chunk"
				}
				report("deliver:"+d+":"+cls+":"+bc, cfg, stream[:pos+n], chunks,
					fmt.Sprintf("delivered [%s], reference receiver delivers [%s]", ls.RenderDeliveries(got), ls.RenderRef(want)))
				return l, ref, false
			}
			for _, g := range got {
				if len(g.Msg) == 1 && (g.Msg[0] == 0xF9 || g.Msg[0] == 0xFD) {
					continue
				}
				if w := ls.WellFormed(g.Msg); w != "" {
					report("malformed:"+w+":"+cls, cfg, stream[:pos+n], chunks, fmt.Sprintf("delivered message % X is not well formed (%s)", g.Msg, w))
					return l, ref, false
				}
			}
		}
		pos += n
	}
	// the messages the listener kept still hold what they held on delivery
	// (every Send above used a buffer that was overwritten afterwards)
	if was, now, yes := l.Overwritten(); yes && len(stream) > judgeFrom {
		report("deliver:retained-message-overwritten", cfg, stream, chunks, fmt.Sprintf("a message handed to the listener (% X) changed afterwards to % X", was, now))
		return l, ref, false
	}
	return l, ref, true
}

// feedDirect does what feed does one level below: the decoder is used through
// drivers.NewReader / EachMessage, as a driver does, with an error handler
// configured (ListenConfig.OnErr). The call-back gets channel and system
// common messages padded to three bytes; they are cut to their length before
// the comparison with the reference receiver, and the marker F7 00 00 (an F7
// outside a sysex) is not a message.
func feedDirect(cfg config, stream []byte, chunks []int) {
	var got []ls.Delivered
	errs := 0
	rd := drivers.NewReader(drivers.ListenConfig{SysEx: cfg.sysex, TimeCode: true, ActiveSense: true, SysExBufferSize: cfg.buf, OnErr: func(error) { errs++ }},
		func(m []byte, ts int32) {
			c := append([]byte(nil), m...)
			if len(c) == 3 && c[0] == 0xF7 {
				// the reader's way of telling midi.ListenTo about an F7 outside a
				// sysex (ListenTo drops it); part of the internal interface on the
				// unchanged tree, not a delivered message
				return
			}
			if len(c) > 0 && c[0] >= 0x80 && c[0] < 0xF0 || len(c) > 0 && (c[0] == 0xF1 || c[0] == 0xF2 || c[0] == 0xF3 || c[0] == 0xF6) {
				if n := 1 + refsmfDataLen(c[0]); n <= len(c) {
					c = c[:n]
				}
			}
			got = append(got, ls.Delivered{Msg: c, TS: ts})
		})
	ref := &refmidi.Receiver{BufSize: int(cfg.buf), SysexOn: cfg.sysex}
	pos, ci := 0, 0
	for pos < len(stream) {
		n := 1
		if chunks != nil {
			n = chunks[ci]
			ci++
		}
		chunk := stream[pos : pos+n]
		cls := ref.StateClass()
		var want []refmidi.Delivery
		for _, b := range chunk {
			want = append(want, ref.Feed(b)...)
		}
		got = got[:0]
		c := engine.Catch(func() { rd.EachMessage(chunk, 0) })
		if c.Panicked {
			report(c.Sig+":direct-reader:"+cls, cfg, stream[:pos+n], chunks, "EachMessage panicked (reader used directly, error handler set): "+c.Value)
			return
		}
		if d := ls.Compare(got, want); d != "" {
			report("deliver:"+d+":"+cls+":direct-reader", cfg, stream[:pos+n], chunks,
				fmt.Sprintf("drivers.Reader with an error handler delivered [%s], reference receiver delivers [%s]", ls.RenderDeliveries(got), ls.RenderRef(want)))
			return
		}
		pos += n
	}
}

func refsmfDataLen(st byte) int {
	switch {
	case st >= 0xC0 && st <= 0xDF, st == 0xF1, st == 0xF3:
		return 1
	case st == 0xF6:
		return 0
	}
	return 2
}

// chunkOps: every single byte class, plus every chunk of two and three bytes
// over a reduced alphabet (decoders may treat a Send that carries a whole
// message differently from the same bytes arriving one by one).
func chunkOps(multi bool) [][]byte {
	var ops [][]byte
	for _, c := range ls.Classes {
		ops = append(ops, []byte{c})
	}
	if !multi {
		return ops
	}
	red := []byte{0x01, 0x90, 0xC0, 0xF0, 0xF7, 0xF4, 0xF8, 0xF2, 0x7F}
	for _, a := range red {
		for _, b := range red {
			ops = append(ops, []byte{a, b})
			for _, c := range red {
				ops = append(ops, []byte{a, b, c})
			}
		}
	}
	return ops
}

func product(cfg config) { productOps(cfg, false) }

func productOps(cfg config, multi bool) {
	ops := chunkOps(multi)
	b := &engine.BFS{NumOps: len(ops), MaxStates: 400000, MaxTransitions: map[bool]int64{false: 400000, true: 2500000}[multi], Stop: func() bool { return ctx.ViolationCount() > 0 }}
	b.Run = func(path []uint16) (string, bool) {
		var stream []byte
		var chunks []int
		for _, p := range path {
			stream = append(stream, ops[p]...)
			chunks = append(chunks, len(ops[p]))
		}
		ctx.Eval()
		l, ref, ok := feed(cfg, stream, chunks, len(stream)-len(ops[path[len(path)-1]]))
		if !ok || l == nil {
			// a diverged or crashed state has no meaningful successors
			return "", false
		}
		last := ""
		return l.ReaderState() + "|" + ref.Key() + "|" + last, true
	}
	b.Explore("init")
	ctx.Add("states", b.States)
	ctx.Add("transitions", b.Transitions)
	ctx.Max("max:depth", int64(b.Depth))
	ctx.Add("fixpoints_reached", boolInt(b.Fixpoint))
	ctx.Add("searches", 1)
	if !b.Fixpoint {
		ctx.NotExhaustive(fmt.Sprintf("product search %s stopped at %d states without reaching the fixpoint", cfg, b.States))
	}
	fmt.Printf("product %-18s chunk-ops=%v ops=%d states=%d transitions=%d depth=%d fixpoint=%v\n", cfg, multi, len(ops), b.States, b.Transitions, b.Depth, b.Fixpoint)
}

func boolInt(b bool) int64 {
	if b {
		return 1
	}
	return 0
}

// chunkings enumerates all compositions of n.
func chunkings(n int, f func([]int)) {
	if n == 0 {
		f(nil)
		return
	}
	for mask := 0; mask < 1<<(n-1); mask++ {
		var c []int
		run := 1
		for i := 0; i < n-1; i++ {
			if mask&(1<<i) != 0 {
				c = append(c, run)
				run = 1
			} else {
				run++
			}
		}
		c = append(c, run)
		f(c)
	}
}

func bounded(cfg config, first int, maxAll, maxLen int) {
	stream := make([]byte, maxLen)
	var rec func(n, l int)
	rec = func(n, l int) {
		if n == l {
			s := stream[:l]
			if l <= maxAll {
				chunkings(l, func(c []int) {
					ctx.Eval()
					ctx.Add("chunked_streams", 1)
					feed(cfg, s, c, 0)
				})
				ctx.Eval()
				feedDirect(cfg, s, nil)
				ctx.Eval()
				feedDirect(cfg, s, []int{l})
				ctx.Add("direct_reader_streams", 2)
			} else {
				ctx.Eval()
				feed(cfg, s, []int{l}, 0)
				ctx.Eval()
				feed(cfg, s, nil, 0)
				ctx.Add("chunked_streams", 2)
			}
			return
		}
		for _, b := range ls.Classes {
			stream[n] = b
			rec(n+1, l)
		}
	}
	for l := 1; l <= maxLen; l++ {
		stream[0] = ls.Classes[first]
		rec(1, l)
	}
}

var wellFormed = [][]byte{
	{0x90, 0x3C, 0x40}, {0xC5, 0x07}, {0xF0, 0x01, 0xF7}, {0xF2, 0x05, 0x06}, {0xF8}, {0xE1, 0x00, 0x40}, {0xF6}, {0xF3, 0x02},
}

func garbage(cfg config, first int) {
	for plen := 1; plen <= 3; plen++ {
		prefix := make([]byte, plen)
		prefix[0] = ls.Classes[first]
		var rec func(n int)
		rec = func(n int) {
			if n == plen {
				for _, a := range wellFormed {
					for _, b := range wellFormed {
						s := append(append(append([]byte{}, prefix...), a...), b...)
						ctx.Eval()
						ctx.Add("garbage_prefix_streams", 1)
						feed(cfg, s, []int{len(s)}, 0)
					}
				}
				return
			}
			for _, b := range ls.Classes {
				prefix[n] = b
				rec(n + 1)
			}
		}
		rec(1)
	}
}

// sysexSizes: buffer sizes x sysex lengths around every boundary: a sysex is
// delivered iff its total length (F0 and F7 included) fits the buffer; the
// message after it is decoded either way.
func sysexSizes(part, parts int) {
	var sizes []int
	for s := 2; s <= 260; s++ {
		sizes = append(sizes, s)
	}
	sizes = append(sizes, 0, 511, 512, 513, 1000, 1023, 1024, 1025, 2047, 2048, 2049, 4096)
	// ascending, then descending: decoders with different buffer sizes follow each
	// other in both orders within one process
	n := len(sizes)
	for i := n - 1; i >= 0; i-- {
		sizes = append(sizes, sizes[i])
	}
	for si, size := range sizes {
		if si%parts != part && (2*n-1-si)%parts != part {
			continue
		}
		eff := size
		if eff == 0 {
			eff = 1024
		}
		var lens []int
		if eff <= 260 {
			for l := 2; l <= eff+3; l++ {
				lens = append(lens, l)
			}
		} else {
			for _, l := range []int{2, 3, 127, 128, 129, 200, 255, 256, 257, 500, 511, 512, 513, 1000, 1023, 1024, 1025, 2047, 2048, 2049, eff - 1, eff, eff + 1, eff + 2} {
				if l <= eff+2 {
					lens = append(lens, l)
				}
			}
		}
		for li, l := range lens {
			// something happened on the wire before (alternating over the lengths):
			// nothing, a stray F7, an empty sysex, two stray F7, a note-on cut short
			prefix := [][]byte{nil, {0xF7}, {0xF0, 0xF7}, {0xF7, 0xF7}, {0x90, 0x3C}, {0xF0, 0x01, 0x90}}[(li+si)%6]
			stream := append([]byte{}, prefix...)
			stream = append(stream, 0xF0)
			for i := 0; i < l-2; i++ {
				stream = append(stream, byte(i%100))
			}
			stream = append(stream, 0xF7, 0x90, 0x3C, 0x40)
			cfg := config{true, uint32(size)}
			// the reference takes the effective size
			ctx.Eval()
			feedSized(cfg, eff, stream, []int{len(stream)})
			if l <= 300 {
				ctx.Eval()
				feedSized(cfg, eff, stream, nil)
			}
			if len(prefix) > 0 {
				ctx.Eval()
				feedSized(cfg, eff, stream, []int{len(prefix), len(stream) - len(prefix)})
			}
			ctx.Add("sysex_size_cases", 1)
		}
	}
}

// longChunkClasses: reduced alphabet for long streams handed over in one or
// two Send calls (per-chunk shortcuts in a decoder: "this chunk is exactly one
// message", word-at-a-time scans): two data values, two channel statuses,
// sysex start/end, a real-time byte, an undefined status.
var longChunkClasses = []byte{0x01, 0x7F, 0x90, 0xC0, 0xF0, 0xF7, 0xF8, 0xF4}

// longChunks: every stream over longChunkClasses up to the bound that starts
// with (c0, c1): in one chunk, and cut in two at every position.
func longChunks(cfg config, c0, c1 int) {
	maxLen := ctx.Pick(6, 8)
	stream := append(make([]byte, 0, maxLen), longChunkClasses[c0], longChunkClasses[c1])
	var rec func()
	rec = func() {
		n := len(stream)
		ctx.Eval()
		ctx.Add("long_chunk_streams", 1)
		feed(cfg, stream, []int{n}, 0)
		for cut := 1; cut < n; cut++ {
			ctx.Eval()
			feed(cfg, stream, []int{cut, n - cut}, 0)
		}
		if n == maxLen {
			return
		}
		for _, c := range longChunkClasses {
			stream = append(stream, c)
			rec()
			stream = stream[:n]
		}
	}
	rec()
}

// sysexWords: a sysex whose payload holds one or two non-data bytes at every
// pair of positions, long enough for any word-at-a-time scan (payload up to 20
// bytes, buffer large enough), in one chunk and in two.
func sysexWords(part, parts int) {
	cfg := config{true, 64}
	specials := []byte{0xF8, 0xF7, 0x90, 0xF4, 0xFE}
	for n := 1 + part; n <= 20; n += parts {
		for p := 0; p < n; p++ {
			for q := p; q < n; q++ {
				for _, a := range specials {
					for _, b := range specials {
						if p == q && a != b {
							continue
						}
						st := []byte{0xF0}
						for i := 0; i < n; i++ {
							st = append(st, byte(1+i))
						}
						st[1+p], st[1+q] = a, b
						st = append(st, 0xF7, 0x90, 0x10, 0x20)
						ctx.Eval()
						ctx.Add("sysex_word_streams", 1)
						feed(cfg, st, []int{len(st)}, 0)
						ctx.Eval()
						feed(cfg, st, []int{1, len(st) - 1}, 0)
						if (p+q)%3 == 0 {
							ctx.Eval()
							feed(cfg, st, []int{1 + p, len(st) - 1 - p}, 0)
						}
					}
				}
			}
		}
	}
}

// longLived: one reader decodes tens of thousands of messages (anything the
// decoder keeps for its whole life - pools, counters, buffers that are refilled
// every so many messages - is exercised past its first refill).
func longLived(which int) {
	cfg := config{true, 5}
	const n = 30000
	var st []byte
	var chunks []int
	add := func(b ...byte) { st = append(st, b...); chunks = append(chunks, len(b)) }
	switch which {
	case 0: // one real-time byte, then note-ons only
		add(0xF8)
		for i := 0; i < n; i++ {
			add(0x90, byte(i%128), byte(1+i%127))
		}
	case 1: // two real-time bytes, then a mix of three-, two- and one-byte messages
		add(0xF8)
		add(0xFA)
		for i := 0; i < n; i++ {
			switch i % 5 {
			case 0, 1, 2:
				add(0xB0+byte(i%16), byte(i%128), byte(i%97))
			case 3:
				add(0xC0+byte(i%16), byte(i%128))
			case 4:
				add(0xFE)
			}
		}
	case 2: // running status bytewise, a short sysex every 50 messages
		add(0x91)
		for i := 0; i < n; i++ {
			add(byte(i % 128))
			add(byte(1 + i%100))
			if i%50 == 49 {
				add(0xF0, 0x01, 0x02, 0xF7)
				add(0x91)
			}
		}
	case 3: // everything in large chunks
		var blk []byte
		for i := 0; i < n; i++ {
			blk = append(blk, 0x80+byte(i%16), byte(i%128), 0x00)
			if i%7 == 0 {
				blk = append(blk, 0xF8)
			}
			if len(blk) > 1000 {
				add(blk...)
				blk = nil
			}
		}
		add(blk...)
	}
	ctx.Eval()
	ctx.Add("long_lived_streams", 1)
	ctx.Add("long_lived_bytes", int64(len(st)))
	feed(cfg, st, chunks, 0)
}

// longPauses: weeks pass between the chunks of a message (the reader's
// millisecond clock is 32 bits wide and runs over after 24.8 days): what is
// decoded must not depend on how much time went by.
func longPauses() {
	cfg := config{true, 16}
	day := 24 * time.Hour
	streams := [][][]byte{
		{{0x90}, {0x3C}, {0x40, 0x3E, 0x41}, {0x3F}, {0x42}},
		{{0xF0, 0x01}, {0x02}, {0x03, 0xF7}, {0x91, 0x01, 0x02}},
		{{0xB1, 0x07, 0x7F}, {0x08}, {0x01}, {0x09, 0x02}},
		{{0xF2, 0x01}, {0x02}, {0xC3}, {0x05}},
	}
	for _, pause := range []time.Duration{0, 20 * day, 24 * day, 25 * day, 30 * day} {
		for si, st := range streams {
			l := ls.NewLoop(cfg.opts())
			ref := &refmidi.Receiver{BufSize: int(cfg.buf), SysexOn: true}
			var all []byte
			ctx.Eval()
			ctx.Add("long_pause_streams", 1)
			for _, chunk := range st {
				l.Drv.Sleep(pause)
				var want []refmidi.Delivery
				for _, b := range chunk {
					want = append(want, ref.Feed(b)...)
				}
				all = append(all, chunk...)
				_, c := l.Send(chunk)
				got := l.Take()
				if c.Panicked {
					report(c.Sig+":long-pause", cfg, all, nil, fmt.Sprintf("Send panicked after pauses of %v: %s", pause, c.Value))
					break
				}
				if d := ls.Compare(got, want); d != "" {
					report("deliver:"+d+":after-long-pause", cfg, all, nil,
						fmt.Sprintf("stream %d with %v between the chunks: delivered [%s], reference receiver delivers [%s]", si, pause, ls.RenderDeliveries(got), ls.RenderRef(want)))
					break
				}
			}
		}
	}
}

// relistenSizes: the same port is listened to twice with different sysex
// buffer sizes (0 = default 1024); sysex messages with lengths between the two
// sizes must be treated by the second listener's size alone.
func relistenSizes() {
	sizes := []uint32{0, 4, 8, 64, 1024, 2000}
	for _, a := range sizes {
		for _, b := range sizes {
			if a == b {
				continue
			}
			eff := int(b)
			if eff == 0 {
				eff = 1024
			}
			for _, l := range []int{3, 4, 5, 8, 9, 60, 64, 65, 1000, 1024, 1025, 1500, 2000, 2001} {
				stream := []byte{0xF0}
				for i := 0; i < l-2; i++ {
					stream = append(stream, byte(i%100))
				}
				stream = append(stream, 0xF7, 0x90, 0x3C, 0x40)
				ctx.Eval()
				ctx.Add("relisten_size_cases", 1)
				lp := ls.NewLoop(ls.Options{SysEx: true, TimeCode: true, ActiveSense: true, BufSize: a})
				lp.Send([]byte{0xF0, 0x01, 0x02, 0xF7})
				lp.Relisten(ls.Options{SysEx: true, TimeCode: true, ActiveSense: true, BufSize: b})
				if lp.Err != nil {
					report("relisten:error", config{true, b}, stream, nil, "second ListenTo on the same port failed: "+lp.Err.Error())
					continue
				}
				ref := &refmidi.Receiver{BufSize: eff, SysexOn: true}
				var want []refmidi.Delivery
				for _, by := range stream {
					want = append(want, ref.Feed(by)...)
				}
				_, c := lp.Send(stream)
				got := lp.Take()
				if c.Panicked {
					report(c.Sig+":relisten-sizes", config{true, b}, stream, nil, fmt.Sprintf("first listener with buffer %d, second with %d: Send panicked: %s", a, b, c.Value))
					continue
				}
				if d := ls.Compare(got, want); d != "" {
					report("deliver:"+d+":second-listener-other-buffer-size", config{true, b}, stream, nil,
						fmt.Sprintf("first listener with buffer %d, second with %d, sysex of %d bytes: delivered [%s], reference [%s]", a, b, l, ls.RenderDeliveries(got), ls.RenderRef(want)))
				}
			}
		}
	}
}

// hugeBuffers: buffer sizes of a megabyte and more with sysex messages just
// inside and just outside.
func hugeBuffers() {
	for _, size := range []int{1 << 20, 1<<20 + 1, 1 << 21, 5000000} {
		for _, l := range []int{size - 1, size, size + 1, 1<<20 - 1, 1<<20 + 2} {
			if l > size+1 {
				continue
			}
			stream := make([]byte, 0, l+4)
			stream = append(stream, 0xF0)
			for i := 0; i < l-2; i++ {
				stream = append(stream, byte(i%100))
			}
			stream = append(stream, 0xF7, 0x90, 0x3C, 0x40)
			ctx.Eval()
			ctx.Add("huge_buffer_cases", 1)
			lp := ls.NewLoop(ls.Options{SysEx: true, TimeCode: true, ActiveSense: true, BufSize: uint32(size)})
			_, c := lp.Send(stream)
			got := lp.Take()
			wantSysex := l <= size
			gotSysex := len(got) > 0 && len(got[0].Msg) == l
			note := len(got) > 0 && string(got[len(got)-1].Msg) == string([]byte{0x90, 0x3C, 0x40})
			if c.Panicked {
				report(c.Sig+":huge-buffer", config{true, uint32(size)}, stream[:8], nil, fmt.Sprintf("buffer %d, sysex of %d bytes: Send panicked: %s", size, l, c.Value))
			} else if wantSysex != gotSysex || !note || len(got) > 2 {
				report("deliver:huge-buffer", config{true, uint32(size)}, stream[:8], nil, fmt.Sprintf("buffer %d, sysex of %d bytes: %d deliveries, sysex delivered=%v (expected %v), note delivered=%v", size, l, len(got), gotSysex, wantSysex, note))
			}
		}
	}
}

// periodic: long streams on one listener (thousands of messages, where the
// bounded spaces stop at a handful): every pattern of one to three units over
// messages of one, two and three bytes, a running-status pair, a short sysex
// and two real-time bytes, repeated up to 5200 bytes (thorough 70000), sent in
// one piece, in chunks of seven and byte by byte. What a decoder counts or
// fills while it runs (blocks, rings, totals) passes every remainder this way.
func periodic(part, parts int) {
	units := [][]byte{{0x90, 0x3C, 0x40}, {0x3E, 0x41}, {0xC1, 0x05}, {0xF8}, {0xF0, 0x01, 0x02, 0xF7}, {0xF2, 0x01, 0x02}, {0xFE}, {0xD2, 0x11}, {0xFF}}
	total := ctx.Pick(5200, 70000)
	var pats [][]int
	n := len(units)
	for a := 0; a < n; a++ {
		pats = append(pats, []int{a})
		for b := 0; b < n; b++ {
			pats = append(pats, []int{a, b})
			for c := 0; c < n; c++ {
				pats = append(pats, []int{a, b, c})
			}
		}
	}
	for pi, pat := range pats {
		if pi%parts != part {
			continue
		}
		var period []byte
		for _, u := range pat {
			period = append(period, units[u]...)
		}
		stream := make([]byte, 0, total+len(period))
		for len(stream) < total {
			stream = append(stream, period...)
		}
		var sevens []int
		for left := len(stream); left > 0; left -= 7 {
			sevens = append(sevens, min(7, left))
		}
		for _, cfg := range []config{{true, 16}, {false, 16}} {
			for _, chunks := range [][]int{{len(stream)}, sevens, nil} {
				ctx.Eval()
				feed(cfg, stream, chunks, 0)
				ctx.Add("periodic_streams", 1)
			}
		}
	}
}

func feedSized(cfg config, eff int, stream []byte, chunks []int) {
	refBuf = eff
	feed(cfg, stream, chunks, 0)
	refBuf = 0
}

var refBuf int

func main() {
	ctx = engine.Start("C06", "model_checking")
	ls.OnViolation = func(sig, what string) {
		if ctx.SigCount(sig) < 3 {
			ctx.Violation(sig, map[string]interface{}{"kind": "wrapper", "what": what})
		}
	}
	if ctx.ReplayPath != "" {
		replay()
		return
	}
	ctx.Assume("reference receiver = DESIGN.md appendix A; delivery of the undefined real-time bytes F9/FD is not judged")
	ctx.Assume("the decoder's private state is read by reflection over all non-func fields of the *drivers.Reader held by the loopback driver; the virtual clock is never advanced, so time stamps do not split states")
	cfgs := []config{{true, 5}, {false, 5}, {true, 3}, {true, 8}}
	ctx.JobsW("product", len(cfgs), 4, func(j int) { product(cfgs[j]) })
	ctx.JobsW("product-chunks", 2, 8, func(j int) { productOps(cfgs[j], true) })
	ctx.Jobs("sysex-sizes", 16, func(j int) { sysexSizes(j, 16) })
	type bj struct {
		cfg   config
		first int
	}
	var bjs []bj
	for _, c := range cfgs[:2] {
		for f := range ls.Classes {
			bjs = append(bjs, bj{c, f})
		}
	}
	maxAll, maxLen := ctx.Pick(4, 5), ctx.Pick(5, 6)
	ctx.Jobs("bounded", len(bjs), func(j int) { bounded(bjs[j].cfg, bjs[j].first, maxAll, maxLen) })
	ctx.Jobs("garbage", len(bjs), func(j int) { garbage(bjs[j].cfg, bjs[j].first) })
	// every byte VALUE (not only one representative per class) in the first two
	// positions, followed by nothing or by one byte of each class
	ctx.Jobs("all-values", 16, func(j int) {
		for b0 := j * 16; b0 < j*16+16; b0++ {
			for b1 := 0; b1 < 256; b1++ {
				ctx.Eval()
				feed(cfgs[0], []byte{byte(b0), byte(b1)}, nil, 0)
				for _, c := range ls.Classes {
					ctx.Eval()
					feed(cfgs[0], []byte{byte(b0), byte(b1), c}, nil, 0)
					ctx.Eval()
					feed(cfgs[0], []byte{byte(b0), c, byte(b1)}, []int{3}, 0)
				}
				ctx.Add("all_value_streams", int64(1+2*len(ls.Classes)))
			}
		}
	})
	nl := len(longChunkClasses)
	ctx.Jobs("long-chunks", 2*nl*nl, func(j int) { longChunks(cfgs[j/(nl*nl)], (j/nl)%nl, j%nl) })
	ctx.Jobs("sysex-words", 10, func(j int) { sysexWords(j, 10) })
	ctx.Jobs("long-lived", 4, func(j int) { longLived(j) })
	ctx.Jobs("periodic", 16, func(j int) { periodic(j, 16) })
	ctx.Jobs("long-pauses", 1, func(int) { longPauses(); relistenSizes(); hugeBuffers() })
	ctx.Set("traces_validated_against_impl", ctx.GetInt("transitions"))
	ctx.Set("max_depth", ctx.GetInt("max:depth"))
	ctx.Set("byte_classes", len(ls.Classes))
	ctx.Set("fixpoint_reached", ctx.GetInt("fixpoints_reached") == ctx.GetInt("searches"))
	ctx.Sample(map[string]interface{}{"stream": "90 7F 80 01 7F (bytewise)", "expect": "status 80 abandons the incomplete note-on; 80 01 7F delivered"})
	ctx.Sample(map[string]interface{}{"stream": "F0 01 01 01 01 F7 with buffer 5", "expect": "6-byte sysex exceeds the buffer and is dropped, no panic"})
	ctx.NontrivialN(ctx.GetInt("states"))
	ctx.Guard(ctx.GetInt("states") > 1000, "product state space suspiciously small: %d", ctx.GetInt("states"))
	ctx.Finish("product automaton (decoder private state x reference receiver state) explored by BFS over 23 byte classes to the fixpoint for 4 configurations; all streams up to length 5/6 with all chunkings up to length 4/5; garbage prefixes up to 3 classes followed by two well-formed messages; all streams up to length 6/8 over 8 classes in one chunk and cut in two; sysex payloads up to 20 bytes with non-data bytes at every pair of positions; four streams of 30000 messages on one reader; non-trivial = distinct product states")
}

func replay() {
	m := ctx.LoadReplay()
	cfg := config{m["sysex"].(bool), uint32(m["buf"].(float64))}
	stream := engine.UnHex(m["stream"].(string))
	var chunks []int
	if l, ok := m["chunks"].([]interface{}); ok && l != nil {
		n := 0
		for _, c := range l {
			if n+int(c.(float64)) > len(stream) {
				break
			}
			chunks = append(chunks, int(c.(float64)))
			n += int(c.(float64))
		}
	}
	// option order, the error handler and an earlier buffer size option rotate
	// with a counter: all six variants
	for i := 0; i < 6; i++ {
		feed(cfg, stream, chunks, 0)
	}
	ctx.Finish("replay")
}
