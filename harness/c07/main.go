// C07 — message constructors emit the MIDI 1.0 wire encoding and accessors
// invert them.
//
// The finite argument domains are enumerated completely (thorough) or over all
// in-range values plus out-of-range boundaries (quick); every message is
// compared with the MIDI 1.0 wire table applied to the clamped arguments, run
// through every type-specific accessor, and sent through the loopback.
package main

import (
	"bytes"
	"fmt"

	"gitlab.com/gomidi/midi/v2"
	cc "gitlab.com/gomidi/midi/v2/internal/verifh/conccases"
	cp "gitlab.com/gomidi/midi/v2/internal/verifh/concpairs"
	"gitlab.com/gomidi/midi/v2/internal/verifh/disturb"
	"gitlab.com/gomidi/midi/v2/internal/verifh/engine"
	ls "gitlab.com/gomidi/midi/v2/internal/verifh/livespace"
)

var ctx *engine.Ctx
var stable engine.Stable

func clamp7(v int) byte {
	if v > 127 {
		return 127
	}
	return byte(v)
}

func clampCh(v int) byte {
	if v > 15 {
		return 15
	}
	return byte(v)
}

const (
	kNoteOn = iota
	kNoteOff
	kPoly
	kCC
	kProg
	kAfter
	kBend
	kMTC
	kSong
	kSPP
	kTune
	kSysEx
	nKinds
)

var kindNames = []string{"NoteOn", "NoteOff", "PolyAfterTouch", "ControlChange", "ProgramChange", "AfterTouch", "Pitchbend", "MTC", "SongSelect", "SPP", "Tune", "SysEx"}

// accept runs every type-specific accessor and returns which accept.
func accept(m midi.Message) (acc [nKinds]bool, ch, a, b uint8, rel int16, abs uint16, spp uint16) {
	var c1, x1, y1 uint8
	if m.GetNoteOn(&c1, &x1, &y1) {
		acc[kNoteOn] = true
		ch, a, b = c1, x1, y1
	}
	if m.GetNoteOff(&c1, &x1, &y1) {
		acc[kNoteOff] = true
		ch, a, b = c1, x1, y1
	}
	if m.GetPolyAfterTouch(&c1, &x1, &y1) {
		acc[kPoly] = true
		ch, a, b = c1, x1, y1
	}
	if m.GetControlChange(&c1, &x1, &y1) {
		acc[kCC] = true
		ch, a, b = c1, x1, y1
	}
	if m.GetProgramChange(&c1, &x1) {
		acc[kProg] = true
		ch, a = c1, x1
	}
	if m.GetAfterTouch(&c1, &x1) {
		acc[kAfter] = true
		ch, a = c1, x1
	}
	if m.GetPitchBend(&c1, &rel, &abs) {
		acc[kBend] = true
		ch = c1
	}
	if m.GetMTC(&x1) {
		acc[kMTC] = true
		a = x1
	}
	if m.GetSongSelect(&x1) {
		acc[kSong] = true
		a = x1
	}
	if m.GetSPP(&spp) {
		acc[kSPP] = true
	}
	var bt []byte
	if m.GetSysEx(&bt) {
		acc[kSysEx] = true
	}
	return
}

// nilArgs calls the matching accessor with every combination of nil and
// non-nil out-parameters ("only arguments that are not nil are parsed and
// filled"): it must accept, and fill exactly the non-nil ones.
func nilArgs(m midi.Message, kind, wCh, wA, wB int) string {
	switch kind {
	case kBend:
		// wA carries the relative value here
		for mask := 0; mask < 8; mask++ {
			var ch uint8 = 0xEE
			var rel int16 = -7777
			var abs uint16 = 0xEEEE
			var pc *uint8
			var pr *int16
			var pa *uint16
			if mask&1 != 0 {
				pc = &ch
			}
			if mask&2 != 0 {
				pr = &rel
			}
			if mask&4 != 0 {
				pa = &abs
			}
			if !m.GetPitchBend(pc, pr, pa) {
				return fmt.Sprintf("accessor rejects its own message when called with nil-mask %03b", mask)
			}
			if (pc != nil && int(ch) != wCh) || (pr != nil && int(rel) != wA) || (pa != nil && int(abs) != wA+8192) {
				return fmt.Sprintf("with nil-mask %03b the accessor left a requested value unfilled or wrong: ch=%d rel=%d abs=%d, want %d %d %d", mask, ch, rel, abs, wCh, wA, wA+8192)
			}
		}
		// the derived views, same rule
		var c2 uint8 = 0xEE
		if !m.GetChannel(&c2) || int(c2) != wCh || !m.GetChannel(nil) {
			return fmt.Sprintf("GetChannel gives %d (want %d) or refuses a nil destination", c2, wCh)
		}
		return ""
	case kNoteOn, kNoteOff, kPoly, kCC, kProg, kAfter:
		var c2 uint8 = 0xEE
		if !m.GetChannel(&c2) || int(c2) != wCh || !m.GetChannel(nil) {
			return fmt.Sprintf("GetChannel gives %d (want %d) or refuses a nil destination", c2, wCh)
		}
		if kind == kNoteOn && wB > 0 {
			for mask := 0; mask < 8; mask++ {
				var ch, k, v uint8 = 0xEE, 0xEE, 0xEE
				var pc, pk, pv *uint8
				if mask&1 != 0 {
					pc = &ch
				}
				if mask&2 != 0 {
					pk = &k
				}
				if mask&4 != 0 {
					pv = &v
				}
				if !m.GetNoteStart(pc, pk, pv) || (pc != nil && int(ch) != wCh) || (pk != nil && int(k) != wA) || (pv != nil && int(v) != wB) {
					return fmt.Sprintf("GetNoteStart with nil-mask %03b: ch=%d key=%d vel=%d, want %d %d %d", mask, ch, k, v, wCh, wA, wB)
				}
			}
		}
		if kind == kNoteOff || (kind == kNoteOn && wB == 0) {
			for mask := 0; mask < 4; mask++ {
				var ch, k uint8 = 0xEE, 0xEE
				var pc, pk *uint8
				if mask&1 != 0 {
					pc = &ch
				}
				if mask&2 != 0 {
					pk = &k
				}
				if !m.GetNoteEnd(pc, pk) || (pc != nil && int(ch) != wCh) || (pk != nil && int(k) != wA) {
					return fmt.Sprintf("GetNoteEnd with nil-mask %02b: ch=%d key=%d, want %d %d", mask, ch, k, wCh, wA)
				}
			}
		}
	case kSPP:
		// wA carries the pointer here
		var v uint16 = 0xEEEE
		if !m.GetSPP(nil) || !m.GetSPP(&v) || int(v) != wA {
			return fmt.Sprintf("GetSPP gives %d (want %d) or refuses a nil destination", v, wA)
		}
		return ""
	case kMTC:
		var v uint8 = 0xEE
		if !m.GetMTC(nil) || !m.GetMTC(&v) || int(v) != wA {
			return fmt.Sprintf("GetMTC gives %d (want %d) or refuses a nil destination", v, wA)
		}
		return ""
	case kSong:
		var v uint8 = 0xEE
		if !m.GetSongSelect(nil) || !m.GetSongSelect(&v) || int(v) != wA {
			return fmt.Sprintf("GetSongSelect gives %d (want %d) or refuses a nil destination", v, wA)
		}
		return ""
	}
	for mask := 0; mask < 8; mask++ {
		var ch, a, b uint8 = 0xEE, 0xEE, 0xEE
		var pc, pa, pb *uint8
		if mask&1 != 0 {
			pc = &ch
		}
		if mask&2 != 0 {
			pa = &a
		}
		if mask&4 != 0 {
			pb = &b
		}
		var ok bool
		two := false
		switch kind {
		case kNoteOn:
			ok = m.GetNoteOn(pc, pa, pb)
		case kNoteOff:
			ok = m.GetNoteOff(pc, pa, pb)
		case kPoly:
			ok = m.GetPolyAfterTouch(pc, pa, pb)
		case kCC:
			ok = m.GetControlChange(pc, pa, pb)
		case kProg:
			ok, two = m.GetProgramChange(pc, pa), true
		case kAfter:
			ok, two = m.GetAfterTouch(pc, pa), true
		default:
			return ""
		}
		if two && mask&4 != 0 {
			continue
		}
		if !ok {
			return fmt.Sprintf("accessor rejects its own message when called with nil-mask %03b", mask)
		}
		if (pc != nil && int(ch) != wCh) || (pa != nil && int(a) != wA) || (pb != nil && !two && int(b) != wB) {
			return fmt.Sprintf("with nil-mask %03b the accessor left a requested value unfilled or wrong: ch=%d a=%d b=%d, want %d %d %d", mask, ch, a, b, wCh, wA, wB)
		}
	}
	return ""
}

type loop struct{ l *ls.Loop }

func newLoop() *loop { return &loop{ls.NewLoop(ls.All(64))} }

// roundTrip sends m through the loopback and reports what arrived.
func (lp *loop) roundTrip(m midi.Message) ([]ls.Delivered, engine.Caught) {
	_, c := lp.l.Send(m)
	return lp.l.Take(), c
}

// loopbackOptions: one message of every constructor through the loopback under
// every combination of the listen options and sysex buffer sizes 0 (default),
// 1, 2, 3, 4 and 64: a channel-voice or system-common message is none of the
// classes an option switches off, so it must arrive unchanged under all of them.
func loopbackOptions() {
	msgs := []struct {
		name string
		m    midi.Message
	}{
		{"NoteOn", midi.NoteOn(3, 60, 100)}, {"NoteOff", midi.NoteOff(3, 60)}, {"NoteOffVelocity", midi.NoteOffVelocity(15, 127, 1)},
		{"PolyAfterTouch", midi.PolyAfterTouch(0, 1, 2)}, {"ControlChange", midi.ControlChange(9, 7, 127)},
		{"ProgramChange", midi.ProgramChange(2, 5)}, {"AfterTouch", midi.AfterTouch(2, 99)}, {"Pitchbend", midi.Pitchbend(1, -8192)},
		{"SPP", midi.SPP(4000)}, {"MTC", midi.MTC(0x35)}, {"SongSelect", midi.SongSelect(9)}, {"Tune", midi.Tune()},
	}
	for mask := 0; mask < 8; mask++ {
		for _, bs := range []uint32{0, 1, 2, 3, 4, 64} {
			for rev := 0; rev < 2; rev++ {
				o := ls.Options{SysEx: mask&1 != 0, TimeCode: mask&2 != 0, ActiveSense: mask&4 != 0, BufSize: bs, Reversed: rev == 1}
				l := ls.NewLoop(o)
				if l.Err != nil {
					report("loopback:options:listen-fails", "ListenTo", []int{mask, int(bs)}, nil, fmt.Sprintf("ListenTo with %s fails: %v", o, l.Err))
					continue
				}
				for _, x := range msgs {
					ctx.Eval()
					ctx.Add("loopback_option_sends", 1)
					_, c := l.Send(x.m)
					got := l.Take()
					switch {
					case c.Panicked:
						report(c.Sig+":loopback:options:"+x.name, x.name, []int{mask, int(bs)}, x.m, "Send panicked with "+o.String()+": "+c.Value)
						l = ls.NewLoop(o)
					case len(got) != 1 || !bytes.Equal(got[0].Msg, x.m):
						report("loopback:options:"+x.name, x.name, []int{mask, int(bs)}, x.m, fmt.Sprintf("with %s the message arrived as [%s]", o, ls.RenderDeliveries(got)))
					}
				}
			}
		}
	}
}

// loopbackSequences: every ordered triple of constructor results (one of each
// constructor, two notes on the same channel, real-time and a sysex among
// them) through one listener: each arrives with its value, whatever was sent
// before it.
func loopbackSequences() {
	msgs := []midi.Message{
		midi.NoteOn(3, 60, 100), midi.NoteOn(3, 62, 1), midi.NoteOff(3, 60), midi.PolyAfterTouch(0, 1, 2), midi.ControlChange(9, 7, 127),
		midi.ProgramChange(2, 5), midi.AfterTouch(2, 99), midi.Pitchbend(1, -8192),
		midi.SPP(4000), midi.MTC(0x35), midi.SongSelect(9), midi.Tune(), midi.TimingClock(), midi.SysEx([]byte{1, 2}),
	}
	for i := range msgs {
		for j := range msgs {
			for k := range msgs {
				l := ls.NewLoop(ls.All(64))
				ctx.Eval()
				for pos, x := range []int{i, j, k} {
					ctx.Add("loopback_sequence_sends", 1)
					_, c := l.Send(msgs[x])
					got := l.Take()
					if c.Panicked || len(got) != 1 || !bytes.Equal(got[0].Msg, msgs[x]) {
						sig := "loopback:sequence:" + midi.Message(msgs[x]).Type().String()
						if c.Panicked {
							sig = c.Sig + ":" + sig
						}
						report(sig, "sequence", []int{i, j, k, pos}, msgs[x], fmt.Sprintf("sent [% X] [% X] [% X] through one listener: message %d arrived as [%s] %s", []byte(msgs[i]), []byte(msgs[j]), []byte(msgs[k]), pos+1, ls.RenderDeliveries(got), c.Value))
						break
					}
				}
			}
		}
	}
}

// ownership: what a constructor returns belongs to the caller (no shared
// tables, no cached messages): the first result is overwritten in place, the
// constructor called again with the same arguments.
func ownership() {
	mk := []struct {
		name string
		f    func() []byte
	}{
		{"NoteOn", func() []byte { return midi.NoteOn(0, 0, 0) }}, {"NoteOn", func() []byte { return midi.NoteOn(15, 127, 127) }},
		{"NoteOff", func() []byte { return midi.NoteOff(0, 60) }}, {"NoteOffVelocity", func() []byte { return midi.NoteOffVelocity(1, 2, 3) }},
		{"PolyAfterTouch", func() []byte { return midi.PolyAfterTouch(0, 0, 0) }}, {"ControlChange", func() []byte { return midi.ControlChange(0, 0, 0) }},
		{"ControlChange", func() []byte { return midi.ControlChange(0, 123, 0) }}, {"ProgramChange", func() []byte { return midi.ProgramChange(0, 0) }},
		{"AfterTouch", func() []byte { return midi.AfterTouch(0, 0) }}, {"Pitchbend", func() []byte { return midi.Pitchbend(0, 0) }},
		{"SPP", func() []byte { return midi.SPP(0) }}, {"MTC", func() []byte { return midi.MTC(0) }}, {"SongSelect", func() []byte { return midi.SongSelect(0) }},
		{"Tune", func() []byte { return midi.Tune() }}, {"Start", func() []byte { return midi.Start() }}, {"Stop", func() []byte { return midi.Stop() }},
		{"Continue", func() []byte { return midi.Continue() }}, {"TimingClock", func() []byte { return midi.TimingClock() }},
		{"Activesense", func() []byte { return midi.Activesense() }}, {"Reset", func() []byte { return midi.Reset() }}, {"Tick", func() []byte { return midi.Tick() }},
	}
	for _, m := range mk {
		ctx.Eval()
		if d := engine.Owned(m.f); d != "" {
			report("constructor:result-not-owned:"+m.name, m.name, nil, m.f(), d)
		}
	}
}

func report(sig, ctor string, args []int, m midi.Message, what string) {
	if ctx.SigCount(sig) < 10 {
		ctx.Violation(sig, map[string]interface{}{"kind": "ctor", "constructor": ctor, "args": args, "bytes": engine.Hex(m), "what": what})
	}
}

// judge checks one constructed message. want == nil: only well-formedness
// (status, length, data bytes <= 127) is required (out-of-range system common).
func judge(lp *loop, kind int, ctor string, args []int, m midi.Message, want []byte, status byte, length int, wCh, wA, wB int, wRel int, wSPP int, send bool) {
	ctx.Eval()
	if ok, was, now := stable.Next(m); !ok {
		report("aliasing:"+ctor, ctor, args, was, "the message returned by the previous constructor call changed when this one was built: now "+engine.Hex(now))
	}
	region := "in-range"
	if want == nil {
		region = "out-of-range"
	}
	// well-formedness
	if len(m) != length || m[0] != status {
		report("wire:"+ctor+":layout:"+region, ctor, args, m, fmt.Sprintf("want status %02X and %d bytes", status, length))
		return
	}
	for _, d := range m[1:] {
		if d > 127 {
			report("wire:"+ctor+":data-byte-above-127:"+region, ctor, args, m, "data byte above 127")
			return
		}
	}
	if want != nil && !bytes.Equal(m, want) {
		report("wire:"+ctor+":encoding", ctor, args, m, "MIDI 1.0 prescribes "+engine.Hex(want))
		return
	}
	acc, ch, a, b, rel, abs, spp := accept(m)
	for k := 0; k < nKinds; k++ {
		if k == kind {
			continue
		}
		if acc[k] {
			report("accessor:"+ctor+":also-accepted-by-"+kindNames[k], ctor, args, m, "a foreign type-specific accessor accepts the message")
			return
		}
	}
	if kind == kTune {
		if !m.Is(midi.TuneMsg) {
			report("accessor:Tune:type", ctor, args, m, "tune request is not typed TuneMsg")
		}
	} else if !acc[kind] {
		report("accessor:"+ctor+":rejected-by-own-accessor", ctor, args, m, "matching accessor rejects the message")
		return
	}
	if want != nil {
		bad := false
		switch kind {
		case kNoteOn, kNoteOff, kPoly, kCC:
			bad = int(ch) != wCh || int(a) != wA || int(b) != wB
		case kProg, kAfter:
			bad = int(ch) != wCh || int(a) != wA
		case kBend:
			bad = int(ch) != wCh || int(rel) != wRel || int(abs) != wRel+8192
		case kMTC, kSong:
			bad = int(a) != wA
		case kSPP:
			bad = int(spp) != wSPP
		}
		if bad {
			report("accessor:"+ctor+":value", ctor, args, m, fmt.Sprintf("accessor returns ch=%d a=%d b=%d rel=%d abs=%d spp=%d", ch, a, b, rel, abs, spp))
			return
		}
	}
	if want != nil {
		nA := wA
		switch kind {
		case kBend:
			nA = wRel
		case kSPP:
			nA = wSPP
		}
		if w := nilArgs(m, kind, wCh, nA, wB); w != "" {
			report("accessor:"+ctor+":nil-arguments", ctor, args, m, w)
			return
		}
	}
	if send && lp != nil {
		got, c := lp.roundTrip(m)
		ctx.Add("loopback_sends", 1)
		if c.Panicked {
			report(c.Sig+":loopback:"+ctor, ctor, args, m, "loopback Send panicked: "+c.Value)
			lp.l = ls.NewLoop(ls.All(64))
			return
		}
		if len(got) != 1 || !bytes.Equal(got[0].Msg, m) {
			report("loopback:"+ctor+":"+region, ctor, args, m, "arrived as ["+ls.RenderDeliveries(got)+"]")
			return
		}
	}
}

func threeArg(lp *loop, chs, as, bs []int, sendAll bool) {
	for _, ch := range chs {
		for _, a := range as {
			for _, b := range bs {
				wc, wa, wb := int(clampCh(ch)), int(clamp7(a)), int(clamp7(b))
				args := []int{ch, a, b}
				send := sendAll
				judge(lp, kNoteOn, "NoteOn", args, midi.NoteOn(uint8(ch), uint8(a), uint8(b)), []byte{0x90 | byte(wc), byte(wa), byte(wb)}, 0x90|byte(wc), 3, wc, wa, wb, 0, 0, send)
				judge(lp, kNoteOff, "NoteOffVelocity", args, midi.NoteOffVelocity(uint8(ch), uint8(a), uint8(b)), []byte{0x80 | byte(wc), byte(wa), byte(wb)}, 0x80|byte(wc), 3, wc, wa, wb, 0, 0, send)
				judge(lp, kPoly, "PolyAfterTouch", args, midi.PolyAfterTouch(uint8(ch), uint8(a), uint8(b)), []byte{0xA0 | byte(wc), byte(wa), byte(wb)}, 0xA0|byte(wc), 3, wc, wa, wb, 0, 0, send)
				judge(lp, kCC, "ControlChange", args, midi.ControlChange(uint8(ch), uint8(a), uint8(b)), []byte{0xB0 | byte(wc), byte(wa), byte(wb)}, 0xB0|byte(wc), 3, wc, wa, wb, 0, 0, send)
			}
			wc, wa := int(clampCh(ch)), int(clamp7(a))
			judge(lp, kNoteOff, "NoteOff", []int{ch, a}, midi.NoteOff(uint8(ch), uint8(a)), []byte{0x80 | byte(wc), byte(wa), 0}, 0x80|byte(wc), 3, wc, wa, 0, 0, 0, sendAll)
		}
	}
}

func rng(lo, hi int) []int {
	var r []int
	for i := lo; i <= hi; i++ {
		r = append(r, i)
	}
	return r
}

func bend(lp *loop, ch int, sendEvery int) {
	wc := int(clampCh(ch))
	for v := -32768; v <= 32767; v++ {
		w := v
		if w > 8191 {
			w = 8191
		}
		if w < -8192 {
			w = -8192
		}
		u := w + 8192
		want := []byte{0xE0 | byte(wc), byte(u & 0x7F), byte(u >> 7)}
		judge(lp, kBend, "Pitchbend", []int{ch, v}, midi.Pitchbend(uint8(ch), int16(v)), want, 0xE0|byte(wc), 3, wc, 0, 0, w, 0, (v+32768)%sendEvery == 0)
	}
}

func main() {
	ctx = engine.Start("C07", "exploration")
	disturb.Install(ctx)
	if ctx.ReplayPath != "" {
		if cp.Replay(ctx, ctx.LoadReplay(), "constructors", cc.Ctors()) {
			ctx.Finish("replay")
		}
		replay()
		return
	}
	ctx.Assume("oracle: MIDI 1.0 status/data tables, 14-bit values least significant 7 bits first; channel-voice arguments clamp to the nearest legal value; out-of-range system common arguments only need to be well formed")
	oor := []int{128, 200, 255}
	all256 := rng(0, 255)
	in128 := rng(0, 127)
	thorough := ctx.Thorough()
	// three-argument constructors: sharded by channel argument
	var chArgs []int
	if thorough {
		chArgs = all256
	} else {
		chArgs = append(rng(0, 15), 16, 200, 255)
	}
	ctx.Jobs("concurrent", 1, func(int) {
		cp.Litmus(ctx)
		cp.Check(ctx, "constructors", cc.Ctors())
	})
	ctx.Jobs("three-arg", len(chArgs), func(j int) {
		lp := newLoop()
		ch := chArgs[j]
		if thorough {
			threeArg(lp, []int{ch}, all256, all256, ch < 16)
		} else {
			threeArg(lp, []int{ch}, in128, in128, ch < 16 && ch%5 == 0)
			threeArg(lp, []int{ch}, oor, append(append([]int{}, in128...), oor...), true)
			threeArg(lp, []int{ch}, in128, oor, true)
		}
	})
	// two-argument constructors: all 256 x 256
	ctx.Jobs("two-arg", 16, func(j int) {
		lp := newLoop()
		for ch := j * 16; ch < j*16+16; ch++ {
			for a := 0; a < 256; a++ {
				wc, wa := int(clampCh(ch)), int(clamp7(a))
				judge(lp, kProg, "ProgramChange", []int{ch, a}, midi.ProgramChange(uint8(ch), uint8(a)), []byte{0xC0 | byte(wc), byte(wa)}, 0xC0|byte(wc), 2, wc, wa, 0, 0, 0, true)
				judge(lp, kAfter, "AfterTouch", []int{ch, a}, midi.AfterTouch(uint8(ch), uint8(a)), []byte{0xD0 | byte(wc), byte(wa)}, 0xD0|byte(wc), 2, wc, wa, 0, 0, 0, true)
			}
		}
	})
	// pitch bend: channel x all 65536 values
	var bendCh []int
	if thorough {
		bendCh = all256
	} else {
		bendCh = append(rng(0, 15), 16, 255)
	}
	ctx.Jobs("pitchbend", len(bendCh), func(j int) {
		lp := newLoop()
		bend(lp, bendCh[j], ctx.Pick(16, 1))
	})
	// system common
	ctx.Jobs("loopback-options", 1, func(int) { loopbackOptions(); ownership(); loopbackSequences() })
	if !ctx.IsChild() {
		ctx.RacePairs("constructors")
	}
	ctx.Jobs("syscommon", 4, func(j int) {
		lp := newLoop()
		for p := j; p < 65536; p += 4 {
			m := midi.SPP(uint16(p))
			if p <= 16383 {
				judge(lp, kSPP, "SPP", []int{p}, m, []byte{0xF2, byte(p & 0x7F), byte(p >> 7)}, 0xF2, 3, 0, 0, 0, 0, p, true)
			} else {
				judge(lp, kSPP, "SPP", []int{p}, m, nil, 0xF2, 3, 0, 0, 0, 0, 0, p%16 == 0)
			}
		}
		if j == 0 {
			for v := 0; v < 256; v++ {
				if v <= 127 {
					judge(lp, kMTC, "MTC", []int{v}, midi.MTC(uint8(v)), []byte{0xF1, byte(v)}, 0xF1, 2, 0, v, 0, 0, 0, true)
					judge(lp, kSong, "SongSelect", []int{v}, midi.SongSelect(uint8(v)), []byte{0xF3, byte(v)}, 0xF3, 2, 0, v, 0, 0, 0, true)
				} else {
					judge(lp, kMTC, "MTC", []int{v}, midi.MTC(uint8(v)), nil, 0xF1, 2, 0, 0, 0, 0, 0, true)
					judge(lp, kSong, "SongSelect", []int{v}, midi.SongSelect(uint8(v)), nil, 0xF3, 2, 0, 0, 0, 0, 0, true)
				}
			}
			judge(lp, kTune, "Tune", nil, midi.Tune(), []byte{0xF6}, 0xF6, 1, 0, 0, 0, 0, 0, true)
		}
	})
	ctx.NontrivialN(ctx.GetInt("loopback_sends"))
	ctx.Sample(map[string]interface{}{"constructor": "Pitchbend(200, -9000)", "expect": "EF 00 00 (channel and value clamped), GetPitchBend gives 15, -8192, 0"})
	ctx.Sample(map[string]interface{}{"constructor": "SPP(4000)", "expect": "F2 20 1F (LSB first), GetSPP gives 4000, loopback delivers the same bytes"})
	ctx.Guard(ctx.GetInt("loopback_sends") > 10000, "loopback hardly used")
	ctx.Finish("complete enumeration of constructor argument domains (thorough: all 256^3 for the three-argument constructors, all 256 x 65536 pitch bends; quick: all in-range values plus out-of-range boundaries {128,200,255}/{16,200,255}); all 256^2 ProgramChange/AfterTouch, all 65536 SPP, all 256 MTC/SongSelect; non-trivial = messages additionally sent through the loopback and compared on arrival")
}

func replay() {
	m := ctx.LoadReplay()
	fmt.Println("constructor case:", m["constructor"], m["args"], "bytes", m["bytes"], "-", m["what"])
	fmt.Println("re-run ./run C07 quick to re-evaluate (cases are pure functions of their arguments)")
}
