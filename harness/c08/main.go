// C08 — message classification is total, unambiguous and consistent with the
// accessors.
//
// All byte strings of length 0..3 (16.8 million) as midi.Message and as
// smf.Message; all strings of length 4..6 over a 12-byte alphabet; for
// smf.Message all FF-type-length-payload shapes and every meta constructor
// output. Checked: nothing panics; exactly one category; at most one
// type-specific accessor accepts, and only if Type() is that accessor's type.
package main

import (
	"fmt"
	"strings"

	"gitlab.com/gomidi/midi/v2"
	cc "gitlab.com/gomidi/midi/v2/internal/verifh/conccases"
	cp "gitlab.com/gomidi/midi/v2/internal/verifh/concpairs"
	"gitlab.com/gomidi/midi/v2/internal/verifh/disturb"
	"gitlab.com/gomidi/midi/v2/internal/verifh/engine"
	"gitlab.com/gomidi/midi/v2/smf"
)

var ctx *engine.Ctx

type acc struct {
	name string
	typ  midi.Type
	ok   bool
}

func midiAccessors(m midi.Message) []acc {
	var c, a, b uint8
	var rel int16
	var abs, spp uint16
	var bt []byte
	return []acc{
		{"GetNoteOn", midi.NoteOnMsg, m.GetNoteOn(&c, &a, &b)},
		{"GetNoteOff", midi.NoteOffMsg, m.GetNoteOff(&c, &a, &b)},
		{"GetPolyAfterTouch", midi.PolyAfterTouchMsg, m.GetPolyAfterTouch(&c, &a, &b)},
		{"GetControlChange", midi.ControlChangeMsg, m.GetControlChange(&c, &a, &b)},
		{"GetProgramChange", midi.ProgramChangeMsg, m.GetProgramChange(&c, &a)},
		{"GetAfterTouch", midi.AfterTouchMsg, m.GetAfterTouch(&c, &a)},
		{"GetPitchBend", midi.PitchBendMsg, m.GetPitchBend(&c, &rel, &abs)},
		{"GetMTC", midi.MTCMsg, m.GetMTC(&a)},
		{"GetSongSelect", midi.SongSelectMsg, m.GetSongSelect(&a)},
		{"GetSPP", midi.SPPMsg, m.GetSPP(&spp)},
		{"GetSysEx", midi.SysExMsg, m.GetSysEx(&bt)},
	}
}

func smfAccessors(m smf.Message) []acc {
	var c, a, b, d, e uint8
	var rel int16
	var abs, u16 uint16
	var bt []byte
	var s string
	var f float64
	var maj, flat bool
	var k smf.Key
	out := []acc{
		{"GetNoteOn", midi.NoteOnMsg, m.GetNoteOn(&c, &a, &b)},
		{"GetNoteOff", midi.NoteOffMsg, m.GetNoteOff(&c, &a, &b)},
		{"GetPolyAfterTouch", midi.PolyAfterTouchMsg, m.GetPolyAfterTouch(&c, &a, &b)},
		{"GetControlChange", midi.ControlChangeMsg, m.GetControlChange(&c, &a, &b)},
		{"GetProgramChange", midi.ProgramChangeMsg, m.GetProgramChange(&c, &a)},
		{"GetAfterTouch", midi.AfterTouchMsg, m.GetAfterTouch(&c, &a)},
		{"GetPitchBend", midi.PitchBendMsg, m.GetPitchBend(&c, &rel, &abs)},
		{"GetSysEx", midi.SysExMsg, m.GetSysEx(&bt)},
		{"GetMetaChannel", smf.MetaChannelMsg, m.GetMetaChannel(&a)},
		{"GetMetaPort", smf.MetaPortMsg, m.GetMetaPort(&a)},
		{"GetMetaSeqNumber", smf.MetaSeqNumberMsg, m.GetMetaSeqNumber(&u16)},
		{"GetMetaSeqData", smf.MetaSeqDataMsg, m.GetMetaSeqData(&bt)},
		{"GetMetaKeySig", smf.MetaKeySigMsg, m.GetMetaKeySig(&a, &b, &maj, &flat)},
		{"GetMetaSMPTEOffsetMsg", smf.MetaSMPTEOffsetMsg, m.GetMetaSMPTEOffsetMsg(&a, &b, &c, &d, &e)},
		{"GetMetaTimeSig", smf.MetaTimeSigMsg, m.GetMetaTimeSig(&a, &b, &c, &d)},
		{"GetMetaTempo", smf.MetaTempoMsg, m.GetMetaTempo(&f)},
		{"GetMetaLyric", smf.MetaLyricMsg, m.GetMetaLyric(&s)},
		{"GetMetaCopyright", smf.MetaCopyrightMsg, m.GetMetaCopyright(&s)},
		{"GetMetaCuepoint", smf.MetaCuepointMsg, m.GetMetaCuepoint(&s)},
		{"GetMetaDevice", smf.MetaDeviceMsg, m.GetMetaDevice(&s)},
		{"GetMetaInstrument", smf.MetaInstrumentMsg, m.GetMetaInstrument(&s)},
		{"GetMetaMarker", smf.MetaMarkerMsg, m.GetMetaMarker(&s)},
		{"GetMetaProgramName", smf.MetaProgramNameMsg, m.GetMetaProgramName(&s)},
		{"GetMetaText", smf.MetaTextMsg, m.GetMetaText(&s)},
		{"GetMetaTrackName", smf.MetaTrackNameMsg, m.GetMetaTrackName(&s)},
	}
	// wrappers must agree with their base accessor
	if m.GetMetaMeter(&a, &b) != out[14].ok {
		out = append(out, acc{"GetMetaMeter-vs-GetMetaTimeSig", midi.UnknownMsg, true})
	}
	if m.GetMetaKey(&k) != out[12].ok {
		out = append(out, acc{"GetMetaKey-vs-GetMetaKeySig", midi.UnknownMsg, true})
	}
	return out
}

func report(sig, flavour string, b []byte, what string) {
	if ctx.SigCount(sig) < 10 {
		ctx.Violation(sig, map[string]interface{}{"kind": "bytes", "flavour": flavour, "message": engine.Hex(b), "what": what})
	}
}

var derived = 0

func judgeMidi(b []byte) {
	m := midi.Message(b)
	var t midi.Type
	var cats [5]bool
	var accs []acc
	c := engine.Catch(func() {
		t = m.Type()
		cats = [5]bool{m.Is(midi.ChannelMsg), m.Is(midi.SysCommonMsg), m.Is(midi.RealTimeMsg), m.Is(midi.SysExMsg), m.Is(midi.UnknownMsg)}
		_ = m.IsPlayable()
		_ = m.IsOneOf(midi.NoteOnMsg, midi.ChannelMsg)
		_ = m.String()
		var ch, k, v uint8
		m.GetNoteStart(&ch, &k, &v)
		m.GetNoteEnd(&ch, &k)
		m.GetChannel(&ch)
		accs = midiAccessors(m)
	})
	ctx.Eval()
	if c.Panicked {
		report(c.Sig+":midi.Message", "midi", b, "panicked: "+c.Value)
		return
	}
	n := 0
	for _, x := range cats {
		if x {
			n++
		}
	}
	if n != 1 {
		report("category:midi:count", "midi", b, fmt.Sprintf("belongs to %d categories %v (type %s)", n, cats, t))
		return
	}
	if len(b) > 0 && b[0] == 0xFF && !cats[2] {
		report("category:midi:FF-not-reset", "midi", b, "leading FF is not a real-time reset for midi.Message")
	}
	// membership asked through IsOneOf agrees with membership asked through Is
	mcats := []midi.Type{midi.ChannelMsg, midi.SysCommonMsg, midi.RealTimeMsg, midi.SysExMsg, midi.UnknownMsg}
	for i, ct := range mcats {
		if m.IsOneOf(ct) != cats[i] {
			report("category:midi:IsOneOf-disagrees-with-Is", "midi", b, fmt.Sprintf("Is(%s)=%v but IsOneOf(%s)=%v", ct, cats[i], ct, !cats[i]))
			return
		}
	}
	if !m.IsOneOf(mcats...) || m.IsOneOf() || m.IsOneOf(t) != m.Is(t) || m.IsOneOf(midi.UnknownMsg, t) != (m.Is(t) || cats[4]) {
		report("category:midi:IsOneOf-disagrees-with-Is", "midi", b, fmt.Sprintf("type %s: IsOneOf(all five categories)=%v, IsOneOf()=%v, IsOneOf(own type)=%v, Is(own type)=%v", t, m.IsOneOf(mcats...), m.IsOneOf(), m.IsOneOf(t), m.Is(t)))
		return
	}
	judgeAcc("midi", b, t, accs)
}

func judgeAcc(flavour string, b []byte, t midi.Type, accs []acc) {
	n := 0
	for _, a := range accs {
		if !a.ok {
			continue
		}
		n++
		if a.typ == midi.UnknownMsg {
			report("accessor:"+flavour+":"+a.name, flavour, b, "wrapper and base accessor disagree")
			return
		}
		if t != a.typ {
			report("accessor:"+flavour+":"+a.name+":type-mismatch", flavour, b, fmt.Sprintf("%s accepts but Type() is %s", a.name, t))
			return
		}
	}
	if n > 1 {
		names := ""
		for _, a := range accs {
			if a.ok {
				names += a.name + " "
			}
		}
		report("accessor:"+flavour+":ambiguous", flavour, b, "accepted by "+names)
	}
	if n == 1 {
		derived++
	}
}

var smfCatsOrig = []midi.Type{smf.MetaMsg, smf.MetaTextMsg, midi.ChannelMsg, smf.MetaTempoMsg, midi.SysExMsg, midi.NoteOnMsg}
var smfCats = append(make([]midi.Type, 0, 16), smfCatsOrig...)

func judgeSMF(b []byte) {
	m := smf.Message(b)
	// the checkers are handed over from slices of the caller's that are used
	// again and again, meta kinds in front (arguments belong to the caller;
	// the answer must be that of asking one by one)
	{
		want := false
		for _, t := range smfCats {
			want = want || m.Is(t)
		}
		var got bool
		c := engine.Catch(func() { got = m.IsOneOf(smfCats...) })
		if c.Panicked {
			report(c.Sig+":smf.Message.IsOneOf", "smf", b, "panicked: "+c.Value)
			return
		}
		for k := range smfCats {
			if smfCats[k] != smfCatsOrig[k] {
				report("category:smf:IsOneOf-changes-its-arguments", "smf", b, fmt.Sprintf("the slice of types passed to IsOneOf was changed: %v, was %v", smfCats, smfCatsOrig))
				copy(smfCats, smfCatsOrig)
				return
			}
		}
		if got != want {
			report("category:smf:IsOneOf-disagrees-with-Is", "smf", b, fmt.Sprintf("IsOneOf(%v)=%v, asking one by one gives %v", smfCats, got, want))
			return
		}
	}
	var t midi.Type
	var cats [6]bool
	var accs []acc
	c := engine.Catch(func() {
		t = m.Type()
		cats = [6]bool{m.Is(midi.ChannelMsg), m.Is(midi.SysCommonMsg), m.Is(midi.RealTimeMsg), m.Is(midi.SysExMsg), m.Is(midi.UnknownMsg), m.Is(smf.MetaMsg)}
		_ = m.IsPlayable()
		_ = m.IsMeta()
		_ = m.IsOneOf(smf.MetaTempoMsg, smf.MetaMsg)
		_ = m.String()
		var ch, k, v uint8
		m.GetNoteStart(&ch, &k, &v)
		m.GetNoteEnd(&ch, &k)
		m.GetChannel(&ch)
		accs = smfAccessors(m)
	})
	ctx.Eval()
	if c.Panicked {
		report(c.Sig+":smf.Message", "smf", b, "panicked: "+c.Value)
		return
	}
	n := 0
	for _, x := range cats {
		if x {
			n++
		}
	}
	if n != 1 {
		report("category:smf:count", "smf", b, fmt.Sprintf("belongs to %d categories %v (type %s)", n, cats, t))
		return
	}
	if len(b) > 0 && b[0] == 0xFF {
		if cats[2] {
			report("category:smf:FF-is-realtime", "smf", b, "leading FF classified as real-time for smf.Message")
		}
		if m.IsPlayable() {
			report("category:smf:meta-playable", "smf", b, "a message with leading FF is playable")
		}
	}
	scats := []midi.Type{midi.ChannelMsg, midi.SysCommonMsg, midi.RealTimeMsg, midi.SysExMsg, midi.UnknownMsg, smf.MetaMsg}
	for i, ct := range scats {
		if m.IsOneOf(ct) != cats[i] {
			report("category:smf:IsOneOf-disagrees-with-Is", "smf", b, fmt.Sprintf("Is(%s)=%v but IsOneOf(%s)=%v", ct, cats[i], ct, !cats[i]))
			return
		}
	}
	if !m.IsOneOf(scats...) || m.IsOneOf() || m.IsOneOf(t) != m.Is(t) {
		report("category:smf:IsOneOf-disagrees-with-Is", "smf", b, fmt.Sprintf("type %s: IsOneOf(all six categories)=%v, IsOneOf()=%v, IsOneOf(own type)=%v, Is(own type)=%v", t, m.IsOneOf(scats...), m.IsOneOf(), m.IsOneOf(t), m.Is(t)))
		return
	}
	judgeAcc("smf", b, t, accs)
}

var alpha12 = []byte{0x00, 0x02, 0x03, 0x7F, 0x80, 0x90, 0xC0, 0xF0, 0xF2, 0xF7, 0xFF, 0x51}

func short(first int) {
	b := []byte{byte(first), 0, 0}
	if first == 0 {
		judgeMidi(nil)
		judgeSMF(nil)
	}
	// (three-index slices: no spare capacity behind the message, so that a
	// slice expression reaching past its end fails as it would on a literal)
	judgeMidi(b[:1:1])
	judgeSMF(b[:1:1])
	for x := 0; x < 256; x++ {
		b[1] = byte(x)
		judgeMidi(b[:2:2])
		judgeSMF(b[:2:2])
		for y := 0; y < 256; y++ {
			b[2] = byte(y)
			judgeMidi(b[:3:3])
			judgeSMF(b[:3:3])
		}
	}
	ctx.NontrivialN(int64(derived))
}

func long(first int) {
	maxLen := ctx.Pick(6, 7)
	b := make([]byte, maxLen)
	b[0] = alpha12[first]
	var rec func(n, l int)
	rec = func(n, l int) {
		if n == l {
			if l >= 5 && b[0] == 0xFF && b[2]&0x80 != 0 && b[3]&0x80 != 0 && b[4]&0x80 != 0 {
				// a declared payload length of 2^21 or more: String() on a text meta
				// would allocate that much; memory use is not C08's subject
				ctx.Add("skipped_declared_length_above_2^21", 1)
				return
			}
			judgeMidi(b[:l:l])
			judgeSMF(b[:l:l])
			return
		}
		for _, x := range alpha12 {
			b[n] = x
			rec(n+1, l)
		}
	}
	for l := 4; l <= maxLen; l++ {
		rec(1, l)
	}
	ctx.NontrivialN(int64(derived))
}

// sysexAlpha: identifiers that mean something in universal and manufacturer
// sysex (non-realtime / realtime universal, broadcast, sub-ids of the common
// messages, Roland, its GS model, Yamaha, its XG model, device 0x10, DT1).
var sysexAlpha = []byte{0x00, 0x01, 0x02, 0x04, 0x06, 0x09, 0x7E, 0x7F, 0x41, 0x42, 0x43, 0x4C, 0x10, 0x12}

// sysexSpace: every F0 <body> F7 and F0 <body> with bodies of 0..5 (thorough
// 0..6) bytes over sysexAlpha, without spare capacity; plus the sysex messages
// everybody sends (GM/GS/XG resets, master volume, identity request and reply,
// MTC full frame, MMC stop/locate, sample dump header), each cut and extended
// by up to three bytes.
func sysexSpace(part, parts int) {
	maxBody := ctx.Pick(5, 6)
	k := 0
	for l := 0; l <= maxBody; l++ {
		idx := make([]int, l)
		for {
			k++
			if k%parts == part {
				b := make([]byte, 0, l+2)
				b = append(b, 0xF0)
				for _, i := range idx {
					b = append(b, sysexAlpha[i])
				}
				judgeMidi(b[: l+1 : l+1])
				judgeSMF(b[: l+1 : l+1])
				b = append(b, 0xF7)
				judgeMidi(b)
				judgeSMF(b)
				ctx.Add("sysex_strings", 2)
			}
			i := l - 1
			for i >= 0 {
				idx[i]++
				if idx[i] < len(sysexAlpha) {
					break
				}
				idx[i] = 0
				i--
			}
			if i < 0 {
				break
			}
		}
	}
	// every length: F0, n data bytes (n = 0..1100, thorough ..20000; three
	// contents), with and without the closing F7 (whatever is shown of a long
	// message is cut or copied somewhere)
	maxN := ctx.Pick(1100, 20000)
	for n := part; n <= maxN; n += parts {
		for _, fill := range []int{0x00, 0x7F, -1} {
			b := make([]byte, 0, n+2)
			b = append(b, 0xF0)
			for i := 0; i < n; i++ {
				if fill < 0 {
					b = append(b, byte(i*11+n)&0x7F)
				} else {
					b = append(b, byte(fill))
				}
			}
			judgeMidi(b[:n+1 : n+1])
			judgeSMF(b[:n+1 : n+1])
			b = append(b, 0xF7)
			judgeMidi(b)
			judgeSMF(b)
			ctx.Add("sysex_lengths", 2)
		}
	}
	if part != 0 {
		return
	}
	known := []string{
		"F0 7E 7F 09 01 F7", "F0 7E 7F 09 02 F7", "F0 7E 7F 09 03 F7",
		"F0 41 10 42 12 40 00 7F 00 41 F7", "F0 41 10 42 12 00 00 7F 00 01 F7",
		"F0 43 10 4C 00 00 7E 00 F7", "F0 43 10 4C 08 00 07 7F F7",
		"F0 7F 7F 04 01 00 7F F7", "F0 7F 7F 04 02 00 40 F7",
		"F0 7E 7F 06 01 F7", "F0 7E 00 06 02 41 2B 02 00 00 00 01 00 00 F7", "F0 7E 10 06 02 00 20 29 02 00 00 00 01 00 00 F7",
		"F0 7F 7F 01 01 01 02 03 04 F7", "F0 7F 00 01 01 61 3B 3B 1D F7", "F0 7F 7F 01 02 00 00 00 00 00 F7",
		"F0 7F 7F 06 01 F7", "F0 7F 7F 06 02 F7", "F0 7F 7F 06 44 06 01 21 00 00 00 00 F7", "F0 7F 10 07 01 02 F7",
		"F0 7E 00 01 00 00 0E 10 27 00 00 00 00 00 00 00 00 00 00 7F F7",
		"F0 7E 7F 7C 00 F7", "F0 7E 7F 7F 00 F7", "F0 7F 7F 03 02 04 04 18 08 F7", "F0 7F 7F 08 02 00 01 3C 3C 00 00 F7",
		"F0 00 20 29 02 0C 0E 01 F7", "F0 00 00 0E 00 41 F7", "F0 47 7F 15 60 00 04 41 09 00 05 F7",
	}
	for _, h := range known {
		full := engine.UnHex(h)
		for cut := 0; cut <= 3 && cut < len(full)-1; cut++ {
			body := full[: len(full)-1-cut : len(full)-1-cut]
			v := make([]byte, len(body)+1)
			copy(v, body)
			v[len(body)] = 0xF7
			for _, m := range [][]byte{v, body} {
				judgeMidi(m[:len(m):len(m)])
				judgeSMF(m[:len(m):len(m)])
			}
		}
		for ext := 1; ext <= 3; ext++ {
			v := make([]byte, 0, len(full)+ext)
			v = append(v, full[:len(full)-1]...)
			for i := 0; i < ext; i++ {
				v = append(v, byte(i))
			}
			v = append(v, 0xF7)
			judgeMidi(v)
			judgeSMF(v)
		}
		// every single byte of the message replaced by each of a few values
		for p := 1; p < len(full)-1; p++ {
			for _, x := range []byte{0x00, 0x01, 0x7F, 0x41, 0x43} {
				v := make([]byte, len(full))
				copy(v, full)
				v[p] = x
				judgeMidi(v)
				judgeSMF(v)
			}
		}
		ctx.Add("known_sysex", 1)
	}
}

func metaShapes(part int) {
	lens := []byte{0, 1, 2, 3, 4, 5, 0x7F, 0x80, 0x81}
	for t := part * 16; t < part*16+16; t++ {
		for _, l := range lens {
			for pl := 0; pl <= 8; pl++ {
				b := []byte{0xFF, byte(t), l}
				for i := 0; i < pl; i++ {
					b = append(b, byte(0x10*i+t))
				}
				judgeSMF(b)
				judgeMidi(b)
				// payload of all FF / all 00
				for _, fill := range []byte{0x00, 0xFF} {
					bb := []byte{0xFF, byte(t), l}
					for i := 0; i < pl; i++ {
						bb = append(bb, fill)
					}
					judgeSMF(bb)
				}
			}
		}
	}
	ctx.NontrivialN(int64(derived))
}

// metaValues: well-formed meta events with every combination of boundary
// bytes as payload: all 65536 two-byte payloads for every type, and for the
// types with a fixed layout (tempo 3, time signature 4, SMPTE offset 5,
// sequence number 2, key signature 2) every payload over 13 boundary bytes.
func metaValues(part, parts int) {
	for t := part; t < 128; t += parts {
		b := []byte{0xFF, byte(t), 2, 0, 0}
		for x := 0; x < 256; x++ {
			for y := 0; y < 256; y++ {
				b[3], b[4] = byte(x), byte(y)
				judgeSMF(b)
			}
		}
		b1 := []byte{0xFF, byte(t), 1, 0}
		for x := 0; x < 256; x++ {
			b1[3] = byte(x)
			judgeSMF(b1)
		}
	}
	edge := []byte{0x00, 0x01, 0x02, 0x07, 0x08, 0x09, 0x0B, 0x0C, 0x7F, 0x80, 0xF9, 0xFE, 0xFF}
	n := 0
	for _, tl := range [][2]byte{{0x51, 3}, {0x58, 4}, {0x54, 5}} {
		idx := make([]int, tl[1])
		rad := make([]int, tl[1])
		for i := range rad {
			rad[i] = len(edge)
		}
		for {
			n++
			if n%parts == part {
				b := []byte{0xFF, tl[0], tl[1]}
				for _, i := range idx {
					b = append(b, edge[i])
				}
				judgeSMF(b)
			}
			if !engine.Odometer(idx, rad) {
				break
			}
		}
	}
}

// longLengthFields: meta messages whose length field has up to 12
// continuation bytes (no constructor or reader produces them; the accessors
// must still not panic), with and without payload.
func longLengthFields() {
	conts := [][]byte{{0x80}, {0x81}, {0xFF}, {0x80, 0xFF}}
	for _, typ := range []byte{0x00, 0x01, 0x03, 0x05, 0x09, 0x20, 0x2F, 0x51, 0x54, 0x58, 0x59, 0x60, 0x7F} {
		for k := 0; k <= 12; k++ {
			for _, cp := range conts {
				for _, term := range []byte{0x00, 0x01, 0x05, 0x7F} {
					for _, pl := range []int{0, 1, 5} {
						if k >= 3 && typ >= 0x01 && typ <= 0x09 && (cp[0] != 0x80 || len(cp) > 1) {
							continue // would declare (and make String allocate) 2^21 bytes or more
						}
						b := []byte{0xFF, typ}
						for i := 0; i < k; i++ {
							b = append(b, cp[i%len(cp)])
						}
						b = append(b, term)
						for i := 0; i < pl; i++ {
							b = append(b, byte(0x41+i))
						}
						judgeSMF(b)
						judgeMidi(b)
					}
				}
			}
			// a one followed by zero digits: 2^(7k), which is 0 modulo 2^32 from k = 5 on
			// (small for a 32-bit decoder, astronomically large or negative for a wider one)
			if k == 1 || k == 2 || k >= 5 {
				for _, pl := range []int{0, 1, 5} {
					b := []byte{0xFF, typ, 0x81}
					for i := 1; i < k; i++ {
						b = append(b, 0x80)
					}
					b = append(b, 0x00)
					for i := 0; i < pl; i++ {
						b = append(b, byte(0x41+i))
					}
					judgeSMF(b)
					judgeMidi(b)
				}
			}
		}
	}
	ctx.NontrivialN(int64(derived))
}

// textContents: for every text-carrying meta type, every value of the first
// two payload bytes (byte-order marks, status-like bytes, NUL, high bit ...)
// with payloads of 2..5 bytes, well-formed length field.
func textContents(part, parts int) {
	types := []byte{0x01, 0x02, 0x03, 0x04, 0x05, 0x06, 0x07, 0x08, 0x09, 0x7F}
	for a := part; a < 256; a += parts {
		for b := 0; b < 256; b++ {
			for _, typ := range types {
				for n := 2; n <= 5; n++ {
					m := []byte{0xFF, typ, byte(n), byte(a), byte(b)}
					for i := 2; i < n; i++ {
						m = append(m, byte(0x61+i))
					}
					judgeSMF(m)
				}
			}
		}
	}
	ctx.NontrivialN(int64(derived))
}

func constructed() {
	texts := []string{"", "a", string(make([]byte, 127)), string(make([]byte, 128)), string(make([]byte, 20000))}
	// texts of 1..90 characters in alphabets whose characters take two, three
	// and four bytes, mixed ones, ASCII of every length to 300, and sequences
	// that are cut inside a character or are no UTF-8 at all (lengths in bytes
	// and in characters differ; whatever is shown shortened is cut somewhere)
	for _, unit := range []string{"я", "日", "𝄞", "aя日𝄞", "é ", "\xff", "\xe6\x97", "a\xf0\x9d\x84"} {
		for n := 1; n <= 90; n++ {
			texts = append(texts, strings.Repeat(unit, n))
		}
	}
	for n := 2; n <= 300; n++ {
		texts = append(texts, strings.Repeat("lyric text ", n/11+1)[:n])
	}
	var ms []smf.Message
	for _, s := range texts {
		ms = append(ms, smf.MetaLyric(s), smf.MetaCopyright(s), smf.MetaCuepoint(s), smf.MetaDevice(s), smf.MetaInstrument(s), smf.MetaMarker(s),
			smf.MetaProgram(s), smf.MetaText(s), smf.MetaTrackSequenceName(s), smf.MetaSequencerData([]byte(s)), smf.MetaUndefined(0x60, []byte(s)), smf.MetaUndefined(0x01, []byte(s)))
	}
	for v := 0; v < 256; v++ {
		ms = append(ms, smf.MetaChannel(uint8(v)), smf.MetaPort(uint8(v)), smf.MetaSequenceNo(uint16(v*257)), smf.MetaSMPTE(uint8(v), 1, 2, 3, uint8(v)),
			smf.MetaTimeSig(uint8(v), 4, 24, 8), smf.MetaMeter(3, uint8(v)), smf.MetaKey(uint8(v), v%2 == 0, uint8(v%8), v%3 == 0), smf.MetaTempo(float64(v)+0.5))
	}
	ms = append(ms, smf.EOT, smf.CMaj(), smf.EbMin(), smf.MetaTempo(0), smf.MetaTempo(1e12))
	for _, m := range ms {
		judgeSMF(m)
	}
	ctx.Add("constructed_meta_messages", int64(len(ms)))
	ctx.NontrivialN(int64(derived))
}

func main() {
	ctx = engine.Start("C08", "exploration")
	disturb.Install(ctx)
	if ctx.ReplayPath != "" {
		if cp.Replay(ctx, ctx.LoadReplay(), "classification", cc.Classify()) {
			ctx.Finish("replay")
		}
		m := ctx.LoadReplay()
		b := engine.UnHex(m["message"].(string))
		if m["flavour"] == "midi" {
			judgeMidi(b)
		} else {
			judgeSMF(b)
		}
		ctx.Finish("replay")
	}
	ctx.Assume("non-nil out-parameters are passed (the statement is about byte strings, not argument handling)")
	ctx.Assume("categories are tested through Is(category); GetNoteStart/GetNoteEnd/GetChannel are derived views and only required not to panic")
	ctx.Jobs("concurrent", 1, func(int) {
		cp.Litmus(ctx)
		cp.Check(ctx, "classification", cc.Classify())
	})
	ctx.Jobs("short", 256, func(j int) { short(j) })
	ctx.Jobs("long", len(alpha12), func(j int) { long(j) })
	ctx.Jobs("sysex", 16, func(j int) { sysexSpace(j, 16) })
	ctx.Jobs("meta-shapes", 16, func(j int) { metaShapes(j) })
	ctx.Jobs("meta-values", 16, func(j int) { metaValues(j, 16) })
	ctx.Jobs("constructed", 1, func(int) { constructed() })
	ctx.Jobs("long-length-fields", 1, func(int) { longLengthFields() })
	ctx.Jobs("text-contents", 16, func(j int) { textContents(j, 16) })
	if !ctx.IsChild() {
		ctx.RacePairs("classify")
	}
	ctx.Sample(map[string]interface{}{"bytes": "FF 51 03", "as": "smf.Message", "expect": "meta tempo type, GetMetaTempo must not panic on the missing payload"})
	ctx.Sample(map[string]interface{}{"bytes": "F2 01", "as": "midi.Message", "expect": "system common; GetSPP rejects (length), no other accessor accepts"})
	ctx.Guard(ctx.NontrivialCount() > 100000, "too few strings accepted by exactly one accessor: %d", ctx.NontrivialCount())
	ctx.Finish("all byte strings of length 0..3 (16,843,009) as midi.Message and as smf.Message; all strings of length 4..6/7 over a 12-byte alphabet; FF x 256 types x 9 length bytes x payload lengths 0..8 x 3 fillings; outputs of the meta constructors; non-trivial = strings accepted by exactly one type-specific accessor")
}
