// C09 — SMF reading does not depend on how the source delivers its bytes.
//
// For every file of a family of valid files (and truncations of the smallest):
// every single split point, every pair of split points (triples in the
// thorough tier for small files), one and two bytes per call, each with and
// without the final fragment arriving together with io.EOF; the result must
// equal reading the same bytes from memory (same value or same kind of failure).
package main

import (
	"bufio"
	"bytes"
	"fmt"
	"io"
	"os"
	"reflect"
	"sort"
	"strings"
	"syscall"
	"time"

	"gitlab.com/gomidi/midi/v2/internal/verifh/disturb"
	"gitlab.com/gomidi/midi/v2/internal/verifh/engine"
	"gitlab.com/gomidi/midi/v2/internal/verifh/faultio"
	"gitlab.com/gomidi/midi/v2/internal/verifh/refsmf"
	"gitlab.com/gomidi/midi/v2/internal/verifh/smfgen"
	sp "gitlab.com/gomidi/midi/v2/internal/verifh/smfspace"
	"gitlab.com/gomidi/midi/v2/smf"
)

var ctx *engine.Ctx

type result struct {
	kind   string // none | missing | other | panic
	format uint16
	tf     string
	tracks [][]string
	sig    string
}

func summarize(s *smf.SMF, err error, c engine.Caught) result {
	var r result
	switch {
	case c.Panicked:
		r.kind = "panic"
		r.sig = c.Sig
		return r
	case err == smf.ErrMissing:
		r.kind = "missing"
		return r
	case err != nil:
		r.kind = "other"
		return r
	}
	r.kind = "none"
	r.format = s.Format()
	if s.TimeFormat != nil {
		r.tf = s.TimeFormat.String()
	}
	for _, t := range s.Tracks {
		var l []string
		for _, e := range sp.FromTrack(t) {
			l = append(l, fmt.Sprintf("%d:%x", e.Delta, e.Msg))
		}
		r.tracks = append(r.tracks, l)
	}
	return r
}

func readMem(data []byte) result {
	var s *smf.SMF
	var err error
	c := engine.Catch(func() { s, err = smf.ReadFrom(bytes.NewReader(data)) })
	return summarize(s, err, c)
}

// field names the field a cut at offset p falls into (signature feature).
func field(data []byte, p int) string {
	switch {
	case p < 4:
		return "magic"
	case p < 8:
		return "header-length"
	case p < 14:
		return "header-field"
	}
	// walk chunks
	pos := 14
	for pos+8 <= len(data) {
		ln := int(data[pos+4])<<24 | int(data[pos+5])<<16 | int(data[pos+6])<<8 | int(data[pos+7])
		if p < pos+4 {
			return "chunk-type"
		}
		if p < pos+8 {
			return "chunk-length"
		}
		if p < pos+8+ln {
			if string(data[pos:pos+4]) != "MTrk" {
				return "alien-body"
			}
			return "track-data"
		}
		pos += 8 + ln
	}
	return "tail"
}

func one(data []byte, want result, cuts []int, maxPer int, eofWith bool, label string) {
	fr := &faultio.FragReader{Data: data, Cuts: cuts, EOFWithData: eofWith, MaxPerCall: maxPer}
	var s *smf.SMF
	var err error
	c := engine.Catch(func() { s, err = smf.ReadFrom(fr) })
	got := summarize(s, err, c)
	ctx.Eval()
	if fr.SplitFields > 0 {
		ctx.NontrivialN(1)
	}
	if reflect.DeepEqual(got, want) {
		if len(cuts) <= 1 {
			otherEntries(data, want, cuts, maxPer, eofWith, label)
		}
		return
	}
	feature := "bytewise"
	if len(cuts) > 0 {
		feature = "first-cut-in=" + field(data, cuts[0])
	} else if maxPer == 0 && eofWith {
		feature = "eof-with-data"
	}
	sig := "fragment:" + want.kind + "->" + got.kind + ":" + feature
	if got.kind == "panic" {
		sig = got.sig + ":" + feature
	}
	if ctx.SigCount(sig) < 10 {
		ctx.Violation(sig, map[string]interface{}{"kind": "frag", "file": engine.Hex(data), "cuts": cuts, "max_per_call": maxPer, "eof_with_data": eofWith, "family": label,
			"what": fmt.Sprintf("reading from memory gives %s, fragmented gives %s", want.kind, got.kind)})
	}
}

// reusedSource: one reader object serves a file that ends at some offset and
// is then given a second, complete file (bytes.Reader.Reset, a bytes.Buffer
// refilled): the second file reads as it does from a fresh reader.
func reusedSource(files [][]byte, names []string) {
	for i := 0; i+1 < len(files) && i < 40; i++ {
		a, b := files[i], files[i+1]
		want := readMem(b)
		for cut := 0; cut <= len(a); cut += 3 {
			for kind := 0; kind < 2; kind++ {
				var s *smf.SMF
				var err error
				var c engine.Caught
				if kind == 0 {
					rd := bytes.NewReader(a[:cut])
					engine.Catch(func() { smf.ReadFrom(rd) })
					rd.Reset(b)
					c = engine.Catch(func() { s, err = smf.ReadFrom(rd) })
				} else {
					var buf bytes.Buffer
					buf.Write(a[:cut])
					engine.Catch(func() { smf.ReadFrom(&buf) })
					buf.Reset()
					buf.Write(b)
					c = engine.Catch(func() { s, err = smf.ReadFrom(&buf) })
				}
				ctx.Eval()
				ctx.Add("reused_source_reads", 1)
				if got := summarize(s, err, c); !reflect.DeepEqual(got, want) {
					if ctx.SigCount("reused-source:"+want.kind+"->"+got.kind) < 5 {
						ctx.Violation("reused-source:"+want.kind+"->"+got.kind, map[string]interface{}{"kind": "reused-source", "first": engine.Hex(a[:cut]), "file": engine.Hex(b), "family": names[i+1],
							"what": fmt.Sprintf("a reader object that had served %d bytes of another file before: %s, from a fresh reader %s", cut, got.kind, want.kind)})
					}
				}
			}
		}
	}
}

// fmtLogger builds the text a real logger would build and throws it away.
type fmtLogger struct{ n int }

func (l *fmtLogger) Printf(format string, vals ...interface{}) {
	l.n += len(fmt.Sprintf(format, vals...))
}

// trResult: what the track iterator says about a source.
type trResult struct {
	kind   string
	hasSMF bool
	file   result
}

func summarizeTR(tr *smf.TracksReader, c engine.Caught) trResult {
	var r trResult
	if c.Panicked {
		r.kind = "panic:" + c.Sig
		return r
	}
	if tr == nil {
		r.kind = "nil"
		return r
	}
	err := tr.Error()
	r.kind = "none"
	if err == smf.ErrMissing {
		r.kind = "missing"
	} else if err != nil {
		r.kind = "other"
	}
	if s := tr.SMF(); s != nil {
		r.hasSMF = true
		r.file = summarize(s, nil, engine.Caught{})
	}
	return r
}

var trCache = map[string]trResult{}

// otherEntries: the same fragmentation through the other ways into the
// reader - ReadFrom with the logging option, and the track iterator
// ReadTracksFrom - each against its own result from memory.
func otherEntries(data []byte, want result, cuts []int, maxPer int, eofWith bool, label string) {
	rep := func(sig, what string) {
		if ctx.SigCount(sig) < 10 {
			ctx.Violation(sig, map[string]interface{}{"kind": "frag", "file": engine.Hex(data), "cuts": cuts, "max_per_call": maxPer, "eof_with_data": eofWith, "family": label, "what": what})
		}
	}
	fr := &faultio.FragReader{Data: data, Cuts: cuts, EOFWithData: eofWith, MaxPerCall: maxPer}
	var s *smf.SMF
	var err error
	c := engine.Catch(func() { s, err = smf.ReadFrom(fr, smf.Log(&fmtLogger{})) })
	ctx.Eval()
	if got := summarize(s, err, c); !reflect.DeepEqual(got, want) {
		rep("fragment:with-logging:"+want.kind+"->"+got.kind, fmt.Sprintf("reading from memory gives %s, fragmented and with the logging option %s", want.kind, got.kind))
		return
	}
	key := string(data)
	wtr, ok := trCache[key]
	if !ok {
		if len(trCache) > 4 {
			trCache = map[string]trResult{}
		}
		var tr *smf.TracksReader
		c := engine.Catch(func() { tr = smf.ReadTracksFrom(bytes.NewReader(data)) })
		wtr = summarizeTR(tr, c)
		trCache[key] = wtr
	}
	fr = &faultio.FragReader{Data: data, Cuts: cuts, EOFWithData: eofWith, MaxPerCall: maxPer}
	var tr *smf.TracksReader
	c = engine.Catch(func() { tr = smf.ReadTracksFrom(fr) })
	ctx.Eval()
	if got := summarizeTR(tr, c); !reflect.DeepEqual(got, wtr) {
		rep("fragment:ReadTracksFrom:"+wtr.kind+"->"+got.kind, fmt.Sprintf("ReadTracksFrom from memory: error kind %s, file present %v; fragmented: error kind %s, file present %v (or other content)", wtr.kind, wtr.hasSMF, got.kind, got.hasSMF))
	}
}

// zeroReads: a reader that answers one Read call with (0, nil) - at every
// offset - or every other call; "nothing happened" must not change the result.
func zeroReads(data []byte, want result, label string) {
	try := func(fr *faultio.FragReader, feature string, at int) {
		var s *smf.SMF
		var err error
		c := engine.Catch(func() { s, err = smf.ReadFrom(fr) })
		got := summarize(s, err, c)
		ctx.Eval()
		if fr.Zeros > 0 {
			ctx.NontrivialN(1)
		}
		if reflect.DeepEqual(got, want) {
			return
		}
		sig := "zero-read:" + want.kind + "->" + got.kind + ":" + feature
		if got.kind == "panic" {
			sig = got.sig + ":zero-read:" + feature
		}
		if ctx.SigCount(sig) < 10 {
			ctx.Violation(sig, map[string]interface{}{"kind": "zero-read", "file": engine.Hex(data), "zero_at": at, "family": label,
				"what": fmt.Sprintf("reading from memory gives %s; from a reader that once returns (0, nil) at offset %d (-1: every other call) it gives %s", want.kind, at, got.kind)})
		}
	}
	try(&faultio.FragReader{Data: data, ZeroEvery: true}, "every-other-call", -1)
	try(&faultio.FragReader{Data: data, ZeroEvery: true, MaxPerCall: 1}, "every-other-call", -1)
	for a := 0; a < len(data); a++ {
		if len(data) > 6000 && a%7 != 0 && a > 64 && a < len(data)-64 {
			continue
		}
		try(&faultio.FragReader{Data: data, ZeroAt: a + 1}, "once-in="+field(data, a), a)
	}
}

// pipeSource: the bytes come out of an os.Pipe (an *os.File that has a Seek
// method but cannot seek) fed by another goroutine in two pieces.
func pipeSource(data []byte, want result, label string) {
	pr, pw, err := os.Pipe()
	if err != nil {
		return
	}
	go func() {
		h := len(data) / 2
		pw.Write(data[:h])
		pw.Write(data[h:])
		pw.Close()
	}()
	var s *smf.SMF
	var rerr error
	c := engine.Catch(func() { s, rerr = smf.ReadFrom(pr) })
	io.Copy(io.Discard, pr) // let the writer finish
	pr.Close()
	got := summarize(s, rerr, c)
	ctx.Eval()
	if reflect.DeepEqual(got, want) {
		return
	}
	sig := "pipe:" + want.kind + "->" + got.kind
	if got.kind == "panic" {
		sig = got.sig + ":pipe"
	}
	if ctx.SigCount(sig) < 10 {
		ctx.Violation(sig, map[string]interface{}{"kind": "pipe", "file": engine.Hex(data), "family": label,
			"what": fmt.Sprintf("reading from memory gives %s, reading the same bytes from an os.Pipe gives %s", want.kind, got.kind)})
	}
}

// fifoSource: the bytes come out of a named pipe in the file system and are
// read with smf.ReadFile (a path whose size the file system does not know; the
// writer delivers in two pieces). Only for inputs that are valid files: what
// ReadFile makes of broken ones is not compared here.
var fifoN int

func fifoSource(data []byte, want result, label string) {
	if want.kind != "none" || os.Getenv("VERIF_WORK") == "" {
		return
	}
	fifoN++
	path := fmt.Sprintf("%s/c09-fifo-%d-%d", os.Getenv("VERIF_WORK"), os.Getpid(), fifoN)
	os.Remove(path)
	if err := syscall.Mkfifo(path, 0o600); err != nil {
		ctx.Add("fifo_not_available", 1)
		return
	}
	defer os.Remove(path)
	wrote := make(chan struct{})
	go func() {
		defer close(wrote)
		w, err := os.OpenFile(path, os.O_WRONLY, 0) // waits for the reader
		if err != nil {
			return
		}
		h := len(data) / 2
		w.Write(data[:h])
		w.Write(data[h:])
		w.Close()
	}()
	done := make(chan result, 1)
	go func() {
		var s *smf.SMF
		var rerr error
		c := engine.Catch(func() { s, rerr = smf.ReadFile(path) })
		done <- summarize(s, rerr, c)
	}()
	var got result
	select {
	case got = <-done:
	case <-time.After(60 * time.Second):
		ctx.NotExhaustive("ReadFile on a named pipe did not return within 60 s (" + label + ")")
		return
	}
	// a reader that never opened the pipe leaves the writer waiting: let it go
	if r, err := os.OpenFile(path, os.O_RDONLY|syscall.O_NONBLOCK, 0); err == nil {
		<-wrote
		r.Close()
	}
	ctx.Eval()
	ctx.Add("fifo_reads", 1)
	if reflect.DeepEqual(got, want) {
		return
	}
	sig := "fifo:" + want.kind + "->" + got.kind
	if got.kind == "panic" {
		sig = got.sig + ":fifo"
	}
	if ctx.SigCount(sig) < 10 {
		ctx.Violation(sig, map[string]interface{}{"kind": "fifo", "file": engine.Hex(data), "family": label,
			"what": fmt.Sprintf("reading from memory gives %s, smf.ReadFile on a named pipe that delivers the same bytes gives %s", want.kind, got.kind)})
	}
}

// offsetSources: the file sits behind a prefix in a seekable source that is
// positioned at the file's first byte when it is handed over (a bytes.Reader,
// an io.SectionReader inside a larger one, an os.File).
func offsetSources(data []byte, want result, label string) {
	prefix := []byte("RIFF....RMIDdata....garbage")
	all := append(append([]byte{}, prefix...), data...)
	try := func(kind string, src io.Reader) {
		var s *smf.SMF
		var err error
		c := engine.Catch(func() { s, err = smf.ReadFrom(src) })
		got := summarize(s, err, c)
		ctx.Eval()
		if reflect.DeepEqual(got, want) {
			return
		}
		sig := "offset-source:" + kind + ":" + want.kind + "->" + got.kind
		if got.kind == "panic" {
			sig = got.sig + ":offset-source:" + kind
		}
		if ctx.SigCount(sig) < 10 {
			ctx.Violation(sig, map[string]interface{}{"kind": "offset-source", "file": engine.Hex(data), "family": label,
				"what": fmt.Sprintf("reading from memory gives %s; from a %s positioned behind a %d-byte prefix it gives %s", want.kind, kind, len(prefix), got.kind)})
		}
	}
	br := bytes.NewReader(all)
	br.Seek(int64(len(prefix)), io.SeekStart)
	try("bytes.Reader", br)
	try("io.SectionReader", io.NewSectionReader(bytes.NewReader(all), int64(len(prefix)), int64(len(data))))
	if f, err := os.CreateTemp(os.Getenv("VERIF_WORK"), "c09-offset-*.bin"); err == nil {
		f.Write(all)
		f.Seek(int64(len(prefix)), io.SeekStart)
		try("os.File", f)
		f.Close()
		os.Remove(f.Name())
	}
}

// wrapped: sources that deliver half of every request, and buffered readers of
// several sizes over whole, half and seven-byte sources.
func wrapped(data []byte, want result, label string) {
	try := func(kind string, src io.Reader) {
		var s *smf.SMF
		var err error
		c := engine.Catch(func() { s, err = smf.ReadFrom(src) })
		got := summarize(s, err, c)
		ctx.Eval()
		if reflect.DeepEqual(got, want) {
			return
		}
		sig := "wrapped-source:" + kind + ":" + want.kind + "->" + got.kind
		if got.kind == "panic" {
			sig = got.sig + ":wrapped-source:" + kind
		}
		if ctx.SigCount(sig) < 10 {
			ctx.Violation(sig, map[string]interface{}{"kind": "wrapped", "file": engine.Hex(data), "family": label,
				"what": fmt.Sprintf("reading from memory gives %s, reading through %s gives %s", want.kind, kind, got.kind)})
		}
	}
	// a complete file (all announced tracks there, the last one ended): nothing
	// behind its last byte is needed, so a source that has no end of file to
	// offer there (a connection that is reset after the transfer) reads the same
	if n := len(want.tracks); want.kind == "none" && len(data) >= 14 && n > 0 && n == int(data[10])<<8|int(data[11]) &&
		len(want.tracks[n-1]) > 0 && strings.HasSuffix(want.tracks[n-1][len(want.tracks[n-1])-1], ":ff2f00") {
		try("complete-file-then-error", &faultio.FragReader{Data: data, FinalErr: faultio.ErrInjected})
		try("complete-file-then-error-7-byte-reader", &faultio.FragReader{Data: data, FinalErr: faultio.ErrInjected, MaxPerCall: 7})
		ctx.Add("complete_then_error_files", 1)
	}
	try("half-reader", &faultio.FragReader{Data: data, Half: true})
	try("half-reader+eof-with-data", &faultio.FragReader{Data: data, Half: true, EOFWithData: true})
	for _, size := range []int{16, 17, 64, 4096} {
		try(fmt.Sprintf("bufio-%d", size), bufio.NewReaderSize(bytes.NewReader(data), size))
		try(fmt.Sprintf("bufio-%d-over-half-reader", size), bufio.NewReaderSize(&faultio.FragReader{Data: data, Half: true}, size))
		try(fmt.Sprintf("bufio-%d-over-7-byte-reader", size), bufio.NewReaderSize(&faultio.FragReader{Data: data, MaxPerCall: 7}, size))
	}
}

func fragmentations(data []byte, label string, pairs, triples, quads bool) {
	want := readMem(data)
	ctx.Add("files", 1)
	zeroReads(data, want, label)
	wrapped(data, want, label)
	if len(data) < 60000 {
		pipeSource(data, want, label)
		fifoSource(data, want, label)
		offsetSources(data, want, label)
	}
	for _, eof := range []bool{false, true} {
		one(data, want, nil, 0, eof, label)
		for _, per := range []int{1, 2, 3, 7, 100, 101, 1000, 4095, 4096, 4097} {
			if per < len(data) {
				one(data, want, nil, per, eof, label)
			}
		}
		for a := 1; a < len(data); a++ {
			if len(data) > 6000 && a%7 != 0 && a%4096 > 2 && a%4096 < 4094 && a > 64 && a < len(data)-64 {
				continue // very long payloads: every 7th offset, and all offsets around block boundaries and both ends
			}
			one(data, want, []int{a}, 0, eof, label)
			if !pairs {
				continue
			}
			for b := a + 1; b < len(data); b++ {
				one(data, want, []int{a, b}, 0, eof, label)
				if !triples {
					continue
				}
				for c := b + 1; c < len(data); c++ {
					one(data, want, []int{a, b, c}, 0, eof, label)
					if !quads {
						continue
					}
					for d := c + 1; d < len(data); d++ {
						one(data, want, []int{a, b, c, d}, 0, eof, label)
					}
				}
			}
		}
	}
}

func family() (files [][]byte, names []string) {
	toks := smfgen.Tokens()
	dls := smfgen.Deltas()
	base := smfgen.BaseShape()
	add := func(seq []smfgen.Timed, sh smfgen.Shape, name string) {
		body, evs, ok := smfgen.Track(seq, &dls[0])
		if !ok {
			return
		}
		f, _ := smfgen.File(sh, body, evs)
		files = append(files, f)
		names = append(names, name)
	}
	// files with a time code division, one and two tracks, formats 0, 1, 2
	for _, sh := range []smfgen.Shape{
		{Name: "fmt0/1trk/smpte25", Format: 0, NTracks: 1, Division: 0xE728},
		{Name: "fmt1/2trk/smpte30", Format: 1, NTracks: 2, Division: 0xE250, SeqTrack: 1},
		{Name: "fmt2/2trk/smpte24", Format: 2, NTracks: 2, Division: 0xE804},
		{Name: "fmt1/2trk/div480", Format: 1, NTracks: 2, Division: 480},
	} {
		add([]smfgen.Timed{{T: &toks[0], D: &dls[1]}, {T: &toks[2], D: &dls[0]}}, sh, "shape:"+sh.Name)
	}
	for i := range toks {
		add([]smfgen.Timed{{T: &toks[i], D: &dls[0]}}, base, "1:"+toks[i].Name)
		add([]smfgen.Timed{{T: &toks[0], D: &dls[1]}, {T: &toks[i], D: &dls[2]}}, base, "2:"+toks[i].Name)
		for k := 0; k < len(toks); k += 5 {
			add([]smfgen.Timed{{T: &toks[i], D: &dls[0]}, {T: &toks[k], D: &dls[0]}, {T: &toks[1], D: &dls[0]}}, base, "3:"+toks[i].Name+","+toks[k].Name)
		}
	}
	// two events with payloads of different lengths after one another (a reader
	// that keeps a buffer between events has something left over from the first)
	var pay []int
	for i := range toks {
		if !toks[i].Channel {
			pay = append(pay, i)
		}
	}
	for _, a := range pay {
		for _, b := range pay {
			if a != b && (len(toks[a].Raw) > 40) != (len(toks[b].Raw) > 40) {
				add([]smfgen.Timed{{T: &toks[a], D: &dls[0]}, {T: &toks[b], D: &dls[1]}, {T: &toks[0], D: &dls[0]}}, base, "pair:"+toks[a].Name+","+toks[b].Name)
			}
		}
	}
	shapes := smfgen.Shapes(false)
	for i := 0; i < len(shapes); i += 3 {
		add([]smfgen.Timed{{T: &toks[0], D: &dls[0]}, {T: &toks[4], D: &dls[1]}}, shapes[i], shapes[i].Name)
	}
	// long payloads (beyond the 4096-byte block size), in a plain and in a shaped file
	lb, le := smfgen.LongSweep()
	two := smfgen.Shape{Name: "fmt1/2trk/alien", Format: 1, NTracks: 2, Division: 480, SeqTrack: 0, Aliens: []smfgen.Alien{{Before: 1, Type: "XFIH", Body: make([]byte, 5000)}}}
	for i := range lb {
		f, _ := smfgen.File(base, lb[i], le[i])
		files = append(files, f)
		names = append(names, fmt.Sprintf("long%d", len(lb[i])))
		if i%5 == 0 {
			f, _ := smfgen.File(two, lb[i], le[i])
			files = append(files, f)
			names = append(names, fmt.Sprintf("long%d+alien5000", len(lb[i])))
		}
	}
	return
}

func main() {
	ctx = engine.Start("C09", "fault_enumeration")
	disturb.Install(ctx)
	if ctx.ReplayPath != "" {
		replay()
		return
	}
	ctx.Assume("fragmenting readers return at least one byte or an error per call; zero-byte reads (0, nil) - allowed by the io.Reader contract, not to be taken for end of file - are a family of their own: once at every offset, and every other call")
	ctx.Assume("'same kind of failure' is compared coarsely: none / ErrMissing / other error")
	files, names := family()
	// the ten smallest get every truncation as additional inputs
	idx := make([]int, len(files))
	for i := range idx {
		idx[i] = i
	}
	sort.SliceStable(idx, func(a, b int) bool { return len(files[idx[a]]) < len(files[idx[b]]) })
	type in struct {
		data  []byte
		label string
	}
	var inputs []in
	for i, f := range files {
		inputs = append(inputs, in{f, names[i]})
	}
	for _, i := range idx[:10] {
		for p := 1; p < len(files[i]); p++ {
			inputs = append(inputs, in{files[i][:p], fmt.Sprintf("trunc%d:%s", p, names[i])})
		}
	}
	// every truncation of every single-event file (sysex packets, escapes, long
	// lengths: a cut inside any kind of payload, with every kind of reader)
	ten := map[int]bool{}
	for _, i := range idx[:10] {
		ten[i] = true
	}
	for i, f := range files {
		if ten[i] || !strings.HasPrefix(names[i], "1:") || len(f) > 300 {
			continue
		}
		for p := 15; p < len(f); p++ {
			if len(f) > 80 && p > 40 && p < len(f)-12 && p%16 != 0 {
				continue // long payloads: the edges and every 16th offset
			}
			inputs = append(inputs, in{f[:p], fmt.Sprintf("trunc%d:%s", p, names[i])})
		}
	}
	// variable-length quantities of five and six bytes (more than the format
	// allows) as delta time and as length of a meta and of a sysex event
	hd := refsmf.Header(0, 1, 96)
	for ni, vl := range [][]byte{{0x81, 0x80, 0x80, 0x80, 0x00}, {0x80, 0x80, 0x80, 0x80, 0x03}, {0x8F, 0xFF, 0xFF, 0xFF, 0x7F}, {0x80, 0x80, 0x80, 0x80, 0x80, 0x03}} {
		asDelta := append(append([]byte{}, vl...), 0x90, 0x3C, 0x40, 0x00, 0xFF, 0x2F, 0x00)
		asMetaLen := append(append([]byte{0x00, 0xFF, 0x01}, vl...), 'a', 'b', 'c', 0x00, 0xFF, 0x2F, 0x00)
		asSysexLen := append(append([]byte{0x00, 0xF0}, vl...), 0x01, 0x02, 0xF7, 0x00, 0xFF, 0x2F, 0x00)
		for ki, body := range [][]byte{asDelta, asMetaLen, asSysexLen} {
			inputs = append(inputs, in{append(append([]byte{}, hd...), refsmf.Chunk("MTrk", body)...), fmt.Sprintf("long-vlq-%d-%d", ni, ki)})
		}
	}
	// chunks that declare more bytes than their events take (bytes after the
	// end-of-track inside the chunk), in the last and in an earlier track; an
	// SMF inside a RIFF "RMID" container; a file preceded by a few stray bytes
	{
		ev := []byte{0x00, 0x90, 0x3C, 0x40, 0x10, 0x80, 0x3C, 0x00, 0x00, 0xFF, 0x2F, 0x00}
		ev2 := []byte{0x00, 0xC1, 0x05, 0x00, 0xFF, 0x2F, 0x00}
		trk := func(body []byte) []byte { return refsmf.Chunk("MTrk", body) }
		cat := func(parts ...[]byte) []byte {
			var o []byte
			for _, p := range parts {
				o = append(o, p...)
			}
			return o
		}
		for _, pad := range [][]byte{{0}, {0, 0, 0, 0}, {0x00, 0x90, 0x3C}, make([]byte, 600)} {
			padded := cat(ev, pad)
			inputs = append(inputs,
				in{cat(refsmf.Header(0, 1, 96), trk(padded)), fmt.Sprintf("padded-last-track-%d", len(pad))},
				in{cat(refsmf.Header(1, 2, 96), trk(padded), trk(ev2)), fmt.Sprintf("padded-first-of-two-%d", len(pad))},
				in{cat(refsmf.Header(1, 3, 96), trk(ev2), trk(padded), trk(ev)), fmt.Sprintf("padded-middle-of-three-%d", len(pad))})
		}
		// a header that declares no track (the reader takes chunks until the data
		// ends) followed by a track and the first 1..7 bytes of another chunk header
		for _, typ := range []string{"MTrk", "XFIH"} {
			hd8 := append([]byte(typ), 0, 0, 0, 4)
			for n := 1; n <= 7; n++ {
				inputs = append(inputs, in{cat(refsmf.Header(1, 0, 96), trk(ev), hd8[:n]), fmt.Sprintf("no-track-declared+%d-bytes-of-a-%s-header", n, typ)})
				inputs = append(inputs, in{cat(refsmf.Header(1, 2, 96), trk(ev), hd8[:n]), fmt.Sprintf("two-declared-one-present+%d-bytes-of-a-%s-header", n, typ)})
			}
		}
		plain := cat(refsmf.Header(0, 1, 96), trk(ev))
		riff := []byte("RIFF\x00\x00\x00\x00RMIDdata\x00\x00\x00\x00")
		riff[4] = byte(len(plain) + 12)
		riff[16] = byte(len(plain))
		inputs = append(inputs, in{cat(riff, plain), "rmid-container"}, in{cat([]byte{0x00, 0x00}, plain), "two-bytes-before-header"},
			in{cat([]byte("MThd"), plain), "magic-twice"})
	}
	// inputs that are not valid files (the result must still not depend on the
	// fragmentation): a header chunk longer than 6 bytes; more tracks declared
	// than present combined with every kind of last byte
	al16 := []byte{0x00, 0x01, 0x03, 0x2F, 0x40, 0x51, 0x7F, 0x80, 0x81, 0x90, 0xC0, 0xF0, 0xF1, 0xF7, 0xF8, 0xFF}
	for _, i := range idx[:4] {
		f := files[i]
		for extra := 1; extra <= 4; extra++ {
			g := append([]byte{}, f[:8]...)
			g[7] = byte(6 + extra)
			g = append(g, f[8:14]...)
			for k := 0; k < extra; k++ {
				g = append(g, byte(0x10+k))
			}
			g = append(g, f[14:]...)
			inputs = append(inputs, in{g, fmt.Sprintf("header-len-%d:%s", 6+extra, names[i])})
		}
		if i < 12 {
			// header fields no reader supports (format 3, 255, 0x0100; a division of 0):
			// refused from memory, refused however the bytes arrive
			for _, hv := range [][3]int{{9, 3, -1}, {9, 255, -1}, {8, 1, -1}, {12, 0, 13}} {
				g := append([]byte{}, f...)
				g[hv[0]] = byte(hv[1])
				if hv[2] >= 0 {
					g[hv[2]] = 0
				}
				inputs = append(inputs, in{g, fmt.Sprintf("header-byte-%d=%d:%s", hv[0], hv[1], names[i])})
			}
		}
		for _, last := range al16 {
			for _, cut := range []int{0, 1, 3, 4} {
				if len(f)-cut < 20 {
					continue
				}
				g := append([]byte{}, f[:len(f)-cut]...)
				g[11]++ // one more track declared than present
				g = append(g, last)
				inputs = append(inputs, in{g, fmt.Sprintf("missing-track+tail-%02X-cut%d:%s", last, cut, names[i])})
			}
		}
	}
	pairLimit := ctx.Pick(120, 1200)
	tripleLimit := ctx.Pick(36, 100)
	quadLimit := ctx.Pick(30, 44)
	ctx.Jobs("frag", len(inputs), func(j int) {
		d := inputs[j].data
		fragmentations(d, inputs[j].label, len(d) <= pairLimit, len(d) <= tripleLimit, len(d) <= quadLimit)
	})
	if !ctx.IsChild() {
		reusedSource(files, names)
	}
	ctx.Set("valid_files", len(files))
	ctx.Set("truncated_inputs", len(inputs)-len(files))
	ctx.Sample(map[string]interface{}{"file": names[3], "fragmentation": "cuts at offsets {5, 17}, final fragment with io.EOF"})
	ctx.Sample(map[string]interface{}{"file": names[0], "fragmentation": "one byte per Read call"})
	ctx.Guard(ctx.NontrivialCount() > 1000, "too few fragmentations that split a multi-byte read: %d", ctx.NontrivialCount())
	ctx.Finish("for every input (valid family files and every truncation of the ten smallest): all single cuts, all pairs of cuts (inputs <= 120 bytes; thorough <= 1200), triples (<= 36; thorough <= 100), quadruples (<= 30; thorough <= 44), 1/2/3 bytes per call, each with and without data+EOF; non-trivial = fragmentations in which at least one Read returned fewer bytes than the library asked for")
}

func replay() {
	m := ctx.LoadReplay()
	data := engine.UnHex(m["file"].(string))
	var cuts []int
	if l, ok := m["cuts"].([]interface{}); ok {
		for _, c := range l {
			cuts = append(cuts, int(c.(float64)))
		}
	}
	want := readMem(data)
	if m["kind"] == "wrapped" {
		wrapped(data, want, "replay")
		ctx.Finish("replay")
	}
	if m["kind"] == "offset-source" {
		offsetSources(data, want, "replay")
		ctx.Finish("replay")
	}
	if m["kind"] == "reused-source" {
		fs, ns := family()
		reusedSource(fs, ns)
		ctx.Finish("replay")
	}
	if m["kind"] == "fifo" {
		fifoSource(data, want, "replay")
		ctx.Finish("replay")
	}
	if m["kind"] == "pipe" {
		pipeSource(data, want, "replay")
		ctx.Finish("replay")
	}
	if m["kind"] == "zero-read" {
		zeroReads(data, want, "replay")
		ctx.Finish("replay")
	}
	mp := 0
	if v, ok := m["max_per_call"].(float64); ok {
		mp = int(v)
	}
	eof, _ := m["eof_with_data"].(bool)
	one(data, want, cuts, mp, eof, "replay")
	ctx.Finish("replay")
}
