// C10 — I/O failures are reported, never swallowed.
//
// For a family of SMF values (built through the API, 1..3 tracks, with and
// without running status): the destination fails at every byte offset of the
// output in two ways (short write + error; error at call granularity) —
// WriteTo must return an error iff the fault fired, otherwise nil and the exact
// size. For the same bytes as input: a sticky non-EOF error from every offset
// on — if the error was returned to the library at least once, ReadFrom must
// return an error.
package main

import (
	"bytes"
	"fmt"
	"io"
	"io/fs"
	"os"

	"gitlab.com/gomidi/midi/v2"
	"gitlab.com/gomidi/midi/v2/drivers/testdrv"
	"gitlab.com/gomidi/midi/v2/internal/verifh/disturb"
	"gitlab.com/gomidi/midi/v2/internal/verifh/engine"
	"gitlab.com/gomidi/midi/v2/internal/verifh/faultio"
	"gitlab.com/gomidi/midi/v2/internal/verifh/refsmf"
	"gitlab.com/gomidi/midi/v2/internal/verifh/smfgen"
	sp "gitlab.com/gomidi/midi/v2/internal/verifh/smfspace"
	"gitlab.com/gomidi/midi/v2/smf"
)

var ctx *engine.Ctx

type valueSpec struct {
	cfg sp.Cfg
	ops []sp.Op
}

// values: small API-built files, every message class once, 1..3 tracks.
func values() []valueSpec {
	al := sp.FullAlphabet()
	var out []valueSpec
	cfgs := []sp.Cfg{
		{Ctor: 0, NoRS: false, TF: smf.MetricTicks(96)},
		{Ctor: 0, NoRS: true, TF: smf.MetricTicks(96)},
		{Ctor: 1, NoRS: false, TF: smf.SMPTE25(40)},
	}
	for _, cfg := range cfgs {
		for m := range al {
			// one track: [m, NoteOn0b] closed
			out = append(out, valueSpec{cfg, []sp.Op{{Kind: sp.OpAdd, D: 0, M1: m}, {Kind: sp.OpAdd, D: 1, M1: 1}, {Kind: sp.OpClose, D: 0}, {Kind: sp.OpSMFAdd}}})
			// two tracks: [NoteOn0a NoteOn0b] open, [m] closed
			out = append(out, valueSpec{cfg, []sp.Op{{Kind: sp.OpAdd, D: 0, M1: 0}, {Kind: sp.OpAdd, D: 128, M1: 1}, {Kind: sp.OpSMFAdd},
				{Kind: sp.OpAdd, D: 0, M1: m}, {Kind: sp.OpClose, D: 2}, {Kind: sp.OpSMFAdd}}})
		}
		for m := 0; m < len(al); m += 3 {
			// three tracks
			out = append(out, valueSpec{cfg, []sp.Op{{Kind: sp.OpAdd, D: 0, M1: 9}, {Kind: sp.OpSMFAdd},
				{Kind: sp.OpAdd, D: 0, M1: m}, {Kind: sp.OpAdd, D: 0, M1: (m + 1) % len(al)}, {Kind: sp.OpSMFAdd},
				{Kind: sp.OpClose, D: 0}, {Kind: sp.OpSMFAdd}}})
		}
	}
	// large tracks (a chunk body of several kilobytes): one long sysex, many
	// small events, a large first track followed by a small one
	big := len(al) // indices of extra messages appended by bigAlphabet
	cfg := sp.Cfg{Ctor: 0, NoRS: false, TF: smf.MetricTicks(96)}
	out = append(out, valueSpec{cfg, []sp.Op{{Kind: sp.OpAdd, D: 0, M1: 0}, {Kind: sp.OpAdd, D: 1, M1: big}, {Kind: sp.OpClose, D: 0}, {Kind: sp.OpSMFAdd}}})
	var many []sp.Op
	for i := 0; i < 1500; i++ {
		many = append(many, sp.Op{Kind: sp.OpAdd, D: uint32(i % 3), M1: i % 3})
	}
	many = append(many, sp.Op{Kind: sp.OpSMFAdd})
	out = append(out, valueSpec{cfg, many})
	out = append(out, valueSpec{sp.Cfg{Ctor: 1, NoRS: true, TF: smf.MetricTicks(96)}, []sp.Op{{Kind: sp.OpAdd, D: 0, M1: big + 1}, {Kind: sp.OpSMFAdd}, {Kind: sp.OpAdd, D: 0, M1: 0}, {Kind: sp.OpClose, D: 0}, {Kind: sp.OpSMFAdd}}})
	return out
}

// alphabet is the full alphabet plus two long messages.
func alphabet() []sp.Msg {
	al := sp.FullAlphabet()
	long := make([]byte, 5000)
	for i := range long {
		long[i] = byte(i % 127)
	}
	al = append(al, sp.Msg{Name: "SysEx5000", Bytes: smf.Message(midi.SysEx(long))})
	al = append(al, sp.Msg{Name: "Text4500", Bytes: smf.MetaText(string(long[:4500]))})
	return al
}

func clip(b []byte) []byte {
	if len(b) > 64 {
		return b[:64]
	}
	return b
}

func region(out []byte, k int) string {
	if k < 14 {
		return "header"
	}
	pos, tr := 14, 0
	for pos+8 <= len(out) {
		ln := int(out[pos+4])<<24 | int(out[pos+5])<<16 | int(out[pos+6])<<8 | int(out[pos+7])
		if k < pos+8+ln {
			if tr == 0 {
				return "first-track"
			}
			return "later-track"
		}
		pos += 8 + ln
		tr++
	}
	return "end"
}

func writeFaults(v valueSpec, idx int) {
	al := alphabet()
	base := sp.Build(v.cfg, al, v.ops)
	out := writeFaultsOn(base, func(what string) map[string]interface{} { return sp.HistoryDetail(v.cfg, "full", v.ops, al, what) })
	if out != nil {
		readFaults(out, fmt.Sprintf("value%d", idx))
	}
}

// writeFaultsOn injects destination faults at every offset of the output of
// base (which is never written itself: every write uses a value copy) and
// returns the fault-free output.
// fmtLogger builds the text a real logger would build and throws it away.
type fmtLogger struct{ n int }

func (l *fmtLogger) Printf(format string, vals ...interface{}) {
	l.n += len(fmt.Sprintf(format, vals...))
}

// lightErrorValues: set while the values of the state space are judged.
var lightErrorValues bool

func writeFaultsOn(base *sp.Inst, detail func(what string) map[string]interface{}) []byte {
	var ref bytes.Buffer
	if _, err := base.Clone().S.WriteTo(&ref); err != nil {
		ctx.Guard(false, "reference write failed: %v", err)
		return nil
	}
	out := ref.Bytes()
	ctx.Add("values", 1)
	for _, mode := range []string{"short", "call", "full"} {
		for k := 0; k <= len(out)+1; k++ {
			in := base.Clone() // smf.SMF is a value type; WriteTo closes open tracks in place
			fw := &faultio.FailWriter{At: k, Mode: mode}
			var n int64
			var err error
			c := engine.Catch(func() { n, err = in.S.WriteTo(fw) })
			ctx.Eval()
			sig, what := "", ""
			switch {
			case c.Panicked:
				sig, what = c.Sig+":write-fault", "WriteTo panicked: "+c.Value
			case fw.Fired > 0 && err == nil:
				sig = "write-nil:fault-in-" + region(out, k) + ":" + mode
				what = fmt.Sprintf("destination failed at offset %d of %d (accepted %d bytes) but WriteTo returned nil, size %d", k, len(out), len(fw.Got), n)
			case fw.Fired == 0 && err != nil:
				sig, what = "write-error-without-fault", "WriteTo returned an error although the destination accepted everything: "+err.Error()
			case fw.Fired == 0 && (n != int64(len(out)) || !bytes.Equal(fw.Got, out)):
				sig, what = "write-size", fmt.Sprintf("no fault: reported size %d, emitted %d, expected %d", n, len(fw.Got), len(out))
			}
			if fw.Fired > 0 {
				ctx.NontrivialN(1)
			}
			if sig != "" && ctx.SigCount(sig) < 10 {
				d := detail(what)
				d["kind"] = "write-fault"
				d["fault_at"] = k
				d["mode"] = mode
				ctx.Violation(sig, d)
			}
			// a failed write must not poison later writes (state kept between calls):
			// the next write of the same value to a healthy destination is the reference
			if fw.Fired > 0 && (k%7 == 0 || len(out) < 200) {
				var again bytes.Buffer
				// the very value whose write just failed (on every other offset a fresh copy)
				second := in
				if k%2 == 1 {
					second = base.Clone()
				}
				n2, err2 := second.S.WriteTo(&again)
				if err2 != nil || n2 != int64(len(out)) || !bytes.Equal(again.Bytes(), out) {
					s2 := "write-after-failed-write:" + mode
					if ctx.SigCount(s2) < 10 {
						d := detail(fmt.Sprintf("after a write that failed at offset %d, a write to a healthy destination emits different bytes (%d instead of %d, err %v): %s", k, again.Len(), len(out), err2, engine.Hex(clip(again.Bytes()))))
						d["kind"] = "write-fault"
						d["fault_at"] = k
						d["mode"] = mode
						ctx.Violation(s2, d)
					}
				}
			}
		}
	}
	// destinations that fail with error values a caller may be tempted to read
	// as "nothing more to do" (io.EOF from a closed channel, wrapped or bare)
	for _, ev := range []struct {
		name string
		err  error
	}{{"io.EOF", io.EOF}, {"io.ErrUnexpectedEOF", io.ErrUnexpectedEOF}, {"io.ErrShortWrite", io.ErrShortWrite}, {"io.ErrClosedPipe", io.ErrClosedPipe}, {"wrapped-EOF", fmt.Errorf("write: %w", io.EOF)}, {"path-error-EOF", &fs.PathError{Op: "write", Path: "dest", Err: io.EOF}}} {
		for _, mode := range []string{"short", "call", "full"} {
			step := 1
			if len(out) > 400 {
				step = 5
			}
			if lightErrorValues {
				// values of the state space (tens of thousands): one mode, every
				// third offset, the two values that are io.EOF itself or wrap it
				if mode != "call" || (ev.name != "io.EOF" && ev.name != "wrapped-EOF") {
					continue
				}
				step = 3
			}
			for k := 0; k <= len(out); k += step {
				in := base.Clone()
				fw := &faultio.FailWriter{At: k, Mode: mode, Err: ev.err}
				var err error
				c := engine.Catch(func() { _, err = in.S.WriteTo(fw) })
				ctx.Eval()
				if fw.Fired == 0 {
					continue
				}
				ctx.NontrivialN(1)
				sig, what := "", ""
				switch {
				case c.Panicked:
					sig, what = c.Sig+":write-fault:"+ev.name, "WriteTo panicked: "+c.Value
				case err == nil:
					sig = "write-nil:" + ev.name + ":fault-in-" + region(out, k) + ":" + mode
					what = fmt.Sprintf("destination failed with %s at offset %d of %d but WriteTo returned nil", ev.name, k, len(out))
				}
				if sig != "" && ctx.SigCount(sig) < 10 {
					d := detail(what)
					d["kind"] = "write-fault"
					d["fault_at"] = k
					d["mode"] = mode
					d["error_value"] = ev.name
					ctx.Violation(sig, d)
				}
			}
		}
	}
	// the same faults with SMF.Logger set (what is logged is not what is returned)
	for _, mode := range []string{"short", "call", "once"} {
		step := 1
		if len(out) > 300 {
			step = 7
		}
		for k := 0; k <= len(out); k += step {
			if mode == "once" && k > 8 {
				break
			}
			in := base.Clone()
			in.S.Logger = &fmtLogger{}
			fw := &faultio.FailWriter{At: k, Mode: mode}
			var err error
			c := engine.Catch(func() { _, err = in.S.WriteTo(fw) })
			ctx.Eval()
			if fw.Fired == 0 {
				continue
			}
			ctx.NontrivialN(1)
			sig, what := "", ""
			switch {
			case c.Panicked:
				sig, what = c.Sig+":write-fault:logged", "WriteTo with a Logger panicked: "+c.Value
			case err == nil:
				sig, what = "write-nil:with-logger:"+mode, fmt.Sprintf("destination failed (mode %s, %d) while SMF.Logger was set, WriteTo returned nil", mode, k)
			}
			if sig != "" && ctx.SigCount(sig) < 10 {
				d := detail(what)
				d["kind"] = "write-fault"
				d["fault_at"] = k
				d["mode"] = mode
				ctx.Violation(sig, d)
			}
		}
	}
	// transient failures: exactly one Write call is rejected (or cut short)
	for _, mode := range []string{"once", "once-short", "once-full"} {
		for j := 1; j <= 8; j++ {
			in := base.Clone()
			fw := &faultio.FailWriter{At: j, Mode: mode}
			var err error
			c := engine.Catch(func() { _, err = in.S.WriteTo(fw) })
			ctx.Eval()
			if fw.Fired == 0 {
				break // fewer than j Write calls
			}
			ctx.NontrivialN(1)
			sig, what := "", ""
			switch {
			case c.Panicked:
				sig, what = c.Sig+":write-fault", "WriteTo panicked: "+c.Value
			case err == nil:
				sig, what = "write-nil:transient:"+mode, fmt.Sprintf("Write call %d of the destination failed, later calls succeeded, WriteTo returned nil", j)
			}
			if sig != "" && ctx.SigCount(sig) < 10 {
				d := detail(what)
				d["kind"] = "write-fault"
				d["fault_at"] = j
				d["mode"] = mode
				ctx.Violation(sig, d)
			}
		}
	}
	return out
}

// statePlans: the value family is also taken from the API-history state space
// of C01/C03 (every distinct value reachable with the plan's operations).
func statePlans() []sp.Plan {
	cfgs := []sp.Cfg{{Ctor: 0, TF: smf.MetricTicks(96)}, {Ctor: 0, NoRS: true, TF: smf.MetricTicks(96)}}
	pl := []sp.Plan{
		{Name: "tiny-alphabet", Cfgs: cfgs, AlName: "tiny", Deltas: []uint32{0, 128}, CloseDeltas: []uint32{0},
			Add2: true, MaxEvents: ctx.Pick(3, 4), MaxTracks: ctx.Pick(2, 3)},
	}
	if ctx.Thorough() {
		pl = append(pl, sp.Plan{Name: "small-alphabet", Cfgs: cfgs, AlName: "small", Deltas: []uint32{0, 128}, CloseDeltas: []uint32{0},
			MaxEvents: 3, MaxTracks: 2},
			sp.Plan{Name: "full-alphabet", Cfgs: cfgs[:1], AlName: "full", Deltas: []uint32{0}, CloseDeltas: []uint32{0},
				MaxEvents: 2, MaxTracks: 2})
	}
	return pl
}

func stateCheck(in *sp.Inst, hist []sp.Op, cfg sp.Cfg, p *sp.Plan) {
	al := sp.Alphabet(p.AlName)
	h := append([]sp.Op(nil), hist...)
	lightErrorValues = true
	out := writeFaultsOn(in, func(what string) map[string]interface{} { return sp.HistoryDetail(cfg, p.AlName, h, al, what) })
	lightErrorValues = false
	ctx.Add("state_space_values", 1)
	if out != nil && len(hist)%3 == 0 {
		readFaults(out, "state-space")
	}
}

func readFaults(data []byte, label string) {
	exp, perr := refsmf.Parse(data, refsmf.Tolerant)
	if perr == nil && (int(exp.NTrks) != bytes.Count(data, []byte("MTrk")) || exp.NTrks == 0) {
		// a header that does not match the chunks: what the result should be
		// without a fault is C05's business, only the fault clause is judged here
		perr = fmt.Errorf("track count does not match")
	}
	// the same offsets with other error values and with a source that reports its
	// error once and says io.EOF afterwards
	for _, v := range []struct {
		name string
		err  error
		once bool
	}{{"error-together-with-the-last-bytes", nil, false}, {"error-once-then-the-data-goes-on", nil, false}, {"unexpected-eof-error", io.ErrUnexpectedEOF, false}, {"closed-pipe-error", io.ErrClosedPipe, false}, {"error-once-then-eof", nil, true}, {"unexpected-eof-once-then-eof", io.ErrUnexpectedEOF, true},
		{"wrapped-eof-error", fmt.Errorf("read: %w", io.EOF), false}, {"path-error-eof", &fs.PathError{Op: "read", Path: "source", Err: io.EOF}, false},
		{"wrapped-unexpected-eof-error", fmt.Errorf("read: %w", io.ErrUnexpectedEOF), false}, {"short-buffer-error", io.ErrShortBuffer, false}, {"no-progress-error", io.ErrNoProgress, false}} {
		// (an error that comes together with the bytes in front of it is only
		// judged where the reader still needs data behind it: the standard
		// library's ReadFull drops an error that arrives with the last byte it
		// was asked for, and a reader that has everything never asks again)
		needEnd := len(data)
		if v.name == "error-together-with-the-last-bytes" {
			needEnd = 0
			if perr == nil && len(data) >= 14 {
				want := int(data[10])<<8 | int(data[11])
				pos, seen := 14, 0
				for pos+8 <= len(data) && seen < want {
					ln := int(data[pos+4])<<24 | int(data[pos+5])<<16 | int(data[pos+6])<<8 | int(data[pos+7])
					if string(data[pos:pos+4]) == "MTrk" {
						seen++
					}
					pos += 8 + ln
				}
				if seen == want && pos <= len(data) {
					needEnd = pos
				}
			}
		}
		for k := 0; k < len(data); k++ {
			if k >= needEnd {
				break
			}
			if len(data) > 1500 && k%9 != 0 && k > 64 && k < len(data)-64 {
				continue // long files: every ninth offset and both ends (the plain error value below takes every offset)
			}
			fr := &faultio.FailReader{Data: data, At: k, Err: v.err, Once: v.once, Resume: v.name == "error-once-then-the-data-goes-on", WithData: v.name == "error-together-with-the-last-bytes"}
			var err error
			c := engine.Catch(func() { _, err = smf.ReadFrom(fr) })
			ctx.Eval()
			sig, what := "", ""
			switch {
			case c.Panicked:
				sig, what = c.Sig+":read-fault:"+v.name, "ReadFrom panicked: "+c.Value
			case fr.Returned > 0 && err == nil:
				sig = "read-nil:" + v.name + ":fault-in-" + region(data, k)
				what = fmt.Sprintf("source failed at offset %d of %d (%s) but ReadFrom returned a value and no error", k, len(data), v.name)
			}
			if fr.Returned > 0 {
				ctx.NontrivialN(1)
			}
			if sig != "" && ctx.SigCount(sig) < 10 {
				ctx.Violation(sig, map[string]interface{}{"kind": "read-fault", "file": engine.Hex(data), "fault_at": k, "family": label, "variant": v.name, "what": what})
			}
		}
	}
	for k := 0; k <= len(data); k++ {
		fr := &faultio.FailReader{Data: data, At: k}
		var s *smf.SMF
		var err error
		c := engine.Catch(func() { s, err = smf.ReadFrom(fr) })
		ctx.Eval()
		sig, what := "", ""
		switch {
		case c.Panicked:
			sig, what = c.Sig+":read-fault", "ReadFrom panicked: "+c.Value
		case fr.Returned > 0 && err == nil:
			sig = "read-nil:fault-in-" + region(data, k)
			what = fmt.Sprintf("source failed at offset %d of %d (error returned %d times) but ReadFrom returned a value", k, len(data), fr.Returned)
		case fr.Returned == 0 && k >= len(data) && perr == nil && (err != nil || s == nil):
			sig, what = "read-error-without-fault", fmt.Sprintf("no fault fired but ReadFrom failed: %v", err)
		case fr.Returned == 0 && err == nil && perr == nil && s != nil:
			if ok, d := sp.CompareRead(exp, s); !ok {
				sig, what = "read-content-without-fault:"+d, "fault never reached, but content differs"
			}
		}
		if fr.Returned > 0 {
			ctx.NontrivialN(1)
		}
		if sig == "" && (k%3 == 0 || len(data) < 120) {
			// the same fault through the track iterator: its Error() must tell
			fr2 := &faultio.FailReader{Data: data, At: k}
			var tr *smf.TracksReader
			c2 := engine.Catch(func() {
				if k%2 == 0 {
					tr = smf.ReadTracksFrom(fr2)
				} else {
					tr = smf.ReadTracksFrom(fr2, 0) // only the first track is wanted: a fault anywhere is still a fault
				}
			})
			ctx.Eval()
			switch {
			case c2.Panicked:
				sig, what = c2.Sig+":read-fault:ReadTracksFrom", "ReadTracksFrom panicked: "+c2.Value
			case fr2.Returned > 0 && tr != nil && tr.Error() == nil:
				sig = "read-nil:ReadTracksFrom:fault-in-" + region(data, k)
				what = fmt.Sprintf("source failed at offset %d of %d (error returned %d times) but TracksReader.Error() is nil", k, len(data), fr2.Returned)
			}
		}
		if sig != "" && ctx.SigCount(sig) < 10 {
			ctx.Violation(sig, map[string]interface{}{"kind": "read-fault", "file": engine.Hex(data), "fault_at": k, "family": label, "what": what})
		}
	}
}

func genFiles() [][]byte {
	// byte-level family (running status, aliens, packets): read faults only
	toks := smfgen.Tokens()
	dls := smfgen.Deltas()
	var out [][]byte
	shapes := smfgen.Shapes(false)
	for i := range toks {
		seq := []smfgen.Timed{{T: &toks[0], D: &dls[0]}, {T: &toks[i], D: &dls[1]}, {T: &toks[1], D: &dls[0]}}
		body, evs, ok := smfgen.Track(seq, &dls[0])
		if !ok {
			seq = seq[:2]
			body, evs, ok = smfgen.Track(seq, &dls[0])
			if !ok {
				continue
			}
		}
		f, _ := smfgen.File(shapes[(i*7)%len(shapes)], body, evs)
		out = append(out, f)
		if i%5 == 1 {
			// the same file with a header chunk of 8 and of 11 bytes (the format
			// allows a longer header; a reader skips what it does not know)
			for _, extra := range []int{2, 5} {
				g := append([]byte{}, f[:8]...)
				g[7] = byte(6 + extra)
				g = append(g, f[8:14]...)
				for k := 0; k < extra; k++ {
					g = append(g, byte(0x10+k))
				}
				out = append(out, append(g, f[14:]...))
			}
			// ... and of 14 bytes whose surplus looks like an empty unknown chunk (if
			// the skip is given up after an error, what follows still parses)
			g := append([]byte{}, f[:8]...)
			g[7] = 14
			g = append(g, f[8:14]...)
			g = append(g, 'j', 'u', 'n', 'k', 0, 0, 0, 0)
			out = append(out, append(g, f[14:]...))
		}
		if i%4 == 0 {
			// the same bytes with a header that declares no track at all, or one too many
			for _, d := range []int{-1, +1} {
				g := append([]byte{}, f...)
				if d < 0 {
					g[10], g[11] = 0, 0
				} else {
					g[11]++
				}
				out = append(out, g)
			}
		}
	}
	// files the library's writer never produces: bytes after the end-of-track
	// inside the chunk (declared length longer than the events) in the last and
	// in an earlier track, an unknown chunk and plain garbage after the last track
	ev := []byte{0x00, 0x90, 0x3C, 0x40, 0x10, 0x80, 0x3C, 0x00, 0x00, 0xFF, 0x2F, 0x00}
	pad := []byte{0x00, 0x00, 0x00, 0x00}
	trk := func(body []byte) []byte { return refsmf.Chunk("MTrk", body) }
	padded := append(append([]byte{}, ev...), pad...)
	out = append(out,
		append(refsmf.Header(0, 1, 96), trk(padded)...),
		append(append(refsmf.Header(1, 2, 96), trk(padded)...), trk(ev)...),
		append(append(refsmf.Header(1, 2, 96), trk(ev)...), trk(padded)...),
		append(append(refsmf.Header(0, 1, 96), trk(ev)...), refsmf.Chunk("XFIH", []byte{1, 2, 3, 4, 5})...),
		append(append(refsmf.Header(0, 1, 96), trk(ev)...), 0xDE, 0xAD, 0xBE, 0xEF, 0x00),
	)
	// an end-of-track that carries data (FF 2F 03 ..), as last event of the last
	// and of an earlier track; a final meta event with a long payload
	eotData := append(append([]byte{}, ev[:len(ev)-1]...), 0x03, 0x01, 0x02, 0x03)
	longLast := append(append([]byte{0x00, 0xFF, 0x01, 0x20}, make([]byte, 0x20)...), 0x00, 0xFF, 0x2F, 0x00)
	out = append(out,
		append(refsmf.Header(0, 1, 96), trk(eotData)...),
		append(append(refsmf.Header(1, 2, 96), trk(eotData)...), trk(ev)...),
		append(append(refsmf.Header(1, 2, 96), trk(ev)...), trk(eotData)...),
		append(refsmf.Header(0, 1, 96), trk(longLast)...),
	)
	return out
}

// writeFileFaults: WriteFile onto destinations that cannot take the data must
// report an error, whatever the size of the file (smaller or larger than any
// buffer in between).
func writeFileFaults() {
	dir, err := os.MkdirTemp(os.Getenv("VERIF_WORK"), "c10-writefile-")
	if err != nil {
		ctx.Guard(false, "no temp dir: %v", err)
		return
	}
	defer os.RemoveAll(dir)
	al := sp.FullAlphabet()
	mk := func(n int) *sp.Inst {
		var ops []sp.Op
		for i := 0; i < n; i++ {
			ops = append(ops, sp.Op{Kind: sp.OpAdd, D: uint32(i % 3), M1: i % len(al)})
		}
		ops = append(ops, sp.Op{Kind: sp.OpSMFAdd})
		return sp.Build(sp.Cfg{Ctor: 0, TF: smf.MetricTicks(96)}, al, ops)
	}
	type dest struct{ name, path string }
	var dests []dest
	if f, err := os.OpenFile("/dev/full", os.O_WRONLY, 0); err == nil {
		f.Close()
		link := dir + "/full.mid"
		if os.Symlink("/dev/full", link) == nil {
			dests = append(dests, dest{"device-without-space", link})
		}
	} else {
		ctx.Add("writefile_dev_full_unavailable", 1)
	}
	dests = append(dests, dest{"missing-directory", dir + "/no/such/dir/song.mid"})
	os.Mkdir(dir+"/adir.mid", 0o755)
	dests = append(dests, dest{"path-is-a-directory", dir + "/adir.mid"})
	// smf.RecordTo saves when its stop function is called: a destination that
	// cannot take the file must make that call return an error
	for _, d := range dests {
		ctx.Eval()
		if d.name == "device-without-space" {
			os.Remove(d.path)
			os.Symlink("/dev/full", d.path)
		}
		drv := testdrv.New("rec")
		ins, _ := drv.Ins()
		outs, _ := drv.Outs()
		outs[0].Open()
		var stop func() error
		var rerr, serr error
		c := engine.Catch(func() {
			stop, rerr = smf.RecordTo(ins[0], 120, d.path)
			if rerr == nil {
				outs[0].Send([]byte{0x90, 0x3C, 0x40})
				serr = stop()
			}
		})
		ctx.Add("record_to_fault_cases", 1)
		switch {
		case c.Panicked:
			ctx.Violation(c.Sig+":RecordTo:"+d.name, map[string]interface{}{"kind": "writefile-fault", "destination": d.name, "what": "RecordTo / stop panicked: " + c.Value})
		case rerr == nil && serr == nil:
			ctx.Violation("record-to-nil:"+d.name, map[string]interface{}{"kind": "writefile-fault", "destination": d.name,
				"what": "the stop function of RecordTo returned nil although the file could not be written (" + d.name + ")"})
		}
	}
	for _, d := range dests {
		for _, n := range []int{0, 1, 30, 400, 900, 1300, 3000, 20000} {
			ctx.Eval()
			in := mk(n)
			var size bytes.Buffer
			in.Clone().S.WriteTo(&size)
			if d.name == "device-without-space" {
				os.Remove(d.path)
				os.Symlink("/dev/full", d.path)
			}
			var werr error
			c := engine.Catch(func() { werr = in.S.WriteFile(d.path) })
			ctx.NontrivialN(1)
			switch {
			case c.Panicked:
				ctx.Violation(c.Sig+":WriteFile:"+d.name, map[string]interface{}{"kind": "writefile-fault", "destination": d.name, "events": n, "what": "WriteFile panicked: " + c.Value})
			case werr == nil:
				sig := "writefile-nil:" + d.name
				if ctx.SigCount(sig) < 5 {
					ctx.Violation(sig, map[string]interface{}{"kind": "writefile-fault", "destination": d.name, "events": n, "file_size": size.Len(),
						"what": fmt.Sprintf("WriteFile of a %d-byte file to a destination that cannot take it (%s) returned nil", size.Len(), d.name)})
				}
			}
			ctx.Add("writefile_fault_cases", 1)
		}
	}
	// WriteTo straight into an *os.File that cannot take the bytes: a
	// descriptor opened for reading, a closed file, a device without space; and
	// into a good file, which must then hold exactly the bytes
	good := dir + "/plain.mid"
	for _, n := range []int{0, 1, 30, 400, 900, 1300, 3000, 20000} {
		in := mk(n)
		var want bytes.Buffer
		in.Clone().S.WriteTo(&want)
		os.WriteFile(good, []byte("old"), 0o644)
		for _, kind := range []string{"read-only-descriptor", "closed-file", "device-without-space", "good-file"} {
			var f *os.File
			var err error
			switch kind {
			case "read-only-descriptor":
				f, err = os.Open(good)
			case "closed-file":
				if f, err = os.Create(good); err == nil {
					f.Close()
				}
			case "device-without-space":
				f, err = os.OpenFile("/dev/full", os.O_WRONLY, 0)
			case "good-file":
				f, err = os.Create(good)
			}
			if err != nil {
				ctx.Add("osfile_"+kind+"_unavailable", 1)
				continue
			}
			ctx.Eval()
			ctx.NontrivialN(1)
			ctx.Add("osfile_cases", 1)
			var size int64
			var werr error
			c := engine.Catch(func() { size, werr = in.Clone().S.WriteTo(f) })
			f.Close()
			sig, what := "", ""
			switch {
			case c.Panicked:
				sig, what = c.Sig+":WriteTo-os-file:"+kind, "WriteTo panicked: "+c.Value
			case kind != "good-file" && werr == nil:
				sig, what = "write-nil:os-file:"+kind, fmt.Sprintf("WriteTo of a %d-byte file into an *os.File that cannot take it (%s) returned nil, size %d", want.Len(), kind, size)
			case kind == "good-file":
				got, _ := os.ReadFile(good)
				if werr != nil || size != int64(want.Len()) || !bytes.Equal(got, want.Bytes()) {
					sig, what = "write-os-file:content", fmt.Sprintf("WriteTo into a fresh *os.File: error %v, size %d, the file holds %d bytes, expected %d", werr, size, len(got), want.Len())
				}
			}
			if sig != "" && ctx.SigCount(sig) < 5 {
				ctx.Violation(sig, map[string]interface{}{"kind": "writefile-fault", "destination": kind, "events": n, "what": what})
			}
		}
	}
}

func main() {
	ctx = engine.Start("C10", "fault_enumeration")
	disturb.Install(ctx)
	if ctx.ReplayPath != "" {
		replay()
		return
	}
	ctx.Assume("injected errors are sticky and returned alone (never together with data); a fault placed after the last byte the library requests never fires and is not judged")
	vals := values()
	gf := genFiles()
	ctx.Jobs("write-and-read-faults", len(vals), func(j int) { writeFaults(vals[j], j) })
	ctx.Jobs("read-faults-generated", len(gf), func(j int) { readFaults(gf[j], fmt.Sprintf("gen%d", j)) })
	type sjob struct {
		p   sp.Plan
		cfg sp.Cfg
		op  int
	}
	var sj []sjob
	for _, p := range statePlans() {
		for _, c := range p.Cfgs {
			for op := range p.Ops() {
				sj = append(sj, sjob{p, c, op})
			}
		}
	}
	ctx.Jobs("writefile", 1, func(int) { writeFileFaults() })
	ctx.Jobs("state-space", len(sj), func(j int) { sp.RunPlanCfgShard(ctx, sj[j].p, sj[j].cfg, sj[j].op, stateCheck) })
	ctx.Set("api_values", len(vals))
	ctx.Set("generated_files", len(gf))
	ctx.Sample(map[string]interface{}{"value": sp.DescribeOps(vals[1].ops, alphabet()), "fault": "destination accepts exactly k bytes then fails, for every k in 0..size+1, modes short-write+error and error-per-call"})
	ctx.Sample(map[string]interface{}{"file": engine.Hex(gf[0]), "fault": "source delivers k bytes then a sticky non-EOF error, for every k"})
	ctx.Guard(ctx.NontrivialCount() > 1000, "too few faults fired: %d", ctx.NontrivialCount())
	ctx.Finish("for every value of the family: destination fault at every byte offset (two modes) and, on the bytes written, source fault at every offset; the family is the hand-built list plus every distinct value of an API-history state space (BFS, states/transitions reported); plus source faults on generated byte-level files; non-trivial = cases in which the injected error was actually returned to the library")
}

func replay() {
	m := ctx.LoadReplay()
	if m["kind"] == "writefile-fault" {
		writeFileFaults()
		ctx.Finish("replay")
	}
	if m["kind"] == "read-fault" {
		readFaults(engine.UnHex(m["file"].(string)), "replay")
		ctx.Finish("replay")
	}
	cfg, alName, ops := sp.ParseHistory(m)
	if alName != "full" {
		al := sp.Alphabet(alName)
		writeFaultsOn(sp.Build(cfg, al, ops), func(what string) map[string]interface{} { return sp.HistoryDetail(cfg, alName, ops, al, what) })
		ctx.Finish("replay")
	}
	writeFaults(valueSpec{cfg, ops}, 0)
	ctx.Finish("replay")
}
