// C11 — tick-to-time conversion follows the tempo map exactly.
//
// Tempo maps are built by writing a two-track file (tempo events on track 0)
// and reading it back; TimeAt is compared with the exact rational integral of
// the tempo map at every interesting query tick; TracksReader.Do must hand out
// TimeAt(abs tick); Ticks(Duration(n)) == n on the stated domain.
package main

import (
	"bytes"
	"fmt"
	"math/big"
	"sort"
	"time"

	"gitlab.com/gomidi/midi/v2"
	cc "gitlab.com/gomidi/midi/v2/internal/verifh/conccases"
	cp "gitlab.com/gomidi/midi/v2/internal/verifh/concpairs"
	"gitlab.com/gomidi/midi/v2/internal/verifh/disturb"
	"gitlab.com/gomidi/midi/v2/internal/verifh/engine"
	"gitlab.com/gomidi/midi/v2/smf"
)

var ctx *engine.Ctx

type tev struct {
	gap uint32 // ticks after the previous tempo event
	us  uint32 // microseconds per quarter note (24 bit)
}

var resolutions = []uint16{960, 1, 24, 96, 480, 32767}
var gaps = []uint32{0, 1, 479, 480, 100000}
var uss = []uint32{500000, 0, 1, 250000, 500001, 0xFFFFFF}

const horizonUS = 100 * 24 * 3600 * 1e6 // 100 days

// exact returns the exact time in microseconds (rational) at tick T and the
// number of tempo segments crossed.
func exact(res uint16, evs []tev, T int64) (*big.Rat, int) {
	t := new(big.Rat)
	cur := int64(500000)
	var pos int64
	var at int64
	segs := 1
	lastChangeTick := int64(-1)
	for _, e := range evs {
		at += int64(e.gap)
		if at >= T {
			break
		}
		// segment [pos, at) at tempo cur
		t.Add(t, new(big.Rat).SetFrac(big.NewInt((at-pos)*cur), big.NewInt(int64(res))))
		pos = at
		cur = int64(e.us)
		if at != lastChangeTick {
			segs++
			lastChangeTick = at
		}
	}
	t.Add(t, new(big.Rat).SetFrac(big.NewInt((T-pos)*cur), big.NewInt(int64(res))))
	return t, segs
}

// style 0: the tempo track holds tempo events only; style 1: every tempo event
// is preceded by another event that carries the tick gap, the tempo event
// itself has delta 0; style 2: the gap is split between a filler and the tempo.
func buildFile(res uint16, evs []tev, style int) ([]byte, error) {
	s := smf.NewSMF1()
	s.TimeFormat = smf.MetricTicks(res)
	var t0, t1 smf.Track
	t0.Add(0, smf.MetaText("tempo track"))
	for i, e := range evs {
		tm := smf.MetaUndefined(0x51, []byte{byte(e.us >> 16), byte(e.us >> 8), byte(e.us)})
		switch style {
		case 1:
			t0.Add(e.gap, midi.ControlChange(0, uint8(i), 1))
			t0.Add(0, tm)
		case 2:
			t0.Add(e.gap/2, smf.MetaMarker("m"))
			t0.Add(e.gap-e.gap/2, tm)
		default:
			t0.Add(e.gap, tm)
		}
	}
	t0.Close(3)
	t1.Add(0, midi.NoteOn(0, 60, 100))
	t1.Add(480, midi.NoteOff(0, 60))
	t1.Add(100000, midi.NoteOn(1, 61, 100))
	t1.Add(960, midi.NoteOff(1, 61))
	t1.Add(0, midi.NoteOn(1, 62, 100)) // delta 0 right after an event of another type that carries the delta
	t1.Close(7) // (an end of track with a delta of its own: the next track starts at tick 0 all the same)
	s.Add(t0)
	s.Add(t1)
	var buf bytes.Buffer
	_, err := s.WriteTo(&buf)
	return buf.Bytes(), err
}

func report(sig string, res uint16, evs []tev, q int64, what string) {
	if ctx.SigCount(sig) < 10 {
		var l [][2]uint32
		for _, e := range evs {
			l = append(l, [2]uint32{e.gap, e.us})
		}
		ctx.Violation(sig, map[string]interface{}{"kind": "tempomap", "resolution": res, "tempo_events_gap_us": l, "query_tick": q, "what": what})
	}
}

var styleNote string

func feature(evs []tev) string {
	f := fmt.Sprintf("%d-events", len(evs)) + styleNote
	rep := false
	for i, e := range evs {
		if i > 0 && e.gap == 0 {
			rep = true
		}
	}
	if rep {
		f += ":repeated-tick"
	}
	if len(evs) > 0 && evs[0].gap > 0 {
		f += ":first-after-0"
	}
	return f
}

// styles 0-2: see buildFile; style 3: style 0 read with the logging option on;
// style 4: style 0 with a header that declares no track at all (the reader
// takes the chunks as they come and stops at the end of the data); style 5:
// the tempo track is the second chunk; style 6: likewise, header says format 2.
func judgeMap(res uint16, evs []tev) {
	for style := 0; style < 8; style++ {
		if style > 0 && len(evs) == 0 {
			break
		}
		judgeMapStyle(res, evs, style)
	}
}

type nullLogger struct{ n int }

func (l *nullLogger) Printf(format string, vals ...interface{}) {
	// built as a real logger would build it (String methods run), thrown away
	l.n += len(fmt.Sprintf(format, vals...))
}

func judgeMapStyle(res uint16, evs []tev, style int) {
	bstyle := style
	if style >= 3 {
		bstyle = 0
	}
	data, err := buildFile(res, evs, bstyle)
	if err != nil {
		ctx.Guard(false, "cannot build file: %v", err)
		return
	}
	styleNote = map[int]string{3: ":read-with-logging", 4: ":header-declares-no-track", 5: ":tempo-track-second", 6: ":format-2-tempo-track-second", 7: ":tempo-track-last-and-cut-before-its-end-of-track"}[style]
	defer func() { styleNote = "" }()
	var opts []smf.ReadOption
	if style == 3 {
		opts = append(opts, smf.Log(&nullLogger{}))
	}
	if style == 4 {
		data = append([]byte(nil), data...)
		data[10], data[11] = 0, 0
	}
	if style == 5 || style == 6 || style == 7 {
		l0 := 8 + int(data[18])<<24 + int(data[19])<<16 + int(data[20])<<8 + int(data[21])
		sw := append([]byte(nil), data[:14]...)
		sw = append(sw, data[14+l0:]...)
		sw = append(sw, data[14:14+l0]...)
		if style == 6 {
			sw[9] = 2
		}
		if style == 7 {
			// the data ends in front of the last track's end of track (03 FF 2F 00)
			sw = sw[:len(sw)-3] // (the delta byte is still there)
		}
		data = sw
	}
	var s *smf.SMF
	c := engine.Catch(func() { s, err = smf.ReadFrom(bytes.NewReader(data), opts...) })
	if style == 7 && !c.Panicked && (err != nil || s == nil) {
		return // a cut file may be refused; if it is accepted, its times follow the tempo events it holds
	}
	if c.Panicked || err != nil {
		report("tempomap:read:"+feature(evs), res, evs, -1, fmt.Sprintf("cannot read the file: %v %s", err, c.Value))
		return
	}
	// query ticks
	qs := map[int64]bool{0: true, 1 << 20: true, 1<<31 - 1: true}
	var at int64
	for _, e := range evs {
		at += int64(e.gap)
		for d := int64(-2); d <= 2; d++ {
			if at+d >= 0 {
				qs[at+d] = true
			}
		}
	}
	var ql []int64
	for q := range qs {
		ql = append(ql, q)
	}
	sort.Slice(ql, func(a, b int) bool { return ql[a] < ql[b] })
	prev := int64(-1)
	for _, q := range ql {
		ex, segs := exact(res, evs, q)
		if ex.Cmp(big.NewRat(horizonUS, 1)) > 0 {
			continue
		}
		ctx.Eval()
		var got int64
		c := engine.Catch(func() { got = s.TimeAt(q) })
		if c.Panicked {
			report(c.Sig+":TimeAt", res, evs, q, "TimeAt panicked: "+c.Value)
			return
		}
		diff := new(big.Rat).Sub(new(big.Rat).SetInt64(got), ex)
		diff.Abs(diff)
		if diff.Cmp(big.NewRat(int64(segs), 1)) > 0 {
			exf, _ := ex.Float64()
			report("timeat:value:"+feature(evs), res, evs, q, fmt.Sprintf("TimeAt=%d us, exact integral %.3f us, %d segments", got, exf, segs))
			return
		}
		if got < prev {
			report("timeat:decreasing:"+feature(evs), res, evs, q, fmt.Sprintf("TimeAt(%d)=%d below the value %d at a smaller tick", q, got, prev))
			return
		}
		prev = got
		if len(evs) >= 2 {
			ctx.NontrivialN(1)
		}
	}
	// per-event times handed out by the iterator
	tr := smf.ReadTracksFrom(bytes.NewReader(data))
	if tr.Error() != nil {
		report("tracksreader:error", res, evs, -1, tr.Error().Error())
		return
	}
	abs := map[int]int64{}
	c = engine.Catch(func() {
		tr.Do(func(te smf.TrackEvent) {
			abs[te.TrackNo] += int64(te.Delta)
			ctx.Eval()
			if te.AbsTicks != abs[te.TrackNo] {
				report("do:abs-ticks", res, evs, te.AbsTicks, fmt.Sprintf("track %d: AbsTicks %d, deltas sum to %d", te.TrackNo, te.AbsTicks, abs[te.TrackNo]))
			}
			ex, segs := exact(res, evs, abs[te.TrackNo])
			if ex.Cmp(big.NewRat(horizonUS, 1)) > 0 {
				return
			}
			diff := new(big.Rat).Sub(new(big.Rat).SetInt64(te.AbsMicroSeconds), ex)
			diff.Abs(diff)
			if diff.Cmp(big.NewRat(int64(segs), 1)) > 0 || te.AbsMicroSeconds != tr.SMF().TimeAt(te.AbsTicks) {
				report("do:abs-microseconds:"+feature(evs), res, evs, te.AbsTicks, fmt.Sprintf("track %d event at tick %d: AbsMicroSeconds=%d, TimeAt=%d", te.TrackNo, te.AbsTicks, te.AbsMicroSeconds, tr.SMF().TimeAt(te.AbsTicks)))
			}
		})
	})
	if c.Panicked {
		report(c.Sig+":Do", res, evs, -1, "TracksReader.Do panicked: "+c.Value)
	}
	// the same iteration restricted to one message type: the events that are
	// handed out keep their ticks and times
	wantTicks := []int64{0, 100480, 101440}
	var gotTicks []int64
	tr2 := smf.ReadTracksFrom(bytes.NewReader(data)).Only(midi.NoteOnMsg)
	c = engine.Catch(func() {
		tr2.Do(func(te smf.TrackEvent) {
			ctx.Eval()
			gotTicks = append(gotTicks, te.AbsTicks)
			ex, segs := exact(res, evs, te.AbsTicks)
			if ex.Cmp(big.NewRat(horizonUS, 1)) > 0 {
				return
			}
			diff := new(big.Rat).Sub(new(big.Rat).SetInt64(te.AbsMicroSeconds), ex)
			diff.Abs(diff)
			if diff.Cmp(big.NewRat(int64(segs), 1)) > 0 {
				report("do:only-filter:abs-microseconds:"+feature(evs), res, evs, te.AbsTicks, fmt.Sprintf("with Only(NoteOn): event at tick %d gets %d us", te.AbsTicks, te.AbsMicroSeconds))
			}
		})
	})
	// the iteration restricted to the track that holds no tempo event: its
	// events keep the times the tempo map gives them
	if style <= 2 {
		tr3 := smf.ReadTracksFrom(bytes.NewReader(data), 1)
		n3 := 0
		c3 := engine.Catch(func() {
			tr3.Do(func(te smf.TrackEvent) {
				ctx.Eval()
				n3++
				ex, segs := exact(res, evs, te.AbsTicks)
				if ex.Cmp(big.NewRat(horizonUS, 1)) > 0 {
					return
				}
				diff := new(big.Rat).Sub(new(big.Rat).SetInt64(te.AbsMicroSeconds), ex)
				diff.Abs(diff)
				if diff.Cmp(big.NewRat(int64(segs), 1)) > 0 {
					report("do:track-selection:abs-microseconds:"+feature(evs), res, evs, te.AbsTicks, fmt.Sprintf("with only track 1 selected: event at tick %d gets %d us", te.AbsTicks, te.AbsMicroSeconds))
				}
			})
		})
		if c3.Panicked {
			report(c3.Sig+":Do-selection", res, evs, -1, "ReadTracksFrom(rd, 1).Do panicked: "+c3.Value)
		} else if n3 == 0 {
			report("do:track-selection:no-events", res, evs, -1, "with only track 1 selected no event is handed out")
		}
	}
	if c.Panicked {
		report(c.Sig+":Do-only", res, evs, -1, "TracksReader.Only(...).Do panicked: "+c.Value)
	} else if fmt.Sprint(gotTicks) != fmt.Sprint(wantTicks) {
		report("do:only-filter:ticks", res, evs, -1, fmt.Sprintf("with Only(NoteOn) the note-ons are handed out at ticks %v, they sit at %v", gotTicks, wantTicks))
	}
}

func maps(resIdx, first int) {
	res := resolutions[resIdx]
	maxEv := ctx.Pick(3, 4)
	type opt struct{ g, u int }
	var opts []tev
	for _, g := range gaps {
		for _, u := range uss {
			opts = append(opts, tev{g, u})
		}
	}
	if first == 0 {
		judgeMap(res, nil)
	}
	evs := make([]tev, maxEv)
	var rec func(i, n int)
	rec = func(i, n int) {
		if i == n {
			judgeMap(res, evs[:n])
			return
		}
		for _, o := range opts {
			evs[i] = o
			rec(i+1, n)
		}
	}
	for n := 1; n <= maxEv; n++ {
		evs[0] = opts[first]
		rec(1, n)
	}
}

func inverse(part int) {
	bpms := []float64{120, 20, 61.5, 400, 3.58, 1000, 6e7 / 500001.0}
	for _, res := range resolutions {
		mt := smf.MetricTicks(res)
		for _, bpm := range bpms {
			rate := bpm / 60 * float64(res) // ticks per second
			if rate >= 1e7 {
				continue
			}
			ns := []uint32{0, 1, 2, 3, 479, 480, 959, 960, 100000, 1 << 20, 1<<31 - 1, 1<<32 - 1}
			check := func(n uint32) {
				durUS := float64(n) / rate * 1e6
				if durUS >= float64(int64(1)<<40) {
					return
				}
				ctx.Eval()
				d := mt.Duration(bpm, n)
				back := mt.Ticks(bpm, d)
				if back != n {
					if ctx.SigCount("inverse:ticks-duration") < 10 {
						ctx.Violation("inverse:ticks-duration", map[string]interface{}{"kind": "inverse", "resolution": res, "bpm": bpm, "ticks": n,
							"what": fmt.Sprintf("Ticks(Duration(%d)) = %d (duration %v)", n, back, time.Duration(d))})
					}
				}
			}
			for _, n := range ns {
				check(n)
			}
			// dense sweep for four (resolution, tempo) pairs, spread over the parts
			if (res == 960 && bpm == 120) || (res == 24 && bpm == 61.5) || (res == 32767 && bpm == 400-0) || (res == 480 && bpm == 20) {
				for n := uint32(part); n <= 200000; n += 8 {
					check(n)
				}
			}
		}
	}
}

// judgeLight reads the file and compares TimeAt at the given ticks only.
func judgeLight(res uint16, evs []tev, queries []int64, family string) {
	data, err := buildFile(res, evs, 0)
	if err != nil {
		ctx.Guard(false, "cannot build file: %v", err)
		return
	}
	var s *smf.SMF
	c := engine.Catch(func() { s, err = smf.ReadFrom(bytes.NewReader(data)) })
	if c.Panicked || err != nil {
		report("tempomap:read:"+family, res, evs, -1, fmt.Sprintf("cannot read the file: %v %s", err, c.Value))
		return
	}
	for _, q := range queries {
		ex, segs := exact(res, evs, q)
		if ex.Cmp(big.NewRat(horizonUS, 1)) > 0 {
			continue
		}
		ctx.Eval()
		var got int64
		c := engine.Catch(func() { got = s.TimeAt(q) })
		if c.Panicked {
			report(c.Sig+":TimeAt", res, evs, q, "TimeAt panicked: "+c.Value)
			return
		}
		diff := new(big.Rat).Sub(new(big.Rat).SetInt64(got), ex)
		diff.Abs(diff)
		if diff.Cmp(big.NewRat(int64(segs), 1)) > 0 {
			exf, _ := ex.Float64()
			report("timeat:value:"+family, res, evs, q, fmt.Sprintf("TimeAt=%d us, exact integral %.3f us, %d segments", got, exf, segs))
			return
		}
		if len(evs) >= 2 {
			ctx.NontrivialN(1)
		}
	}
}

// divisionZero: a header whose division word is 0 (not a valid resolution; the
// library documents 0 as "960"): whatever the times are, asking for them must
// not panic and they must not decrease.
func divisionZero() {
	for _, evs := range [][]tev{nil, {{0, 500000}}, {{480, 250000}}, {{1, 1}, {100000, 0xFFFFFF}}} {
		data, err := buildFile(96, evs, 0)
		if err != nil {
			continue
		}
		data = append([]byte(nil), data...)
		data[12], data[13] = 0, 0
		ctx.Eval()
		ctx.Add("division_zero_files", 1)
		var prev int64 = -1
		c := engine.Catch(func() {
			s, err := smf.ReadFrom(bytes.NewReader(data))
			if err != nil {
				return
			}
			for _, q := range []int64{0, 1, 479, 480, 481, 100000, 1 << 20} {
				t := s.TimeAt(q)
				if t < prev {
					report("timeat:decreasing:division-zero", 0, evs, q, fmt.Sprintf("TimeAt(%d)=%d below %d", q, t, prev))
				}
				if t < 0 || (q == 0 && t != 0) || (q > 0 && len(evs) == 0 && t == 0) {
					report("timeat:sign:division-zero", 0, evs, q, fmt.Sprintf("TimeAt(%d)=%d: times are not negative, zero at tick 0 and not zero later", q, t))
				}
				prev = t
			}
			smf.ReadTracksFrom(bytes.NewReader(data)).Do(func(te smf.TrackEvent) {})
		})
		if c.Panicked {
			report(c.Sig+":division-zero", 0, evs, -1, "a file whose header division is 0: "+c.Value)
		}
	}
}

// longTracks: tempo events spread over more than 2^32 ticks (every gap is the
// longest delta the format has), queried around every one of them.
func longTracks() {
	for _, n := range []int{15, 16, 17, 18, 24} {
		for _, res := range []uint16{32767, 960} {
			var evs []tev
			var qs []int64
			var at int64
			for i := 0; i < n; i++ {
				evs = append(evs, tev{0x0FFFFFFF, uint32(250000 + 125000*(i%3))})
				at += 0x0FFFFFFF
				qs = append(qs, at-1, at, at+1, at+1000)
			}
			judgeLight(res, evs, append([]int64{0, 1 << 31, 1 << 32, 1<<32 + 5}, qs...), "long-track")
			ctx.Add("long_track_maps", 1)
		}
	}
}

// longMaps: hundreds and thousands of tempo events (a conversion that keeps
// a running sum, a cache or an index over the changes sees every count around
// 64, 256, 1000 and 5000), gaps and tempi cycling, queried at sixty places
// between the first and behind the last change.
func longMaps(part, parts int) {
	gapsC := []uint32{1, 7, 480, 3, 0, 96}
	tempC := []uint32{500000, 250000, 499999, 1000000, 333333, 500000}
	k := 0
	for _, n := range []int{50, 63, 64, 65, 255, 256, 257, 1000, 1023, 1024, 1025, 5000} {
		for _, res := range []uint16{960, 96, 32767} {
			for _, shift := range []int{0, 1, 4} {
				k++
				if k%parts != part {
					continue
				}
				var evs []tev
				var at int64
				var ticks []int64
				for i := 0; i < n; i++ {
					g := gapsC[(i+shift)%len(gapsC)]
					evs = append(evs, tev{g, tempC[(i*5+shift)%len(tempC)]})
					at += int64(g)
					ticks = append(ticks, at)
				}
				var qs []int64
				for j := 0; j < 20; j++ {
					t := ticks[(len(ticks)-1)*j/19]
					qs = append(qs, t-1, t, t+1)
				}
				qs = append(qs, at+int64(res)*100)
				var pos []int64
				for _, q := range qs {
					if q >= 0 {
						pos = append(pos, q)
					}
				}
				judgeLight(res, evs, pos, "long-map")
				ctx.Add("long_maps", 1)
			}
		}
	}
}

// tempoValues: the tempo payload swept over the 24-bit range (thorough: every
// value; quick: every 61st plus the neighbourhood of every power of two and of
// the common tempi), as a single tempo event queried far out (an error of a
// nanosecond per quarter note must show), and as two events whose values
// differ by one (nearly equal tempi must remain two segments).
func tempoValues(part, parts int) {
	far := func(res uint16) []int64 { return []int64{int64(res) * 3000, 1 << 20, 1<<31 - 1} }
	one := func(u uint32) {
		for _, res := range []uint16{960, 24} {
			judgeLight(res, []tev{{0, u}}, far(res), "value-sweep:one-event")
			ctx.Add("tempo_values_swept", 1)
		}
		if u < 0xFFFFFF {
			judgeLight(480, []tev{{0, u}, {480, u + 1}}, []int64{481, 1 << 20}, "value-sweep:neighbour-values")
			judgeLight(480, []tev{{7, u + 1}, {1, u}}, []int64{9, 1 << 20}, "value-sweep:neighbour-values")
		}
	}
	step := uint32(ctx.Pick(61, 1))
	for u := uint32(1 + part); u <= 0xFFFFFF; u += uint32(parts) * step {
		one(u)
	}
	if step > 1 && part == 0 {
		seen := map[uint32]bool{}
		var specials []uint32
		for b := uint(0); b <= 24; b++ {
			for d := -3; d <= 3; d++ {
				specials = append(specials, uint32(int64(1)<<b+int64(d)))
			}
		}
		for bpm := 20; bpm <= 300; bpm++ {
			specials = append(specials, uint32(6e7/float64(bpm)), uint32(6e7/float64(bpm))+1)
		}
		for _, u := range specials {
			if u >= 1 && u <= 0xFFFFFF && !seen[u] {
				seen[u] = true
				one(u)
			}
		}
	}
}

func main() {
	ctx = engine.Start("C11", "exploration")
	disturb.Install(ctx)
	if ctx.ReplayPath != "" {
		if cp.Replay(ctx, ctx.LoadReplay(), "time-at", cc.TimeAt()) {
			ctx.Finish("replay")
		}
		m := ctx.LoadReplay()
		if m["kind"] == "tempomap" {
			var evs []tev
			l, _ := m["tempo_events_gap_us"].([]interface{})
			for _, e := range l {
				p := e.([]interface{})
				evs = append(evs, tev{uint32(p[0].(float64)), uint32(p[1].(float64))})
			}
			if m["resolution"].(float64) == 0 {
				divisionZero()
			} else {
				judgeMap(uint16(m["resolution"].(float64)), evs)
			}
		} else {
			inverse(0)
		}
		ctx.Finish("replay")
	}
	ctx.Assume("tolerance exactly as stated: one microsecond per tempo segment (the stretch before the first change, or after a change at a distinct tick below the query)")
	ctx.Assume("horizon 100 days; tempo values are raw 24-bit microsecond-per-quarter payloads; query ticks up to 2^31 in the enumerated maps, beyond 2^32 in the long-track family")
	nopt := len(gaps) * len(uss)
	type job struct{ r, f int }
	var jobs []job
	for r := range resolutions {
		for f := 0; f < nopt; f++ {
			jobs = append(jobs, job{r, f})
		}
	}
	ctx.Jobs("concurrent", 1, func(int) {
		cp.Litmus(ctx)
		cp.Check(ctx, "time-at", cc.TimeAt())
	})
	ctx.Jobs("maps", len(jobs), func(j int) { maps(jobs[j].r, jobs[j].f) })
	ctx.Jobs("inverse", 8, func(j int) {
		inverse(j)
		divisionZero()
		if j == 0 {
			longTracks()
		}
	})
	ctx.Jobs("tempo-values", 16, func(j int) { tempoValues(j, 16) })
	ctx.Jobs("long-maps", 16, func(j int) { longMaps(j, 16) })
	if !ctx.IsChild() {
		ctx.RacePairs("timeat")
	}
	ctx.Sample(map[string]interface{}{"resolution": 480, "tempo_events(gap,us)": [][2]int{{480, 250000}, {0, 500001}, {1, 16777215}}, "queries": "0, every tempo tick +-2, 2^20, 2^31-1"})
	ctx.Guard(ctx.NontrivialCount() > 1000, "too few multi-segment queries")
	ctx.Finish("all tempo maps of 0..3/4 tempo events over gaps {0,1,479,480,100000} x microseconds-per-quarter {0,1,250000,500000,500001,0xFFFFFF} for 6 resolutions, queried at 0, every tempo tick +-2, 2^20, 2^31-1 within a 100-day horizon against the exact rational integral; every 61st (thorough: every) 24-bit tempo value as a single event queried far out and as two events with neighbouring values; iterator times; Ticks(Duration(n)) for boundary n and n in 0..200000 on four (resolution, tempo) pairs; non-trivial = queries on maps with at least two tempo events")
}
