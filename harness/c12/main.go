// C12 — playback sends every playable event once, in file order, never early.
//
// Files with 1..3 tracks, per-track event counts {0,1,2,3,7,13,20}, tick
// patterns, interspersed meta events and a tempo change; every track selection
// and every map from {default, track 0, 1, 2} to {absent, port A, port B}.
// The clock is virtual (time.Sleep in smf/track.go replaced through the
// overlay); recording fake out ports note the virtual instant of every Send.
package main

import (
	"bytes"
	"fmt"
	"math/big"
	"sort"
	"strings"
	"time"

	"gitlab.com/gomidi/midi/v2"
	"gitlab.com/gomidi/midi/v2/drivers"
	"gitlab.com/gomidi/midi/v2/internal/verifh/disturb"
	"gitlab.com/gomidi/midi/v2/internal/verifh/engine"
	"gitlab.com/gomidi/midi/v2/internal/verifh/refsmf"
	"gitlab.com/gomidi/midi/v2/internal/verifh/vtime"
	"gitlab.com/gomidi/midi/v2/smf"
)

var ctx *engine.Ctx

type sent struct {
	port string
	data []byte
	atUS int64
}

type log struct{ evs []sent }

type fakeOut struct {
	name string
	l    *log
	open bool
	cost time.Duration // virtual time a Send takes
}

func (f *fakeOut) Open() error             { f.open = true; return nil }
func (f *fakeOut) Close() error            { f.open = false; return nil }
func (f *fakeOut) IsOpen() bool            { return f.open }
func (f *fakeOut) Number() int             { return 0 }
func (f *fakeOut) String() string          { return f.name }
func (f *fakeOut) Underlying() interface{} { return nil }
func (f *fakeOut) Send(b []byte) error {
	f.l.evs = append(f.l.evs, sent{f.name, append([]byte(nil), b...), int64(vtime.Elapsed() / 1000)})
	if f.cost > 0 {
		vtime.Sleep(f.cost)
	}
	return nil
}

var _ drivers.Out = &fakeOut{}

var counts = []int{0, 1, 2, 3, 7, 13, 20}

// tick patterns: delta of event i (of n) on track tr
var patterns = map[string]func(tr, i, n int) uint32{
	"one-tick": func(tr, i, n int) uint32 { return 0 },
	"step-middle": func(tr, i, n int) uint32 {
		if i == n/2 {
			return 480
		}
		return 0
	},
	"increasing": func(tr, i, n int) uint32 { return 10 },
	"interleaved": func(tr, i, n int) uint32 {
		if i == 0 {
			return uint32(tr) * 5
		}
		return 15
	},
	"later-earlier": func(tr, i, n int) uint32 {
		if i == 0 {
			return uint32(2-tr) * 100
		}
		return 0
	},
	// one tick apart at 960 ticks per quarter: gaps of about half a millisecond
	"adjacent-ticks": func(tr, i, n int) uint32 { return 1 },
}
var patNames = []string{"one-tick", "step-middle", "increasing", "interleaved", "later-earlier", "adjacent-ticks"}

type expectEv struct {
	track int
	data  []byte
	tick  int64
	pc    bool // a program change (filtered out by Only(ControlChangeMsg))
	note  bool // a note message (filtered out by both Only variants)
}

// build creates the file; channel messages are unique (channel = track,
// controller = index); meta events are interspersed; track 0 may change tempo.
func build(ns []int, pat string, withMeta bool) ([]byte, [][]expectEv) {
	s := smf.NewSMF1()
	s.TimeFormat = smf.MetricTicks(480)
	if pat == "adjacent-ticks" {
		s.TimeFormat = smf.MetricTicks(960)
	}
	exp := make([][]expectEv, len(ns))
	for tr, n := range ns {
		var t smf.Track
		var tick int64
		if withMeta {
			t.Add(0, smf.MetaTrackSequenceName(fmt.Sprintf("t%d", tr)))
			if tr == 0 && tempoLayout == 0 {
				t.Add(0, smf.MetaTempo(90))
			}
			if tr == 0 && tempoLayout == 3 {
				t.Add(0, smf.MetaTempo(240))
			}
		}
		for i := 0; i < n; i++ {
			if withMeta && i%4 == 2 {
				// a message of another type with a delta of its own
				tick += 7
				pm := midi.ProgramChange(uint8(tr), uint8(i))
				t.Add(7, pm)
				exp[tr] = append(exp[tr], expectEv{tr, pm, tick, true, false})
			}
			d := patterns[pat](tr, i, n)
			tick += int64(d)
			m := midi.ControlChange(uint8(tr), uint8(i), uint8(100+tr))
			t.Add(d, m)
			exp[tr] = append(exp[tr], expectEv{tr, m, tick, false, false})
			if withMeta && i%5 == 3 {
				// the very same message once more on the same tick (a doubled controller value)
				t.Add(0, m)
				exp[tr] = append(exp[tr], expectEv{tr, m, tick, false, false})
			}
			if withMeta && i%6 == 5 {
				// a note of no length: note-on and its note-off (once as note-on with
				// velocity 0) on the tick of the controller before them
				on := midi.NoteOn(uint8(tr), uint8(i), 90)
				off := midi.NoteOff(uint8(tr), uint8(i))
				if i%12 == 11 {
					off = midi.NoteOn(uint8(tr), uint8(i), 0)
				}
				t.Add(0, on)
				t.Add(0, off)
				exp[tr] = append(exp[tr], expectEv{tr, on, tick, false, true}, expectEv{tr, off, tick, false, true})
			}
			if withMeta {
				// one meta event of every type byte in turn (assigned or not, with a
				// payload that has the usual length of its kind where there is one),
				// a sysex and an escape: none of them is ever sent
				typ := byte((i*7 + tr*3) % 128)
				if typ != 0x2F && typ != 0x51 {
					pl := []byte{byte(i), 0x01}
					switch typ {
					case 0x00, 0x59:
						pl = []byte{0x00, 0x01}
					case 0x20, 0x21:
						pl = []byte{0x01}
					case 0x54:
						pl = []byte{1, 2, 3, 4, 5}
					case 0x58:
						pl = []byte{4, 2, 24, 8}
					}
					t.Add(0, smf.MetaUndefined(typ, pl))
				}
				if i%5 == 2 {
					t.Add(0, smf.Message([]byte{0xF0, 0x7E, 0x7F, 0x09, 0x01, 0xF7}))
					t.Add(0, smf.Message([]byte{0xF7, 0xF8, 0x90, 0x40}))
				}
			}
			if withMeta && i%3 == 1 {
				t.Add(0, smf.MetaText("x"))
				if tr == 0 && i == 4 {
					// layout 0: second of two changes; 1: the only change, faster
					// than the default; 2: the only change, slower
					if tempoLayout == 2 {
						// slow and not a round number of beats per minute: 16689842 us per quarter
						t.Add(0, smf.MetaUndefined(0x51, []byte{0xFE, 0xAA, 0xB2}))
					} else {
						t.Add(0, smf.MetaTempo([]float64{200, 200, 47, 50}[tempoLayout]))
					}
				}
				if tr == 1 && i == 1 && tempoLayout == 3 {
					// layout 3: tempo events in two tracks - track 0 is fast from the
					// start and slows down late; track 1 slows the song down to that
					// same tempo earlier (a tick of its own, so that no two different
					// tempi share a tick)
					tick += 3
					t.Add(3, smf.MetaTempo(50))
				}
			}
		}
		t.Close(5)
		s.Add(t)
	}
	var buf bytes.Buffer
	s.WriteTo(&buf)
	return buf.Bytes(), exp
}

// tempoLayout selects which tempo events build() puts on track 0 when meta
// events are interspersed (see there).
var tempoLayout int

// reportMap: the map as the caller first had it (same-map variants judge the
// changed map but a replay starts from the original).
var reportMap map[int]string

func report(sig string, ns []int, pat string, withMeta bool, sel []int, mp map[int]string, what string) {
	if reportMap != nil {
		mp = reportMap
	}
	if ctx.SigCount(sig) < 10 {
		ctx.Violation(sig, map[string]interface{}{"kind": "play", "events_per_track": ns, "pattern": pat, "with_meta": withMeta, "tempo_layout": tempoLayout, "selection": sel, "port_map": fmt.Sprint(mp), "map": mp, "what": what})
	}
}

// schedule returns, for the file in data, the earliest instant (microseconds
// after the start) at which an event at a tick may be sent: the exact integral
// of the tempo map found in the file by the reference parser, minus the
// rounding the tick-to-time conversion is allowed (one microsecond per tempo
// segment, C11). It does not use the library's TimeAt.
func schedule(data []byte) func(tick int64) int64 {
	f, err := refsmf.Parse(data, refsmf.Tolerant)
	if err != nil {
		ctx.Guard(false, "reference parser rejects the harness's own file: %v", err)
		return func(int64) int64 { return 0 }
	}
	type ch struct{ tick, us int64 }
	var chs []ch
	for _, tr := range f.Tracks {
		var abs int64
		for _, e := range tr {
			abs += int64(e.Delta)
			if len(e.Msg) == 6 && e.Msg[0] == 0xFF && e.Msg[1] == 0x51 {
				chs = append(chs, ch{abs, int64(e.Msg[3])<<16 | int64(e.Msg[4])<<8 | int64(e.Msg[5])})
			}
		}
	}
	sort.SliceStable(chs, func(a, b int) bool { return chs[a].tick < chs[b].tick })
	res := int64(f.Division)
	return func(tick int64) int64 {
		num := new(big.Int) // sum of ticks*us
		cur, pos, segs := int64(500000), int64(0), int64(1)
		for _, c := range chs {
			if c.tick >= tick {
				break
			}
			num.Add(num, big.NewInt((c.tick-pos)*cur))
			pos, cur = c.tick, c.us
			segs++
		}
		num.Add(num, big.NewInt((tick-pos)*cur))
		q := new(big.Int).Div(num, big.NewInt(res))
		return q.Int64() - segs
	}
}

func dense(ns []int) string {
	for _, n := range ns {
		if n >= 7 {
			return "many-events"
		}
	}
	return "few-events"
}

func play(data []byte, exp [][]expectEv, ns []int, pat string, withMeta bool, sel []int, mp map[int]string) {
	playVariant(data, exp, ns, pat, withMeta, sel, mp, false, false, false)
	if len(mp) == 2 && len(sel) != 1 {
		// Only(ControlChangeMsg): the other message types are skipped, nothing else changes
		playVariant(data, exp, ns, pat, withMeta, sel, mp, true, false, false)
	}
	if len(mp) == 2 && len(sel) == 0 {
		// Only with two types that together cover everything: nothing is skipped, nothing doubled
		playVariant(data, exp, ns, pat, withMeta, sel, mp, false, false, true)
	}
	if len(mp) == 2 && len(sel) == 0 {
		// a filter set and taken away again (Only() without types): everything plays
		clearedFilter = true
		playVariant(data, exp, ns, pat, withMeta, sel, mp, false, false, false)
		clearedFilter = false
	}
	if len(mp) == 1 && mp[-1] == "B" {
		// the same reader played a second time, into a port whose Send takes time
		playVariant(data, exp, ns, pat, withMeta, sel, mp, false, true, false)
	}
	if _, ok := mp[-1]; ok && len(mp) <= 2 && len(sel) != 1 {
		// the caller's own map used for two playbacks, with its default entry
		// exchanged (1) or taken away (2) in between: the second playback
		// follows the map as it is then
		for sameMap = 1; sameMap <= 2; sameMap++ {
			playVariant(data, exp, ns, pat, withMeta, sel, mp, false, false, false)
		}
		sameMap = 0
	}
}

// sameMap: playVariant plays once with the map as given, changes the default
// entry of that very map object and judges a second playback with it.
var sameMap int

// clearedFilter: playVariant sets a type filter and takes it away again before playing.
var clearedFilter bool

func playVariant(data []byte, expAll [][]expectEv, ns []int, pat string, withMeta bool, sel []int, mp map[int]string, only bool, twice bool, both bool) {
	if both {
		pat += "+only-two-types"
	}
	if clearedFilter {
		pat += "+filter-cleared"
	}
	ctx.Eval()
	vtime.Reset()
	reportMap = nil
	exp := expAll
	if only {
		exp = make([][]expectEv, len(expAll))
		for t := range expAll {
			for _, e := range expAll[t] {
				if !e.pc && !e.note {
					exp[t] = append(exp[t], e)
				}
			}
		}
		pat += "+only-filter"
	}
	if both {
		// controllers and program changes are wanted: the notes are not
		exp = make([][]expectEv, len(expAll))
		for t := range expAll {
			for _, e := range expAll[t] {
				if !e.note {
					exp[t] = append(exp[t], e)
				}
			}
		}
	}
	if twice {
		pat += "+second-playback"
	}
	l := &log{}
	ports := map[string]*fakeOut{"A": {name: "A", l: l, open: true}, "B": {name: "B", l: l, open: true}}
	outs := map[int]drivers.Out{}
	for k, v := range mp {
		outs[k] = ports[v]
	}
	// the selection is handed over from a slice of the caller's that is
	// overwritten once the call has returned
	selArg := append([]int(nil), sel...)
	tr := smf.ReadTracksFrom(bytes.NewReader(data), selArg...)
	for i := range selArg {
		selArg[i] = 7 + i
	}
	if sameMap != 0 {
		pat += fmt.Sprintf("+same-map-%d", sameMap)
		engine.Catch(func() { tr.MultiPlay(outs) })
		l.evs = nil
		vtime.Reset()
		reportMap = mp
		mp2 := map[int]string{}
		for k, v := range mp {
			mp2[k] = v
		}
		if sameMap == 1 {
			other := "A"
			if mp[-1] == "A" {
				other = "B"
			}
			mp2[-1] = other
			outs[-1] = ports[other]
		} else {
			delete(mp2, -1)
			delete(outs, -1)
		}
		mp = mp2
	}
	if only {
		tr = tr.Only(midi.ControlChangeMsg)
	}
	if both {
		// (meta types in the list do not make meta events playable)
		tr = tr.Only(midi.ControlChangeMsg, midi.ProgramChangeMsg, smf.MetaTextMsg, smf.MetaTrackNameMsg, smf.MetaUndefinedMsg, smf.MetaTempoMsg)
	}
	if clearedFilter {
		tr = tr.Only(midi.ControlChangeMsg).Only()
	}
	if twice {
		for _, p := range ports {
			p.cost = 60 * time.Millisecond
		}
		// the first playback uses another map: track 0 only, no default port
		first := map[int]drivers.Out{0: ports["A"]}
		if len(ns)%2 == 0 {
			first = outs
		}
		engine.Catch(func() { tr.MultiPlay(first) })
		l.evs = nil
		vtime.Reset()
	}
	if tr.Error() != nil {
		report("play:read-error", ns, pat, withMeta, sel, mp, tr.Error().Error())
		return
	}
	var err error
	viaPlay := !only && !twice && !both && len(mp) == 1 && mp[-1] == "A" && (len(ns)%2 == 1 || strings.Contains(pat, "@format0-header"))
	c := engine.Catch(func() {
		if viaPlay {
			// Play(out) is documented as MultiPlay with the port as default; it opens the port
			ports["A"].open = false
			err = tr.Play(ports["A"])
		} else {
			err = tr.MultiPlay(outs)
		}
	})
	if viaPlay && !ports["A"].open && !c.Panicked {
		report("play:port-not-opened", ns, pat, withMeta, sel, mp, "Play did not open the out port")
	}
	if c.Panicked {
		report(c.Sig+":MultiPlay", ns, pat, withMeta, sel, mp, "MultiPlay panicked: "+c.Value)
		return
	}
	if len(outs) == 0 {
		if err == nil {
			report("play:empty-map-accepted", ns, pat, withMeta, sel, mp, "no ports given but no error")
		}
		return
	}
	if err != nil {
		report("play:error", ns, pat, withMeta, sel, mp, err.Error())
		return
	}
	selected := func(t int) bool {
		if len(sel) == 0 {
			return true
		}
		for _, s := range sel {
			if s == t {
				return true
			}
		}
		return false
	}
	portOf := func(t int) string {
		if p, ok := mp[t]; ok {
			return p
		}
		return mp[-1]
	}
	// expected per track
	next := make([]int, len(exp))
	total := 0
	for t := range exp {
		if selected(t) && portOf(t) != "" {
			total += len(exp[t])
		}
	}
	f := dense(ns)
	var lastAt int64 = -1
	s := tr.SMF()
	earliest := schedule(data)
	for _, ev := range l.evs {
		if len(ev.data) == 0 || ev.data[0] == 0xFF {
			report("play:meta-sent", ns, pat, withMeta, sel, mp, fmt.Sprintf("meta or empty message sent: % X", ev.data))
			return
		}
		t := int(ev.data[0] & 0x0F)
		if t >= len(exp) || !selected(t) || portOf(t) == "" {
			report("play:unselected-track-played", ns, pat, withMeta, sel, mp, fmt.Sprintf("message % X of track %d sent", ev.data, t))
			return
		}
		if next[t] >= len(exp[t]) {
			report("play:duplicate:"+f, ns, pat, withMeta, sel, mp, fmt.Sprintf("track %d: more messages sent than the file holds (% X)", t, ev.data))
			return
		}
		want := exp[t][next[t]]
		if !bytes.Equal(want.data, ev.data) {
			report("play:order:same-track:"+f, ns, pat, withMeta, sel, mp, fmt.Sprintf("track %d: got % X where the file order has % X", t, ev.data, want.data))
			return
		}
		next[t]++
		if ev.port != portOf(t) {
			report("play:port", ns, pat, withMeta, sel, mp, fmt.Sprintf("track %d went to port %s, mapped to %s", t, ev.port, portOf(t)))
			return
		}
		sched := earliest(want.tick)
		if ev.atUS < sched {
			report("play:early", ns, pat, withMeta, sel, mp, fmt.Sprintf("% X sent at %d us, scheduled at %d us", ev.data, ev.atUS, sched))
			return
		}
		if ev.atUS < lastAt {
			report("play:time-goes-back", ns, pat, withMeta, sel, mp, "send instants decrease")
			return
		}
		lastAt = ev.atUS
	}
	// merge by non-decreasing scheduled time across tracks
	var lastSched int64 = -1
	idx := make([]int, len(exp))
	for _, ev := range l.evs {
		t := int(ev.data[0] & 0x0F)
		sc := s.TimeAt(exp[t][idx[t]].tick)
		idx[t]++
		if sc < lastSched {
			report("play:order:across-tracks", ns, pat, withMeta, sel, mp, "messages of different tracks are not merged by non-decreasing time")
			return
		}
		lastSched = sc
	}
	sentN := len(l.evs)
	if sentN != total {
		report("play:missing:"+f, ns, pat, withMeta, sel, mp, fmt.Sprintf("%d messages sent, %d expected", sentN, total))
		return
	}
	multi := 0
	for t := range exp {
		if selected(t) && portOf(t) != "" && len(exp[t]) > 1 {
			multi++
		}
	}
	if multi >= 2 {
		ctx.NontrivialN(1)
	}
}

func allMaps(ntr int) []map[int]string {
	keys := []int{-1}
	for t := 0; t < ntr; t++ {
		keys = append(keys, t)
	}
	var out []map[int]string
	idx := make([]int, len(keys))
	rad := make([]int, len(keys))
	for i := range rad {
		rad[i] = 3
	}
	for {
		m := map[int]string{}
		for i, k := range keys {
			switch idx[i] {
			case 1:
				m[k] = "A"
			case 2:
				m[k] = "B"
			}
		}
		out = append(out, m)
		if !engine.Odometer(idx, rad) {
			break
		}
	}
	return out
}

func allSelections(ntr int) [][]int {
	var out [][]int
	for mask := 0; mask < 1<<ntr; mask++ {
		var s []int
		for t := 0; t < ntr; t++ {
			if mask&(1<<t) != 0 {
				s = append(s, t)
			}
		}
		out = append(out, s)
	}
	// selections that name a track the file does not have: alone (nothing is
	// selected, nothing may be played) and together with an existing one
	out = append(out, []int{ntr}, []int{0, ntr + 3})
	return out
}

func space(job int) {
	// job = (index into counts for track 0, track count, shard of the other tracks' counts)
	n0 := counts[job/6]
	sub := job % 6
	for ntr := 1; ntr <= 3; ntr++ {
		if (ntr < 3 && sub != ntr-1) || (ntr == 3 && sub < 2) {
			continue
		}
		rest := [][]int{{}}
		for k := 1; k < ntr; k++ {
			var nx [][]int
			for _, r := range rest {
				for _, c := range counts {
					if ntr == 3 && !ctx.Thorough() && c != 0 && c != 2 && c != 13 && c != 7 {
						continue
					}
					nx = append(nx, append(append([]int{}, r...), c))
				}
			}
			rest = nx
		}
		maps := allMaps(ntr)
		sels := allSelections(ntr)
		for ri, r := range rest {
			if ntr == 3 && ri%4 != sub-2 {
				continue
			}
			ns := append([]int{n0}, r...)
			for _, pat := range patNames {
				for pi, wm := range []bool{false, true, true, true} {
					if pi == 3 {
						if ntr != 2 {
							continue
						}
						tempoLayout = 3
					}
					// third round: a single tempo change after the start (faster or
					// slower than the default tempo), files of one or two tracks
					if pi < 3 {
						tempoLayout = 0
					}
					if pi == 2 {
						if ntr > 2 {
							continue
						}
						tempoLayout = 1 + (len(pat)+n0)%2
					}
					data, exp := build(ns, pat, wm)
					for _, sel := range sels {
						for _, mp := range maps {
							play(data, exp, ns, pat, wm, sel, mp)
						}
					}
					if ntr >= 2 && pi == 0 {
						// the same chunks under a header that says format 0 (the reader
						// takes the tracks as they come): still merged by time
						d0 := append([]byte(nil), data...)
						d0[8], d0[9] = 0, 0
						for _, mp := range maps {
							play(d0, exp, ns, pat+"@format0-header", wm, nil, mp)
						}
					}
					if pi == 0 {
						// a header that declares no track at all (the reader then takes
						// every track chunk up to the end of the data)
						dz := append([]byte(nil), data...)
						dz[10], dz[11] = 0, 0
						for _, mp := range maps {
							play(dz, exp, ns, pat+"@zero-tracks-header", wm, nil, mp)
						}
					}
				}
				tempoLayout = 0
			}
		}
	}
}

// manyTracks: track numbers beyond one byte: 300 tracks of two events each,
// selections and explicit port entries for tracks 0, 255, 256, 257 and 299.
// longTracks: thousands of events per track (what a player counts, batches or
// sorts while it runs), one to three tracks, every tick pattern, two maps.
func longTracks(part, parts int) {
	n := ctx.Pick(3000, 30000)
	k := 0
	for _, ns := range [][]int{{n}, {n / 2, n / 2}, {n / 2, 0, n / 3}, {17, n}} {
		for _, pat := range patNames {
			for _, wm := range []bool{false, true} {
				k++
				if k%parts != part {
					continue
				}
				tempoLayout = 0
				data, exp := build(ns, pat, wm)
				for _, mp := range []map[int]string{{-1: "A"}, {0: "A", -1: "B"}} {
					play(data, exp, ns, pat, wm, nil, mp)
					ctx.Add("long_track_plays", 1)
				}
			}
		}
	}
}

func manyTracks() {
	const nt = 300
	s := smf.NewSMF1()
	s.TimeFormat = smf.MetricTicks(480)
	type ev struct {
		msg  []byte
		tick int64
	}
	exp := make([][]ev, nt)
	for tr := 0; tr < nt; tr++ {
		var t smf.Track
		for i := 0; i < 2; i++ {
			m := midi.ControlChange(uint8(tr%16), uint8(tr/16), uint8(i)) // (channel, controller) identifies the track
			d := uint32(tr%7 + i)
			t.Add(d, m)
			var tick int64 = int64(tr % 7)
			if i == 1 {
				tick += int64(tr%7 + 1)
			}
			exp[tr] = append(exp[tr], ev{m, tick})
		}
		t.Close(0)
		s.Add(t)
	}
	var buf bytes.Buffer
	s.WriteTo(&buf)
	trackOf := func(b []byte) int { return int(b[0]&0x0F) + 16*int(b[1]) }
	for _, sel := range [][]int{nil, {257}, {0, 255, 256, 299}} {
		for _, mp := range []map[int]string{{-1: "A"}, {257: "B"}, {-1: "A", 256: "B", 299: "B"}} {
			ctx.Eval()
			vtime.Reset()
			l := &log{}
			ports := map[string]*fakeOut{"A": {name: "A", l: l, open: true}, "B": {name: "B", l: l, open: true}}
			outs := map[int]drivers.Out{}
			for k, v := range mp {
				outs[k] = ports[v]
			}
			tr := smf.ReadTracksFrom(bytes.NewReader(buf.Bytes()), sel...)
			var err error
			c := engine.Catch(func() { err = tr.MultiPlay(outs) })
			if c.Panicked || err != nil {
				report(c.Sig+":many-tracks", []int{nt}, "many-tracks", false, sel, mp, fmt.Sprintf("MultiPlay failed: %v %s", err, c.Value))
				continue
			}
			selected := func(t int) bool {
				if len(sel) == 0 {
					return true
				}
				for _, x := range sel {
					if x == t {
						return true
					}
				}
				return false
			}
			portOf := func(t int) string {
				if p, ok := mp[t]; ok {
					return p
				}
				return mp[-1]
			}
			next := make([]int, nt)
			bad := ""
			var lastSched int64 = -1
			for _, e := range l.evs {
				t := trackOf(e.data)
				switch {
				case t >= nt || !selected(t) || portOf(t) == "":
					bad = fmt.Sprintf("message of track %d played although not selected / not mapped", t)
				case next[t] >= 2 || !bytes.Equal(exp[t][next[t]].msg, e.data):
					bad = fmt.Sprintf("track %d: wrong or duplicated message % X", t, e.data)
				case e.port != portOf(t):
					bad = fmt.Sprintf("track %d went to port %s, mapped to %s", t, e.port, portOf(t))
				case e.atUS < tr.SMF().TimeAt(exp[t][next[t]].tick):
					bad = fmt.Sprintf("track %d message sent early", t)
				case tr.SMF().TimeAt(exp[t][next[t]].tick) < lastSched:
					bad = fmt.Sprintf("track %d message (scheduled at %d us) sent after one scheduled at %d us: tracks are not merged by time", t, tr.SMF().TimeAt(exp[t][next[t]].tick), lastSched)
				}
				if bad == "" {
					lastSched = tr.SMF().TimeAt(exp[t][next[t]].tick)
				}
				if bad != "" {
					break
				}
				next[t]++
			}
			if bad == "" {
				for t := 0; t < nt; t++ {
					want := 0
					if selected(t) && portOf(t) != "" {
						want = 2
					}
					if next[t] != want {
						bad = fmt.Sprintf("track %d: %d of %d messages sent", t, next[t], want)
						break
					}
				}
			}
			if bad != "" {
				report("play:many-tracks", []int{nt}, "many-tracks", false, sel, mp, bad)
			}
			ctx.Add("many_track_plays", 1)
		}
	}
}

func main() {
	ctx = engine.Start("C12", "exploration")
	disturb.Install(ctx)
	if ctx.ReplayPath != "" {
		m := ctx.LoadReplay()
		var ns, sel []int
		for _, x := range m["events_per_track"].([]interface{}) {
			ns = append(ns, int(x.(float64)))
		}
		if l, ok := m["selection"].([]interface{}); ok {
			for _, x := range l {
				sel = append(sel, int(x.(float64)))
			}
		}
		mp := map[int]string{}
		for k, v := range m["map"].(map[string]interface{}) {
			var ki int
			fmt.Sscanf(k, "%d", &ki)
			mp[ki] = v.(string)
		}
		pat := m["pattern"].(string)
		if pat == "many-tracks" {
			manyTracks()
			ctx.Finish("replay")
		}
		fmt0 := strings.Contains(pat, "@format0-header")
		pat = strings.Replace(pat, "@format0-header", "", 1)
		zeroTr := strings.Contains(pat, "@zero-tracks-header")
		pat = strings.Replace(pat, "@zero-tracks-header", "", 1)
		clearedFilter = strings.Contains(pat, "+filter-cleared")
		if strings.Contains(pat, "+same-map-1") {
			sameMap = 1
		} else if strings.Contains(pat, "+same-map-2") {
			sameMap = 2
		}
		only, twice, both := strings.Contains(pat, "+only-filter"), strings.Contains(pat, "+second-playback"), strings.Contains(pat, "+only-two-types")
		if i := strings.Index(pat, "+"); i >= 0 {
			pat = pat[:i]
		}
		if tl, ok := m["tempo_layout"].(float64); ok {
			tempoLayout = int(tl)
		}
		data, exp := build(ns, pat, m["with_meta"].(bool))
		if fmt0 {
			data[8], data[9] = 0, 0
			pat += "@format0-header"
		}
		if zeroTr {
			data[10], data[11] = 0, 0
			pat += "@zero-tracks-header"
		}
		playVariant(data, exp, ns, pat, m["with_meta"].(bool), sel, mp, only, twice, both)
		ctx.Finish("replay")
	}
	ctx.Assume("order among different tracks at equal times is not judged; sysex events are neither required nor forbidden; scheduled time = exact integral of the tempo events found in the file by the reference parser, less one microsecond per tempo segment (the rounding C11 allows); order across tracks is judged with the library's own TimeAt")
	ctx.Jobs("play", 6*len(counts), func(j int) { space(j) })
	ctx.Jobs("many-tracks", 1, func(int) { manyTracks() })
	ctx.Jobs("long-tracks", 16, func(j int) { longTracks(j, 16) })
	ctx.Sample(map[string]interface{}{"events_per_track": []int{13, 7}, "pattern": "one-tick", "selection": "all", "port_map": "default->A, track 1->B"})
	ctx.Guard(ctx.NontrivialCount() > 1000, "too few multi-track plays")
	ctx.Finish("files of 1..3 tracks with per-track event counts from {0,1,2,3,7,13,20}, 5 tick patterns, with and without interspersed meta/tempo events; every subset of tracks as selection and every map {default, track 0..2} -> {absent, A, B}; MultiPlay on a virtual clock against a reference player; non-trivial = plays with at least two played tracks of more than one event")
}
