// C13 — recording a live stream yields a valid file with faithful timing.
//
// Track.RecordFrom (and SMF.RecordFrom) on the loopback: message sequences
// (channel, real-time, system common, sysex, active sensing, stray data, stray
// F7) x inter-arrival times x tempi x resolutions; then Close, SMF.Add,
// WriteTo, ReadFrom. Oracle: tempo first; the channel messages that arrive
// (per the reference receiver) are stored unchanged, in order, at ticks within
// one tick per stored delta of the exact conversion of their time stamps; the
// written file passes the strict parser and reads back to the track.
package main

import (
	"bytes"
	"fmt"
	"math"
	"os"
	"time"

	"gitlab.com/gomidi/midi/v2/drivers"
	"gitlab.com/gomidi/midi/v2/drivers/testdrv"
	"gitlab.com/gomidi/midi/v2/internal/verifh/engine"
	ls "gitlab.com/gomidi/midi/v2/internal/verifh/livespace"
	"gitlab.com/gomidi/midi/v2/internal/verifh/refmidi"
	"gitlab.com/gomidi/midi/v2/internal/verifh/refsmf"
	sp "gitlab.com/gomidi/midi/v2/internal/verifh/smfspace"
	"gitlab.com/gomidi/midi/v2/internal/verifh/vtime"
	"gitlab.com/gomidi/midi/v2/smf"
)

var ctx *engine.Ctx

var alphabet = append(ls.SenderAlphabet(5),
	ls.SMsg{Name: "StrayData", Bytes: []byte{0x41}},
	ls.SMsg{Name: "StrayF7", Bytes: []byte{0xF7}},
	ls.SMsg{Name: "Continue", Bytes: []byte{0xFB}},
	ls.SMsg{Name: "UndefinedFD", Bytes: []byte{0xFD}}, // undefined real-time bytes
	ls.SMsg{Name: "TickF9", Bytes: []byte{0xF9}},
	ls.SMsg{Name: "UndefinedF4", Bytes: []byte{0xF4}}, // undefined system common
	ls.SMsg{Name: "Reset", Bytes: []byte{0xFF}},
	// deliveries that are not whole messages: a message cut short, data bytes
	// alone (running status across deliveries), a sysex that is never closed
	ls.SMsg{Name: "NoteOnCutShort", Bytes: []byte{0x90, 0x3C}},
	ls.SMsg{Name: "TwoDataBytes", Bytes: []byte{0x0A, 0x40}},
	ls.SMsg{Name: "SysExLeftOpen", Bytes: []byte{0xF0, 0x01}},
)

var tempi = []float64{120, 20, 61.5, 400, 1000}
var resolutions = []smf.MetricTicks{960, 24, 15360, 0}

// eff: the resolution a MetricTicks value stands for (0 is documented as 960)
func eff(res smf.MetricTicks) float64 {
	if res == 0 {
		return 960
	}
	return float64(res)
}

var gaps = []int32{0, 1, 10, 1000}

type arrived struct {
	msg []byte
	ts  int32
}

func names(seq []ls.SMsg) []string {
	var n []string
	for _, m := range seq {
		n = append(n, m.Name)
	}
	return n
}

func kindsOf(seq []ls.SMsg) string {
	has := map[string]bool{}
	for _, m := range seq {
		switch {
		case m.IsChannel():
		case m.Name == "StrayData" || m.Name == "StrayF7":
			has["stray"] = true
		case m.IsRealtime():
			has["realtime"] = true
		case m.Bytes[0] == 0xF0:
			has["sysex"] = true
		default:
			has["sys-common"] = true
		}
	}
	s := ""
	for _, k := range []string{"realtime", "sys-common", "sysex", "stray"} {
		if has[k] {
			if s != "" {
				s += "+"
			}
			s += k
		}
	}
	if s == "" {
		return "channel-only"
	}
	return s
}

func report(sig string, seq []ls.SMsg, sl []int32, bpm float64, res smf.MetricTicks, via string, what string) {
	if ctx.SigCount(sig) < 10 {
		ctx.Violation(sig, map[string]interface{}{"kind": "record", "messages": names(seq), "gaps_ms": sl, "bpm": bpm, "resolution": int(res), "via": via, "what": what})
	}
}

// record runs one case. via: "track" (Track.RecordFrom) or "smf" (SMF.RecordFrom).
func record(seq []ls.SMsg, sl []int32, bpm float64, res smf.MetricTicks, via string) {
	ctx.Eval()
	vtime.Reset()
	drv := testdrv.New("rec")
	ins, _ := drv.Ins()
	outs, _ := drv.Outs()
	var in drivers.In = ins[0]
	out := outs[0]
	out.Open()
	var tr smf.Track
	file := smf.New()
	file.TimeFormat = res
	// "smf-after-write" / "smf-after-read": the file already holds a track and
	// has been written (or comes from the reader) before the take is recorded
	pre := 0
	var preEvents []refsmf.Event
	if via == "smf-after-write" || via == "smf-after-read" {
		var t0 smf.Track
		t0.Add(0, smf.MetaTrackSequenceName("existing"))
		t0.Add(10, smf.Message([]byte{0x95, 0x30, 0x31}))
		t0.Close(2)
		file.Add(t0)
		pre = 1
		var first bytes.Buffer
		if _, werr := file.WriteTo(&first); werr != nil {
			ctx.Guard(false, "cannot write the prepared file: %v", werr)
			return
		}
		if via == "smf-after-read" {
			rd, rerr := smf.ReadFrom(bytes.NewReader(first.Bytes()))
			if rerr != nil {
				ctx.Guard(false, "cannot read the prepared file: %v", rerr)
				return
			}
			file = rd
		}
		preEvents = sp.FromTrack(file.Tracks[0])
	}
	var stop func()
	var err error
	c := engine.Catch(func() {
		if via == "track" {
			stop, err = tr.RecordFrom(in, res, bpm)
		} else {
			stop, err = file.RecordFrom(in, bpm)
		}
	})
	feat := kindsOf(seq)
	if c.Panicked || err != nil {
		report("record:start:"+via, seq, sl, bpm, res, via, fmt.Sprintf("RecordFrom failed: %v %s", err, c.Value))
		return
	}
	// reference: which messages arrive, and when
	ref := &refmidi.Receiver{BufSize: 1024, SysexOn: false}
	var arr []arrived
	var acc int32
	for i, m := range seq {
		acc += sl[i]
		drv.Sleep(time.Duration(sl[i]) * time.Millisecond)
		for _, b := range m.Bytes {
			for _, d := range ref.Feed(b) {
				arr = append(arr, arrived{d.Msg, acc})
			}
		}
		var serr error
		c = engine.Catch(func() { serr = out.Send(m.Bytes) })
		if c.Panicked || serr != nil {
			report(c.Sig+":record-send", seq, sl, bpm, res, via, fmt.Sprintf("Send failed while recording: %v %s", serr, c.Value))
			return
		}
	}
	c = engine.Catch(func() { stop() })
	if c.Panicked {
		report(c.Sig+":record-stop", seq, sl, bpm, res, via, "stop panicked: "+c.Value)
		return
	}
	if via == "track" {
		tr.Close(0)
		file.Add(tr)
	}
	if len(file.Tracks) != pre+1 {
		report("record:track-count:"+via, seq, sl, bpm, res, via, fmt.Sprintf("%d tracks after recording", len(file.Tracks)))
		return
	}
	t := file.Tracks[pre]
	evs := sp.FromTrack(t)
	// 1. tempo first
	wantTempo := []byte(smf.MetaTempo(bpm))
	if len(evs) == 0 || evs[0].Delta != 0 || !bytes.Equal(evs[0].Msg, wantTempo) {
		report("record:first-event-not-tempo:"+via, seq, sl, bpm, res, via, "track does not start with the tempo event at delta 0")
		return
	}
	// the event is a set-tempo event of the format (FF 51 03 and three bytes of
	// microseconds per quarter note) and says the recording tempo
	if m := evs[0].Msg; len(m) != 6 || m[0] != 0xFF || m[1] != 0x51 || m[2] != 0x03 ||
		math.Abs(float64(int(m[3])<<16|int(m[4])<<8|int(m[5]))-60000000/bpm) > 1 {
		report("record:tempo-event-malformed:"+via, seq, sl, bpm, res, via, fmt.Sprintf("the tempo event of a recording at %v BPM is % X", bpm, m))
		return
	}
	// 2. channel messages stored unchanged, in order, with faithful ticks
	var wantCh []arrived
	for _, a := range arr {
		if a.msg[0] >= 0x80 && a.msg[0] < 0xF0 {
			wantCh = append(wantCh, a)
		}
	}
	var tick int64
	ci := 0
	stored := 0
	for _, e := range evs[1:] {
		tick += int64(e.Delta)
		stored++
		if len(e.Msg) > 0 && e.Msg[0] >= 0x80 && e.Msg[0] < 0xF0 {
			if ci >= len(wantCh) {
				report("record:channel:extra:"+feat, seq, sl, bpm, res, via, fmt.Sprintf("channel message % X stored but never sent", e.Msg))
				return
			}
			if !bytes.Equal(e.Msg, wantCh[ci].msg) {
				report("record:channel:altered:"+feat, seq, sl, bpm, res, via, fmt.Sprintf("stored % X, arrived % X", e.Msg, wantCh[ci].msg))
				return
			}
			exact := float64(wantCh[ci].ts) / 1000 * bpm / 60 * eff(res)
			if math.Abs(float64(tick)-exact) > float64(stored)+1e-6 {
				report("record:timing:"+feat, seq, sl, bpm, res, via, fmt.Sprintf("message %d (% X) stored at tick %d, its time stamp %d ms converts to %.2f", ci, e.Msg, tick, wantCh[ci].ts, exact))
				return
			}
			ci++
		}
	}
	if ci != len(wantCh) {
		report("record:channel:missing:"+feat, seq, sl, bpm, res, via, fmt.Sprintf("%d of %d channel messages stored", ci, len(wantCh)))
		return
	}
	if len(wantCh) > 0 && feat != "channel-only" {
		ctx.NontrivialN(1)
	}
	// 3. valid file that reads back to the same events
	var buf bytes.Buffer
	var werr error
	c = engine.Catch(func() { _, werr = file.WriteTo(&buf) })
	if c.Panicked {
		report(c.Sig+":record-write:"+feat, seq, sl, bpm, res, via, "WriteTo panicked on the recorded track: "+c.Value)
		return
	}
	if werr != nil {
		report("record:write-error:"+feat, seq, sl, bpm, res, via, werr.Error())
		return
	}
	if _, perr := refsmf.Parse(buf.Bytes(), refsmf.Strict); perr != nil {
		report("record:invalid-file:"+feat, seq, sl, bpm, res, via, "strict parser rejects the recorded file: "+perr.Error()+" bytes="+engine.Hex(buf.Bytes()))
		return
	}
	var back *smf.SMF
	var rerr error
	c = engine.Catch(func() { back, rerr = smf.ReadFrom(bytes.NewReader(buf.Bytes())) })
	if c.Panicked || rerr != nil {
		report("record:readback-fails:"+feat, seq, sl, bpm, res, via, fmt.Sprintf("library cannot read its recording: %v %s", rerr, c.Value))
		return
	}
	if len(back.Tracks) != pre+1 || refsmf.FirstDiff(sp.FromTrack(file.Tracks[pre]), sp.FromTrack(back.Tracks[pre])) != "" {
		report("record:readback-differs:"+feat, seq, sl, bpm, res, via, fmt.Sprintf("events read back differ from the recorded track (%d tracks read, %d in the value)", len(back.Tracks), len(file.Tracks)))
		return
	}
	if pre == 1 && refsmf.FirstDiff(preEvents, sp.FromTrack(back.Tracks[0])) != "" {
		report("record:existing-track-changed:"+via, seq, sl, bpm, res, via, "the track the file held before the recording reads back differently")
	}
	// the same recording written with a status byte on every event (a chord or a
	// controller run then repeats the status byte of the event before)
	file.NoRunningStatus = true
	var buf2 bytes.Buffer
	c = engine.Catch(func() { _, werr = file.WriteTo(&buf2) })
	if c.Panicked || werr != nil {
		report("record:write-error:no-running-status:"+feat, seq, sl, bpm, res, via, fmt.Sprintf("%v %s", werr, c.Value))
		return
	}
	if _, perr := refsmf.Parse(buf2.Bytes(), refsmf.Strict); perr != nil {
		report("record:invalid-file:no-running-status:"+feat, seq, sl, bpm, res, via, "strict parser rejects the recorded file: "+perr.Error()+" bytes="+engine.Hex(buf2.Bytes()))
		return
	}
	c = engine.Catch(func() { back, rerr = smf.ReadFrom(bytes.NewReader(buf2.Bytes())) })
	if c.Panicked || rerr != nil {
		report("record:readback-fails:no-running-status:"+feat, seq, sl, bpm, res, via, fmt.Sprintf("library cannot read its recording: %v %s", rerr, c.Value))
		return
	}
	if len(back.Tracks) != pre+1 || refsmf.FirstDiff(sp.FromTrack(file.Tracks[pre]), sp.FromTrack(back.Tracks[pre])) != "" {
		report("record:readback-differs:no-running-status:"+feat, seq, sl, bpm, res, via, "events read back differ from the recorded track")
	}
}

// twoTakes: the same Track variable records twice (each take starts with its
// tempo event; the second take's first message has the status of the first
// take's last one), then is closed, added and written: the file must be valid
// and read back to the track, and hold the channel messages of both takes.
func twoTakes(seq []ls.SMsg, bpm float64, res smf.MetricTicks) {
	ctx.Eval()
	vtime.Reset()
	drv := testdrv.New("rec")
	ins, _ := drv.Ins()
	outs, _ := drv.Outs()
	out := outs[0]
	out.Open()
	var tr smf.Track
	sl := make([]int32, len(seq))
	nch := 0
	for take := 0; take < 2; take++ {
		ref := &refmidi.Receiver{BufSize: 1024, SysexOn: false} // every Listen starts a fresh decoder
		var stop func()
		var err error
		c := engine.Catch(func() { stop, err = tr.RecordFrom(ins[0], res, bpm) })
		if c.Panicked || err != nil {
			report("record:start:second-take", seq, sl, bpm, res, "two-takes", fmt.Sprintf("RecordFrom (take %d) failed: %v %s", take+1, err, c.Value))
			return
		}
		for _, m := range seq {
			drv.Sleep(10 * time.Millisecond)
			for _, b := range m.Bytes {
				for _, d := range ref.Feed(b) {
					if d.Msg[0] >= 0x80 && d.Msg[0] < 0xF0 {
						nch++
					}
				}
			}
			out.Send(m.Bytes)
		}
		stop()
	}
	tr.Close(0)
	file := smf.New()
	file.TimeFormat = res
	file.Add(tr)
	got := 0
	for _, e := range sp.FromTrack(file.Tracks[0]) {
		if len(e.Msg) > 0 && e.Msg[0] >= 0x80 && e.Msg[0] < 0xF0 {
			got++
		}
	}
	feat := kindsOf(seq)
	if got != nch {
		report("record:two-takes:channel-count:"+feat, seq, sl, bpm, res, "two-takes", fmt.Sprintf("%d channel messages stored, %d arrived over both takes", got, nch))
		return
	}
	var buf bytes.Buffer
	var werr error
	c := engine.Catch(func() { _, werr = file.WriteTo(&buf) })
	if c.Panicked || werr != nil {
		report("record:two-takes:write:"+feat, seq, sl, bpm, res, "two-takes", fmt.Sprintf("WriteTo: %v %s", werr, c.Value))
		return
	}
	if _, perr := refsmf.Parse(buf.Bytes(), refsmf.Strict); perr != nil {
		report("record:two-takes:invalid-file:"+feat, seq, sl, bpm, res, "two-takes", "strict parser rejects the file: "+perr.Error()+" bytes="+engine.Hex(buf.Bytes()))
		return
	}
	back, rerr := smf.ReadFrom(bytes.NewReader(buf.Bytes()))
	if rerr != nil || len(back.Tracks) != 1 || refsmf.FirstDiff(sp.FromTrack(file.Tracks[0]), sp.FromTrack(back.Tracks[0])) != "" {
		report("record:two-takes:readback:"+feat, seq, sl, bpm, res, "two-takes", fmt.Sprintf("the file does not read back to the track (%v)", rerr))
	}
	ctx.Add("two_take_recordings", 1)
}

// recordTo: smf.RecordTo saves takes of different lengths under the same file
// name, longer ones first: every saved file must be a valid SMF that holds
// exactly its own take.
func recordTo() {
	dir, err := os.MkdirTemp(os.Getenv("VERIF_WORK"), "c13-recordto-")
	if err != nil {
		ctx.Guard(false, "no temp dir: %v", err)
		return
	}
	defer os.RemoveAll(dir)
	path := dir + "/take.mid"
	for _, seq := range [][]int{{6, 1}, {1, 6, 2}, {40, 3, 3}, {0, 5, 0}} {
		os.Remove(path)
		for ti, n := range seq {
			ctx.Eval()
			ctx.Add("record_to_takes", 1)
			vtime.Reset()
			drv := testdrv.New("recto")
			ins, _ := drv.Ins()
			outs, _ := drv.Outs()
			outs[0].Open()
			var stop func() error
			var rerr error
			c := engine.Catch(func() { stop, rerr = smf.RecordTo(ins[0], 120, path) })
			if c.Panicked || rerr != nil {
				ctx.Violation("record-to:start", map[string]interface{}{"kind": "record-to", "takes": seq, "what": fmt.Sprintf("RecordTo failed: %v %s", rerr, c.Value)})
				return
			}
			var sent [][]byte
			for i := 0; i < n; i++ {
				m := []byte{0x90 + byte(ti), byte(40 + i), 100}
				drv.Sleep(10 * time.Millisecond)
				outs[0].Send(m)
				sent = append(sent, m)
			}
			var serr error
			c = engine.Catch(func() { serr = stop() })
			if c.Panicked || serr != nil {
				ctx.Violation("record-to:stop", map[string]interface{}{"kind": "record-to", "takes": seq, "what": fmt.Sprintf("the stop function failed: %v %s", serr, c.Value)})
				return
			}
			data, _ := os.ReadFile(path)
			f, perr := refsmf.Parse(data, refsmf.Strict)
			if perr != nil {
				ctx.Violation("record-to:invalid-file", map[string]interface{}{"kind": "record-to", "takes": seq, "take": ti,
					"what": fmt.Sprintf("take %d of %v (%d messages) saved under the same name: the file (%d bytes) is not a valid SMF: %v", ti+1, seq, n, len(data), perr)})
				return
			}
			var got [][]byte
			for _, tr := range f.Tracks {
				for _, e := range tr {
					if len(e.Msg) > 0 && e.Msg[0] >= 0x80 && e.Msg[0] < 0xF0 {
						got = append(got, e.Msg)
					}
				}
			}
			if fmt.Sprint(got) != fmt.Sprint(sent) {
				ctx.Violation("record-to:content", map[string]interface{}{"kind": "record-to", "takes": seq, "take": ti,
					"what": fmt.Sprintf("take %d of %v: the file holds %d channel messages, %d were recorded", ti+1, seq, len(got), len(sent))})
				return
			}
			ctx.NontrivialN(1)
		}
	}
}

func space(first int) {
	maxDepth := ctx.Pick(3, 4)
	seq := make([]ls.SMsg, maxDepth)
	var rec func(i, depth int)
	rec = func(i, depth int) {
		if i == depth {
			s := seq[:depth]
			// all gap assignments for depth <= 3, else two patterns
			idx := make([]int, depth)
			rad := make([]int, depth)
			for k := range rad {
				rad[k] = len(gaps)
			}
			sl := make([]int32, depth)
			for {
				for k := range idx {
					sl[k] = gaps[idx[k]]
				}
				full := depth <= 2
				for ti, bpm := range tempi {
					for ri, res := range resolutions {
						if !full && !(ti == 0 || ri == 0) && !ctx.Thorough() {
							continue
						}
						record(s, sl, bpm, res, "track")
					}
				}
				if depth <= 2 && sl[0] == 0 && (depth == 1 || sl[1] == 0) {
					twoTakes(s, 120, 960)
				}
				if depth <= 2 {
					record(s, sl, 120, 960, "smf")
					if sl[0] != 1 {
						record(s, sl, 120, 960, "smf-after-write")
						record(s, sl, 120, 960, "smf-after-read")
					}
				}
				if depth > 3 {
					break
				}
				if !engine.Odometer(idx, rad) {
					break
				}
			}
			return
		}
		for _, m := range alphabet {
			seq[i] = m
			rec(i+1, depth)
		}
	}
	for depth := 1; depth <= maxDepth; depth++ {
		seq[0] = alphabet[first]
		rec(1, depth)
	}
	// long pauses (minutes to more than an hour) before and between messages:
	// every tempo x resolution, sequences of one and two messages
	long := []int32{300000, 5000000}
	for _, m2 := range alphabet {
		for _, g1 := range long {
			for _, g2 := range append([]int32{0}, long...) {
				for _, bpm := range tempi {
					for _, res := range resolutions {
						// a pause whose tick count exceeds the format's 28-bit maximum cannot be
						// stored in any valid SMF: outside the domain (DESIGN.md 0.2, C13)
						if float64(g1+g2)/1000*bpm/60*eff(res) > 0x0FFFFFFF { // (a skipped message carries its time over)
							ctx.Add("long_pauses_beyond_format_maximum_skipped", 1)
							continue
						}
						record([]ls.SMsg{alphabet[first], m2}, []int32{g1, g2}, bpm, res, "track")
						ctx.Add("long_pause_recordings", 1)
					}
				}
			}
		}
	}
}

// timingProduct: resolution x tempo x gap, with a chord (two messages in the
// same millisecond) behind the gap: 12 resolutions x 15 tempi (among them the
// pairs that make a tick a binary fraction of a millisecond: 240 at 125, 480
// at 62.5, 100 at 150, 96 at 78.125) x gaps 0..64, 100, 250, 999..1001 ms x
// three gaps behind the chord.
func timingProduct(part, parts int) {
	var a, b, c ls.SMsg
	for _, m := range alphabet {
		switch m.Name {
		case "NoteOn0a":
			a = m
		case "NoteOn0b":
			b = m
		case "NoteOff0":
			c = m
		}
	}
	if a.Bytes == nil || b.Bytes == nil || c.Bytes == nil {
		ctx.Guard(false, "timing product: alphabet lacks the three note messages")
		return
	}
	gs := []int32{100, 250, 999, 1000, 1001}
	for g := int32(0); g <= 64; g++ {
		gs = append(gs, g)
	}
	k := 0
	for _, res := range []smf.MetricTicks{24, 48, 96, 100, 120, 192, 240, 384, 480, 960, 1920, 15360} {
		for _, bpm := range []float64{20, 30, 60, 62.5, 78.125, 90, 100, 120, 125, 150, 180, 200, 250, 300, 400} {
			k++
			if k%parts != part {
				continue
			}
			for _, g := range gs {
				for _, g2 := range []int32{0, 1, 7} {
					record([]ls.SMsg{a, b, c}, []int32{g, 0, g2}, bpm, res, "track")
					ctx.Add("timing_product_recordings", 1)
				}
			}
		}
	}
}

// longTakes: recordings of 1500 messages (thorough 20000): every pattern of one
// or two messages over eight kinds, gaps cycling through 0, 1, 3 and 20 ms,
// two tempo / resolution pairs.
func longTakes(part, parts int) {
	var kinds []ls.SMsg
	for _, k := range []string{"NoteOn0a", "NoteOn0b", "NoteOff0", "Prog0", "Clock", "SPP", "SysExMin", "TwoDataBytes"} {
		for _, m := range alphabet {
			if m.Name == k {
				kinds = append(kinds, m)
			}
		}
	}
	total := ctx.Pick(1500, 20000)
	gapc := []int32{0, 1, 3, 20}
	k := 0
	if part == 0 {
		// one take of 40000 channel messages (past every power of two up to 2^15)
		n := 40000
		seq := make([]ls.SMsg, 0, n)
		sl := make([]int32, 0, n)
		for i := 0; i < n; i++ {
			seq = append(seq, kinds[i%3])
			sl = append(sl, gapc[i%4]%2)
		}
		record(seq, sl, 120, 960, "track")
		ctx.Add("long_takes", 1)
	}
	for a := range kinds {
		for b := -1; b < len(kinds); b++ {
			k++
			if k%parts != part {
				continue
			}
			seq := make([]ls.SMsg, 0, total+1)
			sl := make([]int32, 0, total+1)
			for len(seq) < total {
				seq = append(seq, kinds[a])
				sl = append(sl, gapc[len(sl)%4])
				if b >= 0 {
					seq = append(seq, kinds[b])
					sl = append(sl, gapc[len(sl)%4])
				}
			}
			for _, tr := range []struct {
				bpm float64
				res smf.MetricTicks
			}{{120, 960}, {125, 240}} {
				record(seq, sl, tr.bpm, tr.res, "track")
				ctx.Add("long_takes", 1)
			}
		}
	}
}

// twoRecordings: two in ports record into the same SMF at overlapping times
// (SMF.RecordFrom twice); every track must hold exactly the channel messages
// of its own port, in order.
func twoRecordings() {
	msgs := func(ch uint8) [][]byte {
		return [][]byte{{0x90 | ch, 0x3C, 0x40}, {0x80 | ch, 0x3C, 0x00}, {0xC0 | ch, 0x05}}
	}
	for order := 0; order < 6; order++ {
		ctx.Eval()
		vtime.Reset()
		var drv [2]*testdrv.Driver
		var outs [2]drivers.Out
		var ins [2]drivers.In
		for i := range drv {
			drv[i] = testdrv.New(fmt.Sprint("rec", i))
			ii, _ := drv[i].Ins()
			oo, _ := drv[i].Outs()
			ins[i], outs[i] = ii[0], oo[0]
			outs[i].Open()
		}
		file := smf.New()
		var stops [2]func()
		var err error
		step := func(port int, k int) {
			drv[port].Sleep(10 * time.Millisecond)
			outs[port].Send(msgs(uint8(port))[k])
		}
		c := engine.Catch(func() {
			stops[0], err = file.RecordFrom(ins[0], 120)
			if err != nil {
				return
			}
			step(0, 0)
			stops[1], err = file.RecordFrom(ins[1], 120)
			if err != nil {
				return
			}
			// interleavings of the remaining sends
			seqs := [][][2]int{
				{{1, 0}, {0, 1}, {1, 1}, {0, 2}, {1, 2}},
				{{0, 1}, {0, 2}, {1, 0}, {1, 1}, {1, 2}},
				{{1, 0}, {1, 1}, {1, 2}, {0, 1}, {0, 2}},
			}
			for _, s := range seqs[order%3] {
				step(s[0], s[1])
			}
			if order < 3 {
				stops[0]()
				stops[1]()
			} else {
				stops[1]()
				stops[0]()
			}
		})
		detail := map[string]interface{}{"kind": "two-recordings", "order": order}
		if c.Panicked || err != nil {
			detail["what"] = fmt.Sprintf("recording two ports into one file failed: %v %s", err, c.Value)
			ctx.Violation("record:two-ports:failed", detail)
			continue
		}
		if len(file.Tracks) != 2 {
			detail["what"] = fmt.Sprintf("%d tracks after two recordings", len(file.Tracks))
			ctx.Violation("record:two-ports:track-count", detail)
			continue
		}
		seen := map[uint8]bool{}
		for ti, t := range file.Tracks {
			var ch uint8 = 0xFF
			var got [][]byte
			for _, e := range t {
				m := e.Message
				if len(m) > 0 && m[0] >= 0x80 && m[0] < 0xF0 {
					if ch == 0xFF {
						ch = m[0] & 0x0F
					}
					got = append(got, m)
				}
			}
			want := msgs(ch & 1)
			ok := ch <= 1 && !seen[ch] && len(got) == len(want)
			for i := 0; ok && i < len(want); i++ {
				ok = bytes.Equal(got[i], want[i])
			}
			seen[ch] = true
			if !ok {
				detail["what"] = fmt.Sprintf("track %d holds %X, its port sent %X", ti, got, want)
				ctx.Violation("record:two-ports:content", detail)
				break
			}
		}
		ctx.Add("two_port_recordings", 1)
	}
}

func main() {
	ctx = engine.Start("C13", "exploration")
	if ctx.ReplayPath != "" {
		replay()
		return
	}
	ctx.Assume("which messages 'arrive' is decided by the reference receiver (DESIGN.md appendix A) fed with the bytes sent; whether non-channel messages are stored (as valid events) or dropped is not judged, only that the file stays valid")
	ctx.Assume("timing tolerance: one tick per stored delta up to the message (each delta is rounded separately)")
	ctx.Jobs("record", len(alphabet), func(j int) { space(j) })
	ctx.Jobs("timing-product", 16, func(j int) { timingProduct(j, 16) })
	ctx.Jobs("long-takes", 16, func(j int) { longTakes(j, 16) })
	ctx.Jobs("two-ports", 1, func(int) {
		twoRecordings()
		recordTo()
		reusingDriver()
		queuedDriver()
		equalTakes()
		closedWhileListening()
	})
	ctx.Set("message_alphabet", len(alphabet))
	ctx.Set("tempi", tempi)
	ctx.Set("gaps_ms", gaps)
	ctx.Sample(map[string]interface{}{"messages": []string{"NoteOn0a", "Start", "NoteOff0"}, "gaps_ms": []int{0, 10, 1000}, "bpm": 61.5, "resolution": 960})
	ctx.Guard(ctx.NontrivialCount() > 1000, "mixed channel/non-channel recordings missing: %d", ctx.NontrivialCount())
	ctx.Finish("message sequences up to depth 3/4 over 21 messages (channel kinds, real-time, system common, sysex, active sensing, stray data byte, stray F7), every assignment of inter-arrival gaps {0,1,10,1000} ms, tempi {20,61.5,120,400,1000} x resolutions {0 (the default),24,960,15360} (full product for depth <= 2, axes for depth 3), Track.RecordFrom and SMF.RecordFrom; non-trivial = recordings in which channel messages arrive together with other message classes")
}

func replay() {
	m := ctx.LoadReplay()
	if m["via"] == "two-takes" {
		var seq []ls.SMsg
		for _, n := range m["messages"].([]interface{}) {
			for _, a := range alphabet {
				if a.Name == n.(string) {
					seq = append(seq, a)
				}
			}
		}
		twoTakes(seq, m["bpm"].(float64), smf.MetricTicks(m["resolution"].(float64)))
		ctx.Finish("replay")
	}
	if m["kind"] == "reusing-driver" {
		reusingDriver()
		ctx.Finish("replay")
	}
	if m["kind"] == "equal-takes" || m["kind"] == "closed-while-listening" {
		equalTakes()
		closedWhileListening()
		ctx.Finish("replay")
	}
	if m["kind"] == "queued-driver" {
		queuedDriver()
		ctx.Finish("replay")
	}
	if m["kind"] == "record-to" {
		recordTo()
		ctx.Finish("replay")
	}
	if m["kind"] == "two-recordings" {
		twoRecordings()
		ctx.Finish("replay")
	}
	var seq []ls.SMsg
	for _, n := range m["messages"].([]interface{}) {
		for _, a := range alphabet {
			if a.Name == n.(string) {
				seq = append(seq, a)
			}
		}
	}
	var sl []int32
	for _, g := range m["gaps_ms"].([]interface{}) {
		sl = append(sl, int32(g.(float64)))
	}
	record(seq, sl, m["bpm"].(float64), smf.MetricTicks(int(m["resolution"].(float64))), m["via"].(string))
	ctx.Finish("replay")
}
