package main

import (
	"bytes"
	"fmt"
	"time"

	"gitlab.com/gomidi/midi/v2/drivers"
	"gitlab.com/gomidi/midi/v2/drivers/testdrv"
	"gitlab.com/gomidi/midi/v2/internal/verifh/engine"
	"gitlab.com/gomidi/midi/v2/internal/verifh/refsmf"
	sp "gitlab.com/gomidi/midi/v2/internal/verifh/smfspace"
	"gitlab.com/gomidi/midi/v2/internal/verifh/vtime"
	"gitlab.com/gomidi/midi/v2/smf"
)

// reuseIn is an input port whose driver hands every message to the call-back
// in the same buffer (a driver is free to do so: the interface says nothing
// about who owns the bytes after the call-back returned).
type reuseIn struct {
	open  bool
	onMsg func([]byte, int32)
	buf   [3]byte
}

func (r *reuseIn) Open() error             { r.open = true; return nil }
func (r *reuseIn) Close() error            { r.open = false; return nil }
func (r *reuseIn) IsOpen() bool            { return r.open }
func (r *reuseIn) Number() int             { return 0 }
func (r *reuseIn) String() string          { return "reusing-in" }
func (r *reuseIn) Underlying() interface{} { return nil }
func (r *reuseIn) Listen(onMsg func([]byte, int32), conf drivers.ListenConfig) (func(), error) {
	r.onMsg = onMsg
	return func() { r.onMsg = nil }, nil
}
func (r *reuseIn) deliver(m []byte, ts int32) {
	// as drivers.Reader does, channel messages are handed over padded to three bytes
	r.buf = [3]byte{}
	copy(r.buf[:], m)
	if r.onMsg != nil {
		r.onMsg(r.buf[:], ts)
	}
}

// reusingDriver: a recording from such a port holds what arrived, not copies
// of the last message.
func reusingDriver() {
	msgs := [][]byte{{0x90, 0x3C, 0x40}, {0x80, 0x3C, 0x00}, {0xC1, 0x05}, {0xB2, 0x07, 0x64}, {0xE0, 0x00, 0x40}, {0xD3, 0x11}}
	ctx.Eval()
	in := &reuseIn{}
	in.Open()
	var tr smf.Track
	var stop func()
	var err error
	c := engine.Catch(func() { stop, err = tr.RecordFrom(in, smf.MetricTicks(960), 120) })
	if c.Panicked || err != nil {
		ctx.Violation("record:reusing-driver:start", map[string]interface{}{"kind": "reusing-driver", "what": fmt.Sprintf("RecordFrom failed: %v %s", err, c.Value)})
		return
	}
	for i, m := range msgs {
		in.deliver(m, int32(10*(i+1)))
	}
	stop()
	tr.Close(0)
	var got [][]byte
	for _, e := range sp.FromTrack(tr) {
		if len(e.Msg) > 0 && e.Msg[0] >= 0x80 && e.Msg[0] < 0xF0 {
			got = append(got, e.Msg)
		}
	}
	same := len(got) == len(msgs)
	for i := 0; same && i < len(msgs); i++ {
		same = bytes.Equal(got[i], msgs[i])
	}
	if !same {
		ctx.Violation("record:reusing-driver:content", map[string]interface{}{"kind": "reusing-driver",
			"what": fmt.Sprintf("a port that delivers every message in the same buffer: recorded % X, arrived % X", got, msgs)})
		return
	}
	file := smf.New()
	file.Add(tr)
	var buf bytes.Buffer
	if _, werr := file.WriteTo(&buf); werr != nil {
		ctx.Violation("record:reusing-driver:write", map[string]interface{}{"kind": "reusing-driver", "what": werr.Error()})
		return
	}
	if _, perr := refsmf.Parse(buf.Bytes(), refsmf.Strict); perr != nil {
		ctx.Violation("record:reusing-driver:invalid-file", map[string]interface{}{"kind": "reusing-driver", "what": perr.Error()})
	}
	ctx.NontrivialN(1)
}

// queuedIn is an input port that hands over what had piled up before from
// inside Listen (a driver that flushes its queue to a new listener).
type queuedIn struct {
	reuseIn
	queued [][]byte
}

func (q *queuedIn) Listen(onMsg func([]byte, int32), conf drivers.ListenConfig) (func(), error) {
	q.onMsg = onMsg
	for i, m := range q.queued {
		q.deliver(m, int32(i))
	}
	return func() { q.onMsg = nil }, nil
}

// queuedDriver: messages that arrive while Listen is still running are stored
// behind the initial tempo event like every other, in order.
func queuedDriver() {
	later := [][]byte{{0xB2, 0x07, 0x64}, {0x80, 0x3C, 0x00}}
	for nq := 0; nq <= 3; nq++ {
		for _, viaFile := range []bool{false, true} {
			ctx.Eval()
			queued := [][]byte{{0x90, 0x3C, 0x40}, {0xC1, 0x05}, {0xE0, 0x00, 0x40}}[:nq]
			in := &queuedIn{queued: queued}
			in.Open()
			var tr smf.Track
			file := smf.New()
			file.TimeFormat = smf.MetricTicks(960)
			var stop func()
			var err error
			c := engine.Catch(func() {
				if viaFile {
					stop, err = file.RecordFrom(in, 120)
				} else {
					stop, err = tr.RecordFrom(in, smf.MetricTicks(960), 120)
				}
			})
			detail := map[string]interface{}{"kind": "queued-driver", "queued": nq, "via_file": viaFile}
			if c.Panicked || err != nil {
				detail["what"] = fmt.Sprintf("RecordFrom failed: %v %s", err, c.Value)
				ctx.Violation("record:queued-driver:start", detail)
				return
			}
			for i, m := range later {
				in.deliver(m, int32(10*(i+1)))
			}
			stop()
			if viaFile {
				if len(file.Tracks) != 1 {
					detail["what"] = fmt.Sprintf("%d tracks in the file after one recording", len(file.Tracks))
					ctx.Violation("record:queued-driver:tracks", detail)
					return
				}
				tr = file.Tracks[0]
			} else {
				tr.Close(0)
			}
			evs := sp.FromTrack(tr)
			want := append(append([][]byte{}, queued...), later...)
			ok := len(evs) == len(want)+2 && len(evs[0].Msg) > 1 && evs[0].Msg[0] == 0xFF && evs[0].Msg[1] == 0x51
			for i := 0; ok && i < len(want); i++ {
				ok = bytes.Equal(evs[i+1].Msg, want[i])
			}
			if !ok {
				var got [][]byte
				for _, e := range evs {
					got = append(got, e.Msg)
				}
				detail["what"] = fmt.Sprintf("%d messages handed over from inside Listen, two afterwards: the track holds % X, expected the tempo event, % X and the end of track", nq, got, want)
				ctx.Violation("record:queued-driver:content", detail)
				return
			}
			ctx.NontrivialN(1)
		}
	}
}

// equalTakes: the same phrase recorded two and three times into one file
// (SMF.RecordFrom on the loopback, the virtual clock makes the takes equal
// event for event, delta for delta): every take is a track of its own.
func equalTakes() {
	phrases := [][][]byte{
		{{0x90, 0x3C, 0x40}, {0x80, 0x3C, 0x00}},
		{{0xC1, 0x05}},
		{},
		{{0xF8}, {0xFE}},
		{{0x90, 0x3C, 0x40}, {0xF8}, {0x3E, 0x41}, {0xB0, 0x07, 0x64}},
	}
	for pi, ph := range phrases {
		for takes := 2; takes <= 3; takes++ {
			ctx.Eval()
			vtime.Reset()
			drv := testdrv.New("rec")
			ins, _ := drv.Ins()
			outs, _ := drv.Outs()
			outs[0].Open()
			file := smf.New()
			file.TimeFormat = smf.MetricTicks(480)
			detail := map[string]interface{}{"kind": "equal-takes", "phrase": pi, "takes": takes}
			nch := 0
			for _, m := range ph {
				if m[0] >= 0x80 && m[0] < 0xF0 || m[0] < 0x80 {
					nch++
				}
			}
			for t := 0; t < takes; t++ {
				var stop func()
				var err error
				c := engine.Catch(func() { stop, err = file.RecordFrom(ins[0], 120) })
				if c.Panicked || err != nil {
					detail["what"] = fmt.Sprintf("RecordFrom (take %d) failed: %v %s", t+1, err, c.Value)
					ctx.Violation("record:equal-takes:start", detail)
					return
				}
				for _, m := range ph {
					drv.Sleep(10 * time.Millisecond)
					outs[0].Send(m)
				}
				stop()
			}
			if len(file.Tracks) != takes {
				detail["what"] = fmt.Sprintf("%d takes of the same phrase recorded into one file: the file holds %d tracks", takes, len(file.Tracks))
				ctx.Violation("record:equal-takes:track-count", detail)
				continue
			}
			for ti, tr := range file.Tracks {
				got := 0
				for _, e := range sp.FromTrack(tr) {
					if len(e.Msg) > 0 && e.Msg[0] >= 0x80 && e.Msg[0] < 0xF0 {
						got++
					}
				}
				if got != nch {
					detail["what"] = fmt.Sprintf("take %d holds %d channel messages, %d arrived", ti+1, got, nch)
					ctx.Violation("record:equal-takes:content", detail)
				}
			}
			var buf bytes.Buffer
			if _, werr := file.WriteTo(&buf); werr != nil {
				detail["what"] = werr.Error()
				ctx.Violation("record:equal-takes:write", detail)
				continue
			}
			exp, perr := refsmf.Parse(buf.Bytes(), refsmf.Strict)
			if perr != nil || len(exp.Tracks) != takes {
				detail["what"] = fmt.Sprintf("the written file: %v, %d tracks", perr, func() int {
					if exp == nil {
						return -1
					}
					return len(exp.Tracks)
				}())
				ctx.Violation("record:equal-takes:invalid-file", detail)
				continue
			}
			ctx.NontrivialN(1)
		}
	}
}

// closedWhileListening: the track is closed while the listener is still
// active and more messages arrive before stop: the track stays a closed
// track (one end-of-track, nothing behind it), is written as a valid file and
// reads back as it is.
func closedWhileListening() {
	for _, after := range [][][]byte{{{0x90, 0x3C, 0x40}}, {{0x3E, 0x41}, {0xC1, 0x05}}, {{0xF8}}, {}} {
		for _, viaFile := range []bool{false, true} {
			ctx.Eval()
			vtime.Reset()
			drv := testdrv.New("rec")
			ins, _ := drv.Ins()
			outs, _ := drv.Outs()
			outs[0].Open()
			var tr smf.Track
			detail := map[string]interface{}{"kind": "closed-while-listening", "messages_after_close": len(after), "via_file": viaFile}
			var stop func()
			var err error
			c := engine.Catch(func() { stop, err = tr.RecordFrom(ins[0], smf.MetricTicks(960), 120) })
			if c.Panicked || err != nil {
				detail["what"] = fmt.Sprintf("RecordFrom failed: %v %s", err, c.Value)
				ctx.Violation("record:closed-while-listening:start", detail)
				return
			}
			drv.Sleep(5 * time.Millisecond)
			outs[0].Send([]byte{0x90, 0x30, 0x31})
			tr.Close(3)
			for _, m := range after {
				drv.Sleep(5 * time.Millisecond)
				outs[0].Send(m)
			}
			c = engine.Catch(stop)
			if c.Panicked {
				detail["what"] = "stop panicked: " + c.Value
				ctx.Violation(c.Sig+":closed-while-listening", detail)
				continue
			}
			evs := sp.FromTrack(tr)
			eots := 0
			for i, e := range evs {
				if len(e.Msg) == 3 && e.Msg[0] == 0xFF && e.Msg[1] == 0x2F {
					eots++
					if i != len(evs)-1 {
						eots += 100
					}
				}
			}
			if eots != 1 {
				var got [][]byte
				for _, e := range evs {
					got = append(got, e.Msg)
				}
				detail["what"] = fmt.Sprintf("a track closed while its listener was still active holds % X (one end of track, at the end, is expected)", got)
				ctx.Violation("record:closed-while-listening:not-closed", detail)
				continue
			}
			file := smf.New()
			file.Add(tr)
			var buf bytes.Buffer
			if _, werr := file.WriteTo(&buf); werr != nil {
				detail["what"] = werr.Error()
				ctx.Violation("record:closed-while-listening:write", detail)
				continue
			}
			if _, perr := refsmf.Parse(buf.Bytes(), refsmf.Strict); perr != nil {
				detail["what"] = "strict parser rejects the file: " + perr.Error()
				ctx.Violation("record:closed-while-listening:invalid-file", detail)
				continue
			}
			back, rerr := smf.ReadFrom(bytes.NewReader(buf.Bytes()))
			if rerr != nil || len(back.Tracks) != 1 || refsmf.FirstDiff(sp.FromTrack(file.Tracks[0]), sp.FromTrack(back.Tracks[0])) != "" {
				detail["what"] = fmt.Sprintf("the file does not read back to the recorded events (%v)", rerr)
				ctx.Violation("record:closed-while-listening:read-back", detail)
				continue
			}
			ctx.NontrivialN(1)
		}
	}
}
