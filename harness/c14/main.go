// C14 — listen options filter exactly their message class and nothing else.
//
// For all 8 combinations of the sysex / timing-clock / active-sense options:
// (a) BFS over sender-legal single-byte Sends on the *pair* (listener with all
// options, listener with this combination) to the fixpoint; (b) the bounded
// sender space of C04 (sequences, elisions, real-time insertion, partitions,
// time deltas). Oracle: deliveries of the restricted listener = deliveries of
// the full listener minus the disabled classes; bytes, order and time stamps
// unchanged.
package main

import (
	"fmt"
	"strings"
	"time"

	"gitlab.com/gomidi/midi/v2/internal/verifh/engine"
	ls "gitlab.com/gomidi/midi/v2/internal/verifh/livespace"
	"gitlab.com/gomidi/midi/v2/internal/verifh/refmidi"
)

var ctx *engine.Ctx

const buf = 5

var alphabet = ls.SenderAlphabet(buf)

func combos() []ls.Options {
	var out []ls.Options
	for m := 0; m < 8; m++ {
		out = append(out, ls.Options{SysEx: m&1 != 0, TimeCode: m&2 != 0, ActiveSense: m&4 != 0, BufSize: buf})
	}
	return out
}

func project(full []ls.Delivered, o ls.Options) []ls.Delivered {
	var out []ls.Delivered
	for _, d := range full {
		if len(d.Msg) > 0 {
			switch {
			case d.Msg[0] == 0xFE && !o.ActiveSense:
				continue
			case d.Msg[0] == 0xF8 && !o.TimeCode:
				continue
			case d.Msg[0] == 0xF0 && !o.SysEx:
				continue
			}
		}
		out = append(out, d)
	}
	return out
}

func diff(want, got []ls.Delivered) string {
	for i := 0; i < len(want) && i < len(got); i++ {
		if string(want[i].Msg) != string(got[i].Msg) {
			return "content:" + cls(want[i].Msg)
		}
		if want[i].TS != got[i].TS {
			return "timestamp:" + cls(want[i].Msg)
		}
	}
	switch {
	case len(got) < len(want):
		return "missing:" + cls(want[len(got)].Msg)
	case len(got) > len(want):
		return "extra:" + cls(got[len(want)].Msg)
	}
	return ""
}

func cls(m []byte) string {
	if len(m) == 0 {
		return "empty"
	}
	switch m[0] {
	case 0xFE:
		return "active-sense"
	case 0xF8:
		return "timing-clock"
	case 0xF0:
		return "sysex"
	}
	return refmidi.ByteClass(m[0])
}

func optName(o ls.Options) string {
	return fmt.Sprintf("sysex=%v,clock=%v,sense=%v", o.SysEx, o.TimeCode, o.ActiveSense)
}

func report(sig string, o ls.Options, raw []byte, chunks []int, sleeps []int32, what string) {
	if ctx.SigCount(sig) < 10 {
		ctx.Violation(sig, map[string]interface{}{"kind": "wire", "options": optName(o), "sysex": o.SysEx, "clock": o.TimeCode, "sense": o.ActiveSense,
			"wire": engine.Hex(raw), "chunks": chunks, "sleeps_ms": sleeps, "what": what})
	}
}

// play sends raw in chunks to both listeners and compares.
// flip alternates which of the two listeners of a comparison also carries an
// error handler (and gets its options in reverse order): neither may matter.
var flip int

func withHandler(o ls.Options, on bool) ls.Options {
	o.Reversed = on
	return o
}

func play(o ls.Options, raw []byte, chunks []int, sleeps []int32, space string) {
	flip++
	full := ls.NewLoop(withHandler(ls.All(buf), flip%4 >= 2))
	// every class option of the listener under test is given once, twice or
	// three times (lists of defaults and user options put together)
	o.Repeat = (flip / 4) % 3
	rest := ls.NewLoop(withHandler(o, flip%2 == 1))
	ctx.Eval()
	pos := 0
	for ci, n := range chunks {
		d := time.Duration(sleeps[ci]) * time.Millisecond
		full.Drv.Sleep(d)
		rest.Drv.Sleep(d)
		_, c1 := full.Send(raw[pos : pos+n])
		_, c2 := rest.Send(raw[pos : pos+n])
		if c1.Panicked || c2.Panicked {
			if c2.Panicked && !c1.Panicked {
				report(c2.Sig+":"+optName(o), o, raw, chunks, sleeps, "Send panicked only under this option set: "+c2.Value)
			}
			return
		}
		pos += n
	}
	want := project(full.Got, o)
	if len(want) != len(full.Got) {
		ctx.NontrivialN(1)
	}
	if d := diff(want, rest.Got); d != "" {
		report("filter:"+d+":"+optName(o)+":"+space, o, raw, chunks, sleeps,
			fmt.Sprintf("with all options [%s]; with %s [%s]", ls.RenderDeliveries(full.Got), optName(o), ls.RenderDeliveries(rest.Got)))
	}
}

// relisten: the port is used a second time. A first listener with options
// `first` receives a warm-up stream and is stopped; a second listener with
// options o on the SAME port must then behave exactly like a listener on a
// fresh port (projection of the all-options run), time stamps counted from
// its own Listen.
func relisten(first, o ls.Options, raw []byte, chunks []int, warm []byte) {
	report := func(sig string, o ls.Options, raw []byte, chunks []int, _ []int32, what string) {
		if ctx.SigCount(sig) < 10 {
			ctx.Violation(sig, map[string]interface{}{"kind": "relisten", "options": optName(o), "sysex": o.SysEx, "clock": o.TimeCode, "sense": o.ActiveSense,
				"first_sysex": first.SysEx, "first_clock": first.TimeCode, "first_sense": first.ActiveSense,
				"wire": engine.Hex(raw), "chunks": chunks, "warmup": engine.Hex(warm), "what": what})
		}
	}
	full := ls.NewLoop(ls.All(buf))
	rest := ls.NewLoop(first)
	ctx.Eval()
	if len(warm) > 0 {
		rest.Send(warm)
	}
	rest.Drv.Sleep(7 * time.Millisecond)
	rest.Relisten(o)
	if rest.Err != nil {
		report("relisten:error:"+optName(first)+"->"+optName(o), o, raw, chunks, nil, "second ListenTo on the same port failed: "+rest.Err.Error())
		return
	}
	pos := 0
	for _, n := range chunks {
		d := 2 * time.Millisecond
		full.Drv.Sleep(d)
		rest.Drv.Sleep(d)
		_, c1 := full.Send(raw[pos : pos+n])
		_, c2 := rest.Send(raw[pos : pos+n])
		if c1.Panicked || c2.Panicked {
			if c2.Panicked && !c1.Panicked {
				report(c2.Sig+":relisten", o, raw, chunks, nil, "Send panicked after listening again: "+c2.Value)
			}
			return
		}
		pos += n
	}
	want := project(full.Got, o)
	if len(want) != len(full.Got) {
		ctx.NontrivialN(1)
	}
	// time stamps of the second listener start at its Listen: compare relative to the first delivery
	if d := diffRel(want, rest.Got); d != "" {
		report("relisten:"+d+":"+optName(first)+"->"+optName(o), o, raw, chunks, nil,
			fmt.Sprintf("first listener %s, then %s on the same port: fresh port delivers [%s], re-used port [%s]", optName(first), optName(o), ls.RenderDeliveries(want), ls.RenderDeliveries(rest.Got)))
	}
}

// diffRel is diff with time stamps compared as differences between deliveries.
func diffRel(want, got []ls.Delivered) string {
	w := append([]ls.Delivered(nil), want...)
	g := append([]ls.Delivered(nil), got...)
	if len(w) > 0 && len(g) > 0 {
		w0, g0 := w[0].TS, g[0].TS
		for i := range w {
			w[i].TS -= w0
		}
		for i := range g {
			g[i].TS -= g0
		}
	}
	return diff(w, g)
}

func relistenSpace(fi int) {
	cs := combos()
	first := cs[fi]
	streams := [][]byte{
		{0x90, 0x3C, 0x40, 0xF0, 0x10, 0x11, 0xF7, 0xF8, 0xFE, 0x3E, 0x00},
		{0xF0, 0x10, 0x11, 0x12, 0xF7, 0xC0, 0x05, 0xF0, 0xF7},
		{0xFE, 0xF8, 0xF2, 0x01, 0x7F, 0xF0, 0x10, 0xF7, 0x90, 0x01, 0x02},
	}
	warms := [][]byte{nil, {0x90, 0x3C, 0x40}, {0xF0, 0x10}, {0x90, 0x3C}, {0xF0, 0x10, 0x11, 0x12, 0xF7}}
	for _, o := range cs {
		for _, raw := range streams {
			for _, warm := range warms {
				relisten(first, o, raw, []int{len(raw)}, warm)
				bw := make([]int, len(raw))
				for i := range bw {
					bw[i] = 1
				}
				relisten(first, o, raw, bw, warm)
			}
		}
	}
}

func compositions(n int, f func([]int)) {
	for mask := 0; mask < 1<<(n-1); mask++ {
		var c []int
		run := 1
		for i := 0; i < n-1; i++ {
			if mask&(1<<i) != 0 {
				c = append(c, run)
				run = 1
			} else {
				run++
			}
		}
		c = append(c, run)
		f(c)
	}
}

func pattern(k int, which int) []int32 {
	s := make([]int32, k)
	set := []int32{1, 5, 0}
	for i := range s {
		if which == 0 {
			s[i] = set[i%3]
		}
	}
	return s
}

func senderSpace(o ls.Options, first int) {
	maxDepth := ctx.Pick(4, 5)
	seq := make([]ls.SMsg, maxDepth)
	var rec func(i, depth int)
	one := func(seq []ls.SMsg) {
		depth := len(seq)
		for el := uint(0); el < 1<<uint(depth); el++ {
			wire := ls.Serialize(seq, el)
			if wire == nil {
				continue
			}
			n := len(wire)
			raw := make([]byte, n)
			for i, w := range wire {
				raw[i] = w.B
			}
			play(o, raw, []int{n}, []int32{3}, "one-chunk")
			bw := make([]int, n)
			for i := range bw {
				bw[i] = 1
			}
			play(o, raw, bw, pattern(n, 0), "bytewise")
			if depth <= 2 && n <= ctx.Pick(10, 12) {
				compositions(n, func(c []int) {
					play(o, raw, c, pattern(len(c), 0), "partitions")
				})
				// a real-time byte of each filtered class at every position, bytewise and in one chunk
				for _, rt := range []byte{0xF8, 0xFE, 0xFA} {
					for p := 0; p <= n; p++ {
						r2 := append(append(append([]byte{}, raw[:p]...), rt), raw[p:]...)
						play(o, r2, []int{n + 1}, []int32{1}, "realtime")
						b2 := make([]int, n+1)
						for i := range b2 {
							b2[i] = 1
						}
						play(o, r2, b2, pattern(n+1, 0), "realtime")
					}
				}
			}
		}
	}
	rec = func(i, depth int) {
		if i == depth {
			one(seq[:depth])
			return
		}
		for _, m := range alphabet {
			seq[i] = m
			rec(i+1, depth)
		}
	}
	for depth := 1; depth <= maxDepth; depth++ {
		seq[0] = alphabet[first]
		rec(1, depth)
	}
}

// deepSpace: sequences of five and six messages (thorough seven) over six
// kinds - two channels, a controller, a program change, a short sysex, a
// clock: what a listener keeps from three or four messages ago (a status it
// cached, a flag a sysex cleared) shows only behind that many steps. With and
// without running status, in one piece and bytewise.
var deepKinds = []string{"NoteOn0a", "NoteOn1", "CC0", "Prog0", "SysExMin", "Clock"}

func deepSpace(o ls.Options, first int) {
	var kinds []ls.SMsg
	for _, k := range deepKinds {
		for _, a := range alphabet {
			if a.Name == k {
				kinds = append(kinds, a)
			}
		}
	}
	maxDepth := ctx.Pick(6, 7)
	seq := make([]ls.SMsg, maxDepth)
	var rec func(i, depth int)
	rec = func(i, depth int) {
		if i == depth {
			for _, elide := range []bool{false, true} {
				wire := ls.SerializeLong(seq[:depth], elide)
				raw := make([]byte, len(wire))
				for k, w := range wire {
					raw[k] = w.B
				}
				play(o, raw, []int{len(raw)}, []int32{2}, "deep")
				bw := make([]int, len(raw))
				for k := range bw {
					bw[k] = 1
				}
				play(o, raw, bw, pattern(len(raw), 0), "deep")
			}
			return
		}
		for _, m := range kinds {
			seq[i] = m
			rec(i+1, depth)
		}
	}
	for depth := 5; depth <= maxDepth; depth++ {
		seq[0] = kinds[first]
		rec(1, depth)
	}
}

func product(o ls.Options) {
	b := &engine.BFS{NumOps: len(ls.Classes), MaxStates: 400000, MaxTransitions: 1000000, Stop: func() bool { return ctx.ViolationCount() > 0 }}
	b.Run = func(path []uint16) (string, bool) {
		// every byte stream, sender-legal or not: the statement compares two
		// listeners on the same wire, whatever is on it
		stream := make([]byte, len(path))
		for i, p := range path {
			stream[i] = ls.Classes[p]
		}
		ctx.Eval()
		full := ls.NewLoop(ls.All(buf))
		rest := ls.NewLoop(o)
		for i, by := range stream {
			_, c1 := full.Send([]byte{by})
			_, c2 := rest.Send([]byte{by})
			g1, g2 := full.Take(), rest.Take()
			if i < len(stream)-1 {
				continue
			}
			if c1.Panicked || c2.Panicked {
				if c2.Panicked && !c1.Panicked {
					report(c2.Sig+":"+optName(o), o, stream, nil, nil, "Send panicked only under this option set: "+c2.Value)
				}
				return "", false
			}
			if d := diff(project(g1, o), g2); d != "" {
				report("filter:"+d+":"+optName(o)+":product", o, stream, nil, nil,
					fmt.Sprintf("last byte: with all options [%s]; with %s [%s]", ls.RenderDeliveries(g1), optName(o), ls.RenderDeliveries(g2)))
				return "", false
			}
		}
		return full.ReaderState() + "|" + rest.ReaderState(), true
	}
	b.Explore("init")
	ctx.Add("states", b.States)
	ctx.Add("transitions", b.Transitions)
	ctx.Max("max:depth", int64(b.Depth))
	ctx.Add("searches", 1)
	if b.Fixpoint {
		ctx.Add("fixpoints_reached", 1)
	} else {
		ctx.NotExhaustive("pair product search did not reach its fixpoint for " + optName(o))
	}
}

// chunkClasses: reduced byte alphabet for long streams handed over in ONE
// Send call (decoders tend to grow per-chunk shortcuts): data, two channel
// statuses (two and one data byte), sysex start/end, the two filtered
// real-time bytes and an undefined one.
var chunkClasses = []byte{0x01, 0x90, 0xC0, 0xF0, 0xF7, 0xF8, 0xFE, 0xFD}

// chunkSpace: every stream over chunkClasses up to the length bound whose
// first two bytes are (c0, c1), sent as one chunk, and again as two chunks cut
// at every position; all option sets against the all-options listener.
func chunkSpace(c0, c1 int) {
	maxLen := ctx.Pick(6, 8)
	cs := combos()
	stream := make([]byte, 0, maxLen)
	stream = append(stream, chunkClasses[c0], chunkClasses[c1])
	one := func(raw []byte, chunks []int) {
		flip++
		full := ls.NewLoop(withHandler(ls.All(buf), flip%4 >= 2))
		full.Drv.Sleep(3 * time.Millisecond)
		pos := 0
		for _, n := range chunks {
			if _, c := full.Send(raw[pos : pos+n]); c.Panicked {
				return // C06's business
			}
			pos += n
		}
		ctx.Eval()
		for oi, o := range cs {
			rest := ls.NewLoop(withHandler(o, (flip+oi)%2 == 1))
			rest.Drv.Sleep(3 * time.Millisecond)
			pos := 0
			for _, n := range chunks {
				if _, c := rest.Send(raw[pos : pos+n]); c.Panicked {
					report(c.Sig+":"+optName(o), o, raw, chunks, nil, "Send panicked only under this option set: "+c.Value)
					return
				}
				pos += n
			}
			want := project(full.Got, o)
			if len(want) != len(full.Got) {
				ctx.NontrivialN(1)
			}
			if d := diff(want, rest.Got); d != "" {
				report("filter:"+d+":"+optName(o)+":long-chunks", o, raw, chunks, nil,
					fmt.Sprintf("with all options [%s]; with %s [%s]", ls.RenderDeliveries(full.Got), optName(o), ls.RenderDeliveries(rest.Got)))
			}
		}
	}
	var rec func()
	rec = func() {
		n := len(stream)
		one(stream, []int{n})
		for cut := 1; cut < n; cut++ {
			one(stream, []int{cut, n - cut})
		}
		if n == maxLen {
			return
		}
		for _, c := range chunkClasses {
			stream = append(stream, c)
			rec()
			stream = stream[:n]
		}
	}
	rec()
	ctx.Add("long_chunk_streams_prefixes", 1)
}

// knownSysex: system exclusive messages whose content means something to
// other parts of a MIDI system (time code full frame, machine control,
// device inquiry, GM/GS/XG resets, master volume, tuning, sample dump): a
// listener option must filter by message class, never by what a sysex says.
var knownSysex = [][]byte{
	{0xF0, 0x7F, 0x7F, 0x01, 0x01, 0x01, 0x02, 0x03, 0x04, 0xF7},                   // MTC full frame
	{0xF0, 0x7F, 0x00, 0x01, 0x01, 0x61, 0x3B, 0x3B, 0x1D, 0xF7},                   // MTC full frame, device 0, 30 fps
	{0xF0, 0x7F, 0x7F, 0x01, 0x02, 0x01, 0x02, 0x03, 0x04, 0xF7},                   // MTC user bits (same length)
	{0xF0, 0x7F, 0x7F, 0x06, 0x02, 0xF7},                                           // MMC play
	{0xF0, 0x7F, 0x7F, 0x06, 0x01, 0xF7},                                           // MMC stop
	{0xF0, 0x7F, 0x7F, 0x06, 0x44, 0x06, 0x01, 0x01, 0x02, 0x03, 0x04, 0x05, 0xF7}, // MMC locate
	{0xF0, 0x7E, 0x7F, 0x06, 0x01, 0xF7},                                           // device inquiry
	{0xF0, 0x7E, 0x7F, 0x09, 0x01, 0xF7},                                           // GM on
	{0xF0, 0x7F, 0x7F, 0x04, 0x01, 0x00, 0x7F, 0xF7},                               // master volume
	{0xF0, 0x41, 0x10, 0x42, 0x12, 0x40, 0x00, 0x7F, 0x00, 0x41, 0xF7},             // GS reset
	{0xF0, 0x43, 0x10, 0x4C, 0x00, 0x00, 0x7E, 0x00, 0xF7},                         // XG on
	{0xF0, 0x7E, 0x00, 0x08, 0x00, 0x01, 0xF7},                                     // tuning dump request
	{0xF0, 0x7E, 0x00, 0x7C, 0x00, 0xF7},                                           // sample dump wait
	{0xF0, 0x7F, 0x7F, 0x03, 0x01, 0xF7},                                           // MTC cueing-like
	{0xF0, 0x78, 0x7E, 0xF7},                                                       // payload made of the low bits of F8 / FE
	{0xF0, 0xF7},
}

// subMillis: gaps that are not whole milliseconds (a 24 ppq clock at 120 bpm
// ticks every 20.833 ms) between Sends of one message each: whatever the
// driver does with the fractions, it does the same for every option set - the
// remaining messages keep the time stamps the all-options listener sees.
func subMillis() {
	msgs := [][]byte{{0xF8}, {0x90, 0x3C, 0x40}, {0xF8}, {0xFE}, {0xF8}, {0xF0, 0x01, 0xF7}, {0xF8}, {0xFE}, {0x80, 0x3C, 0x00}, {0xF8}, {0xC0, 0x05},
		{0xF0, 1, 2, 3, 4, 5, 6, 7, 8, 0xF7}, {0x91, 0x01, 0x02}, {0xF0, 1, 2}, {0xB0, 0x07, 0x08}, {0xFE}, {0xC1, 0x06}} // a sysex that overflows the buffer, one that is cut short
	for _, gap := range []time.Duration{600 * time.Microsecond, 20833 * time.Microsecond, 1499 * time.Microsecond, 999 * time.Microsecond, 2 * time.Millisecond} {
		for mask := 0; mask < 8; mask++ {
			o := ls.Options{SysEx: mask&1 != 0, TimeCode: mask&2 != 0, ActiveSense: mask&4 != 0, BufSize: buf}
			flip++
			full := ls.NewLoop(withHandler(ls.All(buf), flip%4 >= 2))
			rest := ls.NewLoop(withHandler(o, flip%2 == 1))
			ctx.Eval()
			var raw []byte
			var chunks []int
			for _, m := range msgs {
				full.Drv.Sleep(gap)
				rest.Drv.Sleep(gap)
				full.Send(m)
				rest.Send(m)
				raw = append(raw, m...)
				chunks = append(chunks, len(m))
			}
			want := project(full.Got, o)
			if len(want) != len(full.Got) {
				ctx.NontrivialN(1)
			}
			if d := diff(want, rest.Got); d != "" {
				report("filter:"+d+":"+optName(o)+":sub-millisecond-gaps", o, raw, chunks, nil,
					fmt.Sprintf("gaps of %v between the Sends: with all options [%s]; with %s [%s]", gap, ls.RenderDeliveries(full.Got), optName(o), ls.RenderDeliveries(rest.Got)))
			}
			ctx.Add("sub_millisecond_plays", 1)
		}
	}
}

func knownSysexSpace() {
	const big = 64
	all := ls.All(big)
	for _, sx := range knownSysex {
		for mask := 0; mask < 8; mask++ {
			o := ls.Options{SysEx: mask&1 != 0, TimeCode: mask&2 != 0, ActiveSense: mask&4 != 0, BufSize: big}
			raw := append(append([]byte{0x90, 0x10, 0x20}, sx...), 0xF8, 0xFE, 0x80, 0x10, 0x00)
			n := len(raw)
			for _, chunks := range [][]int{{n}, nil, {3, len(sx), 5}, {4, n - 4}} {
				if chunks == nil {
					for range raw {
						chunks = append(chunks, 1)
					}
				}
				full := ls.NewLoop(all)
				rest := ls.NewLoop(o)
				ctx.Eval()
				pos := 0
				for _, c := range chunks {
					full.Drv.Sleep(2 * time.Millisecond)
					rest.Drv.Sleep(2 * time.Millisecond)
					full.Send(raw[pos : pos+c])
					rest.Send(raw[pos : pos+c])
					pos += c
				}
				want := project(full.Got, o)
				if len(want) != len(full.Got) {
					ctx.NontrivialN(1)
				}
				if len(sx) > 2 && len(full.Got) != 5 {
					ctx.Guard(false, "known-sysex space: the all-options listener delivers %d messages for %X", len(full.Got), raw)
				}
				if d := diff(want, rest.Got); d != "" {
					report("filter:"+d+":"+optName(o)+":known-sysex", o, raw, chunks, nil,
						fmt.Sprintf("with all options [%s]; with %s [%s]", ls.RenderDeliveries(full.Got), optName(o), ls.RenderDeliveries(rest.Got)))
				}
				ctx.Add("known_sysex_plays", 1)
			}
		}
	}
}

func main() {
	ctx = engine.Start("C14", "model_checking")
	ls.OnViolation = func(sig, what string) {
		if ctx.SigCount(sig) < 3 {
			ctx.Violation(sig, map[string]interface{}{"kind": "wrapper", "what": what})
		}
	}
	if ctx.ReplayPath != "" {
		replay()
		return
	}
	ctx.Assume("the all-options listener on the same wire is the reference (differential oracle); what it should deliver is C04's and C06's business")
	cs := combos()
	ctx.JobsW("product", len(cs), 2, func(j int) { product(cs[j]) })
	type job struct {
		o     ls.Options
		first int
	}
	var jobs []job
	for _, o := range cs {
		for f := range alphabet {
			jobs = append(jobs, job{o, f})
		}
	}
	ctx.Jobs("sender", len(jobs), func(j int) { senderSpace(jobs[j].o, jobs[j].first) })
	ctx.Jobs("relisten", len(cs), func(j int) { relistenSpace(j) })
	ctx.Jobs("deep", len(cs)*len(deepKinds), func(j int) { deepSpace(cs[j/len(deepKinds)], j%len(deepKinds)) })
	ctx.Jobs("periodic", 16, func(j int) { periodic(j, 16) })
	ctx.Jobs("known-sysex", 1, func(int) { knownSysexSpace(); subMillis() })
	nc := len(chunkClasses)
	ctx.Jobs("long-chunks", nc*nc, func(j int) { chunkSpace(j/nc, j%nc) })
	ctx.Set("traces_validated_against_impl", ctx.GetInt("transitions"))
	ctx.Set("max_depth", ctx.GetInt("max:depth"))
	ctx.Set("fixpoint_reached", ctx.GetInt("fixpoints_reached") == ctx.GetInt("searches"))
	ctx.Set("option_combinations", len(cs))
	ctx.Sample(map[string]interface{}{"options": "sysex=false,clock=true,sense=false", "wire": "F0 10 F8 11 F7 FE 90 3C 40", "expect": "F8 and the note-on arrive with the stamps they have under all options; sysex and FE are absent"})
	ctx.Guard(ctx.NontrivialCount() > 1000, "filters hardly ever had anything to remove: %d", ctx.NontrivialCount())
	ctx.Finish("for each of the 8 option combinations: BFS over sender-legal single-byte Sends on the pair (all options, this combination) to the fixpoint; sender sequences up to depth 3/4 x legal elisions, one chunk and bytewise; depth <= 2: every partition with time deltas, each real-time class inserted at every position; non-trivial = runs in which the projection removed at least one message")
}

// periodic: hundreds of messages in few Send calls (a driver that sorts,
// batches or buffers what one call produced works on more than a handful):
// every pattern of one or two messages over six kinds, 400 messages (thorough
// 4000), in one piece, in chunks of 7 and of 61 bytes with a millisecond in
// between, under each of the eight option sets.
func periodic(part, parts int) {
	var kinds []ls.SMsg
	for _, k := range []string{"NoteOn0a", "NoteOn0b", "Clock", "ActiveSense", "SysExFull", "Prog0"} {
		for _, a := range alphabet {
			if a.Name == k {
				kinds = append(kinds, a)
			}
		}
	}
	total := ctx.Pick(400, 4000)
	var pats [][]int
	for a := range kinds {
		pats = append(pats, []int{a})
		for b := range kinds {
			if a != b {
				pats = append(pats, []int{a, b})
			}
		}
	}
	k := 0
	for _, pat := range pats {
		seq := make([]ls.SMsg, 0, total+2)
		for len(seq) < total {
			for _, p := range pat {
				seq = append(seq, kinds[p])
			}
		}
		for _, elide := range []bool{true, false} {
			wire := ls.SerializeLong(seq, elide)
			for _, ins := range []int{0, 3, 5} {
				// a real-time byte after every third / fifth byte of the stream (inside
				// messages and inside sysex as well)
				raw := make([]byte, 0, 2*len(wire))
				for i, w := range wire {
					raw = append(raw, w.B)
					if ins == 3 && i%3 == 2 {
						raw = append(raw, 0xF8)
					}
					if ins == 5 && i%5 == 4 {
						raw = append(raw, 0xFE)
					}
				}
				for _, size := range []int{len(raw), 7, 61} {
					var chunks []int
					var sleeps []int32
					for left := len(raw); left > 0; left -= size {
						chunks = append(chunks, min(size, left))
						sleeps = append(sleeps, 1)
					}
					for _, o := range combos() {
						k++
						if k%parts == part {
							play(o, raw, chunks, sleeps, "periodic")
							ctx.Add("periodic_plays", 1)
						}
					}
				}
			}
		}
	}
}

func replay() {
	m := ctx.LoadReplay()
	o := ls.Options{SysEx: m["sysex"].(bool), TimeCode: m["clock"].(bool), ActiveSense: m["sense"].(bool), BufSize: buf}
	raw := engine.UnHex(m["wire"].(string))
	var chunks []int
	var sleeps []int32
	if l, ok := m["chunks"].([]interface{}); ok && l != nil {
		for _, c := range l {
			chunks = append(chunks, int(c.(float64)))
		}
		if sl, ok := m["sleeps_ms"].([]interface{}); ok {
			for _, c := range sl {
				sleeps = append(sleeps, int32(c.(float64)))
			}
		}
		for len(sleeps) < len(chunks) {
			sleeps = append(sleeps, 0)
		}
	} else {
		for range raw {
			chunks = append(chunks, 1)
			sleeps = append(sleeps, 0)
		}
	}
	if m["kind"] == "relisten" {
		first := ls.Options{SysEx: m["first_sysex"].(bool), TimeCode: m["first_clock"].(bool), ActiveSense: m["first_sense"].(bool), BufSize: buf}
		relisten(first, o, raw, chunks, engine.UnHex(m["warmup"].(string)))
		ctx.Finish("replay")
	}
	if sig, _ := m["signature"].(string); strings.HasPrefix(sig, "relisten:") {
		// files written before the first listener was recorded: the whole (small) space is re-run
		for fi := range combos() {
			relistenSpace(fi)
		}
		ctx.Finish("replay")
	}
	// which listener carried the error handler and how often the options were
	// given depends on a running counter: all twelve variants
	for i := 0; i < 12; i++ {
		play(o, raw, chunks, sleeps, "replay")
	}
	ctx.Finish("replay")
}
