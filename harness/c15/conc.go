package main

import (
	"fmt"

	cp "gitlab.com/gomidi/midi/v2/internal/verifh/concpairs"
	"gitlab.com/gomidi/midi/v2/smf"
)

// concCases: every constructor family with two argument tuples, rendered with
// what the matching accessor returns. Two such calls in two threads must not
// disturb each other (no shared scratch state), for every schedule with at
// most two preemptions at the instrumented accesses to package-level state.
func concCases() []cp.Case {
	var cs []cp.Case
	add := func(name string, f func() string) { cs = append(cs, cp.Case{Name: name, Run: f}) }
	for _, v := range []uint16{0x0102, 0xA1B2} {
		v := v
		add(fmt.Sprintf("MetaSequenceNo/%d", v), func() string {
			m := smf.MetaSequenceNo(v)
			var g uint16
			ok := m.GetMetaSeqNumber(&g)
			return fmt.Sprintf("% X %v %d", []byte(m), ok, g)
		})
	}
	for _, v := range []uint8{3, 14} {
		v := v
		add(fmt.Sprintf("MetaChannel/%d", v), func() string {
			m := smf.MetaChannel(v)
			var g uint8
			ok := m.GetMetaChannel(&g)
			return fmt.Sprintf("% X %v %d", []byte(m), ok, g)
		})
		add(fmt.Sprintf("MetaPort/%d", v), func() string {
			m := smf.MetaPort(v)
			var g uint8
			ok := m.GetMetaPort(&g)
			return fmt.Sprintf("% X %v %d", []byte(m), ok, g)
		})
	}
	for _, n := range []int{5, 200} {
		n := n
		add(fmt.Sprintf("MetaText/%d", n), func() string {
			m := smf.MetaText(string(content(n, n%3)))
			var g string
			ok := m.GetMetaText(&g)
			return fmt.Sprintf("% X %v %q", []byte(m), ok, g)
		})
		add(fmt.Sprintf("MetaLyric/%d", n), func() string {
			m := smf.MetaLyric(string(content(n, 1+n%3)))
			var g string
			ok := m.GetMetaLyric(&g)
			return fmt.Sprintf("% X %v %q", []byte(m), ok, g)
		})
		add(fmt.Sprintf("MetaSequencerData/%d", n), func() string {
			m := smf.MetaSequencerData(content(n, 2))
			var g []byte
			ok := m.GetMetaSeqData(&g)
			return fmt.Sprintf("% X %v % X", []byte(m), ok, g)
		})
	}
	for _, a := range [][5]byte{{1, 2, 3, 4, 5}, {23, 59, 58, 29, 99}} {
		a := a
		add(fmt.Sprintf("MetaSMPTE/%v", a), func() string {
			m := smf.MetaSMPTE(a[0], a[1], a[2], a[3], a[4])
			var g [5]uint8
			ok := m.GetMetaSMPTEOffsetMsg(&g[0], &g[1], &g[2], &g[3], &g[4])
			return fmt.Sprintf("% X %v %v", []byte(m), ok, g)
		})
	}
	for _, a := range [][4]uint8{{3, 4, 24, 8}, {7, 16, 12, 4}} {
		a := a
		add(fmt.Sprintf("MetaTimeSig/%v", a), func() string {
			m := smf.MetaTimeSig(a[0], a[1], a[2], a[3])
			var g [4]uint8
			ok := m.GetMetaTimeSig(&g[0], &g[1], &g[2], &g[3])
			var n, d uint8
			ok2 := m.GetMetaMeter(&n, &d)
			return fmt.Sprintf("% X %v %v %v %d/%d", []byte(m), ok, g, ok2, n, d)
		})
	}
	for _, a := range []struct {
		key, num  uint8
		maj, flat bool
	}{{2, 2, true, false}, {8, 4, false, true}} {
		a := a
		add(fmt.Sprintf("MetaKey/%v", a), func() string {
			m := smf.MetaKey(a.key, a.maj, a.num, a.flat)
			var k, n uint8
			var mj, fl bool
			ok := m.GetMetaKeySig(&k, &n, &mj, &fl)
			var kk smf.Key
			ok2 := m.GetMetaKey(&kk)
			return fmt.Sprintf("% X %v %d %d %v %v %v %s | %s", []byte(m), ok, k, n, mj, fl, ok2, kk.String(), m.String())
		})
	}
	for _, bpm := range []float64{120, 61.5} {
		bpm := bpm
		add(fmt.Sprintf("MetaTempo/%v", bpm), func() string {
			m := smf.MetaTempo(bpm)
			var g float64
			ok := m.GetMetaTempo(&g)
			return fmt.Sprintf("% X %v %.6f", []byte(m), ok, g)
		})
	}
	add("named-keys/DMaj+BbMin", func() string {
		return fmt.Sprintf("% X % X", []byte(smf.DMaj()), []byte(smf.BbMin()))
	})
	return cs
}
