package main

import (
	cc "gitlab.com/gomidi/midi/v2/internal/verifh/conccases"
	cp "gitlab.com/gomidi/midi/v2/internal/verifh/concpairs"
)

// concCases: the meta constructor family of package conccases.
func concCases() []cp.Case { return cc.Meta() }
