// C15 — meta-event constructors and accessors are mutually inverse.
package main

import (
	"bytes"
	"fmt"
	"hash/adler32"
	"hash/crc32"
	"hash/fnv"
	"math"
	"sort"

	"gitlab.com/gomidi/midi/v2"
	cp "gitlab.com/gomidi/midi/v2/internal/verifh/concpairs"
	"gitlab.com/gomidi/midi/v2/internal/verifh/disturb"
	"gitlab.com/gomidi/midi/v2/internal/verifh/engine"
	"gitlab.com/gomidi/midi/v2/internal/verifh/refsmf"
	"gitlab.com/gomidi/midi/v2/smf"
)

var ctx *engine.Ctx

func report(sig, ctor string, args interface{}, m []byte, what string) {
	if ctx.SigCount(sig) < 10 {
		mm := m
		if len(mm) > 40 {
			mm = mm[:40]
		}
		ctx.Violation(sig, map[string]interface{}{"kind": "meta", "constructor": ctor, "args": args, "message_head": engine.Hex(mm), "message_len": len(m), "what": what})
	}
}

// wellFormed checks FF type VLQ(len) payload.
var stable engine.Stable

func wellFormed(ctor string, args interface{}, m []byte, typ byte, payload []byte) bool {
	if ok, was, now := stable.Next(m); !ok {
		if len(was) > 24 {
			was, now = was[:24], now[:24]
		}
		report("aliasing:"+ctor, ctor, args, was, "the message returned by the previous constructor call changed when this one was built: now "+engine.Hex(now))
	}
	want := refsmf.Meta(typ, payload)
	if !bytes.Equal(m, want) {
		w := want
		if len(w) > 12 {
			w = w[:12]
		}
		report("layout:"+ctor+":"+lenClass(len(payload)), ctor, args, m, "want FF type VLQ(len) payload = "+engine.Hex(w)+"...")
		return false
	}
	return true
}

func lenClass(n int) string {
	switch {
	case n < 128:
		return "one-byte-length"
	case n < 16384:
		return "two-byte-length"
	}
	return "three-byte-length"
}

type textCtor struct {
	name string
	typ  byte
	mk   func(string) smf.Message
	get  func(smf.Message, *string) bool
}

var textCtors = []textCtor{
	{"MetaLyric", 0x05, smf.MetaLyric, smf.Message.GetMetaLyric},
	{"MetaCopyright", 0x02, smf.MetaCopyright, smf.Message.GetMetaCopyright},
	{"MetaCuepoint", 0x07, smf.MetaCuepoint, smf.Message.GetMetaCuepoint},
	{"MetaDevice", 0x09, smf.MetaDevice, smf.Message.GetMetaDevice},
	{"MetaInstrument", 0x04, smf.MetaInstrument, smf.Message.GetMetaInstrument},
	{"MetaMarker", 0x06, smf.MetaMarker, smf.Message.GetMetaMarker},
	{"MetaProgram", 0x08, smf.MetaProgram, smf.Message.GetMetaProgramName},
	{"MetaText", 0x01, smf.MetaText, smf.Message.GetMetaText},
	{"MetaTrackSequenceName", 0x03, smf.MetaTrackSequenceName, smf.Message.GetMetaTrackName},
}

func content(n, pat int) []byte {
	if pat == 4 {
		const u = "Grüße ♪ 日本語 𝄞 é"
		var out []byte
		for len(out) < n {
			for _, r := range u {
				rb := []byte(string(r))
				if len(out)+len(rb) > n {
					return out
				}
				out = append(out, rb...)
			}
		}
		return out
	}
	if pat == 5 || pat == 6 {
		// texts a formatter or a decoder could take for something else: verbs and
		// escapes; a byte-order mark in front
		u := "100% sure %s %d %% %!v(MISSING) \\n \\x00 {{.}} $1 "
		if pat == 6 {
			u = "\xEF\xBB\xBFtitle \xEF\xBB\xBF "
		}
		out := make([]byte, n)
		for i := range out {
			out[i] = u[i%len(u)]
		}
		return out
	}
	b := make([]byte, n)
	for i := range b {
		switch pat {
		case 0:
			b[i] = 0
		case 1:
			b[i] = 0xFF
		case 2:
			b[i] = byte(i)
		case 4:
			// valid multi-byte UTF-8 (2-, 3- and 4-byte sequences), cut at a rune boundary
			const u = "Grüße ♪ 日本語 𝄞 é"
			b[i] = u[i%len(u)]
		default:
			b[i] = "text"[i%4]
		}
	}
	return b
}

func lengths() []int {
	var l []int
	if ctx.Thorough() {
		for i := 0; i <= 20000; i++ {
			l = append(l, i)
		}
		for k := 5; k <= 32; k++ {
			l = append(l, 4096*k-1, 4096*k, 4096*k+1)
		}
		return l
	}
	for i := 0; i <= 300; i++ {
		l = append(l, i)
	}
	// every multiple of 4096 up to 128 KiB and its neighbours (data read or
	// built in blocks ends exactly on a block border)
	for k := 1; k <= 32; k++ {
		l = append(l, 4096*k-1, 4096*k, 4096*k+1)
	}
	return append(l, 16383, 20000)
}

func texts(part, parts int) {
	ls := lengths()
	for li := part; li < len(ls); li += parts {
		n := ls[li]
		for pat := 0; pat < 7; pat++ {
			judgePayload(content(n, pat), n)
		}
	}
}

// judgePayload builds every text kind and the sequencer data with p as
// content and inverts them.
func judgePayload(p []byte, label interface{}) {
	n := len(p)
	for _, tc := range textCtors {
		ctx.Eval()
		var m smf.Message
		var got string
		var ok bool
		c := engine.Catch(func() { m = tc.mk(string(p)); ok = tc.get(m, &got) })
		if c.Panicked {
			report(c.Sig+":"+tc.name, tc.name, label, m, "panicked: "+c.Value)
			continue
		}
		if !wellFormed(tc.name, label, m, tc.typ, p) {
			continue
		}
		if !ok || got != string(p) {
			report("accessor:"+tc.name+":"+lenClass(n), tc.name, label, m, fmt.Sprintf("accessor returns ok=%v and %d bytes for a text of %d bytes", ok, len(got), n))
		}
		if n >= 128 {
			ctx.NontrivialN(1)
		}
	}
	if n >= 1 {
		ctx.Eval()
		var m smf.Message
		var got []byte
		var ok bool
		c := engine.Catch(func() { m = smf.MetaSequencerData(p); ok = m.GetMetaSeqData(&got) })
		if c.Panicked {
			report(c.Sig+":MetaSequencerData", "MetaSequencerData", label, m, "panicked: "+c.Value)
			return
		}
		if wellFormed("MetaSequencerData", label, m, 0x7F, p) && (!ok || !bytes.Equal(got, p)) {
			report("accessor:MetaSequencerData:"+lenClass(n), "MetaSequencerData", label, m, fmt.Sprintf("GetMetaSeqData returns ok=%v and %d bytes for %d bytes of data", ok, len(got), n))
		}
	}
}

// nested: contents that are themselves complete events - what every meta
// constructor builds, channel messages, sysex, chunk headers - alone, with a
// byte in front or behind, cut by one byte, and once more wrapped (a
// constructor that recognises "an event" in its argument and unwraps it).
func nested() {
	var inner [][]byte
	add := func(b []byte) { inner = append(inner, append([]byte(nil), b...)) }
	for _, tc := range textCtors {
		add(tc.mk("A"))
		add(tc.mk(""))
		add(tc.mk(string(content(200, 3))))
	}
	add(smf.MetaSequencerData([]byte{0x41}))
	add(smf.MetaSequencerData([]byte{0x00, 0x20, 0x29}))
	add(smf.MetaSequencerData(content(127, 2)))
	add(smf.MetaSequencerData(content(128, 2)))
	add(smf.MetaSequencerData(content(300, 2)))
	add(smf.MetaTempo(120))
	add(smf.MetaMeter(3, 4))
	add(smf.MetaKey(2, true, 2, false))
	add(smf.MetaSMPTE(1, 2, 3, 4, 5))
	add(smf.MetaChannel(3))
	add(smf.MetaPort(2))
	add(smf.MetaSequenceNo(258))
	add(smf.EOT)
	add(smf.MetaUndefined(0x60, []byte{1, 2}))
	add(midi.NoteOn(1, 60, 100))
	add(midi.ProgramChange(2, 5))
	add(midi.SysEx([]byte{0x7E, 0x7F, 0x09, 0x01}))
	add([]byte{0xF0, 0x05, 0x7E, 0x7F, 0x09, 0x01, 0xF7})
	add([]byte{0xF7, 0x01, 0xF8})
	add([]byte("MTrk\x00\x00\x00\x04\x00\xFF\x2F\x00"))
	add([]byte("MThd\x00\x00\x00\x06\x00\x01\x00\x01\x03\xC0"))
	n0 := len(inner)
	for i := 0; i < n0; i++ {
		// one level more: the sequencer data / text whose content is inner[i]
		add(smf.MetaSequencerData(inner[i]))
		add(smf.MetaText(string(inner[i])))
	}
	for _, in := range inner {
		vars := [][]byte{in, append([]byte{0x00}, in...), append(append([]byte(nil), in...), 0x00), append(append([]byte(nil), in...), in...)}
		if len(in) > 1 {
			vars = append(vars, in[:len(in)-1], in[1:])
		}
		for _, v := range vars {
			judgePayload(v, "event bytes as content: "+engine.Hex(v[:min(len(v), 24)]))
			ctx.Add("nested_contents", 1)
		}
	}
}

// huge: lengths on both sides of every size at which the length field grows
// (2^14, 2^21) and of 2^24, one text kind and sequencer data, one pattern.
func huge() {
	for _, n := range []int{16383, 16384, 2097151, 2097152, 2097153, 16777215, 16777216, 16777217} {
		p := content(n, 1)
		for _, tc := range textCtors[:2] {
			ctx.Eval()
			var m smf.Message
			var got string
			var ok bool
			c := engine.Catch(func() { m = tc.mk(string(p)); ok = tc.get(m, &got) })
			if c.Panicked {
				report(c.Sig+":"+tc.name+":huge", tc.name, n, m[:min(len(m), 16)], "panicked: "+c.Value)
				continue
			}
			if !wellFormed(tc.name, n, m, tc.typ, p) {
				continue
			}
			if !ok || got != string(p) {
				report("accessor:"+tc.name+":huge", tc.name, n, m[:16], fmt.Sprintf("accessor returns ok=%v and %d bytes for a text of %d bytes", ok, len(got), n))
			}
			ctx.NontrivialN(1)
		}
		ctx.Eval()
		var m smf.Message
		var got []byte
		var ok bool
		c := engine.Catch(func() { m = smf.MetaSequencerData(p); ok = m.GetMetaSeqData(&got) })
		if c.Panicked {
			report(c.Sig+":MetaSequencerData:huge", "MetaSequencerData", n, m[:min(len(m), 16)], "panicked: "+c.Value)
			continue
		}
		if wellFormed("MetaSequencerData", n, m, 0x7F, p) && (!ok || !bytes.Equal(got, p)) {
			report("accessor:MetaSequencerData:huge", "MetaSequencerData", n, m[:16], fmt.Sprintf("GetMetaSeqData returns ok=%v and %d bytes for %d bytes of data", ok, len(got), n))
		}
	}
}

// reuse: the same destination variable across several accessor calls (long,
// short, medium, longer, empty-ish ...): each call must hand back its own data.
func reuse() {
	lens := []int{300, 5, 200, 1, 128, 0, 127, 16384, 2, 20000, 0, 3, 129}
	var dst []byte
	var txt string
	for round := 0; round < 2; round++ {
		for _, n := range lens {
			p := content(n, 2+round)
			ctx.Eval()
			m := smf.MetaSequencerData(p)
			if n > 0 && (!m.GetMetaSeqData(&dst) || !bytes.Equal(dst, p)) {
				report("accessor:MetaSequencerData:destination-reused", "MetaSequencerData", n, m, fmt.Sprintf("with a destination that held an earlier result, %d bytes came back for %d", len(dst), n))
				return
			}
			t := smf.MetaText(string(p))
			if !t.GetMetaText(&txt) || txt != string(p) {
				report("accessor:MetaText:destination-reused", "MetaText", n, t, fmt.Sprintf("with a destination that held an earlier result, %d bytes came back for %d", len(txt), n))
				return
			}
			ctx.NontrivialN(1)
		}
	}
	// the data handed out must not change when the next message is decoded
	a := smf.MetaSequencerData(content(50, 2))
	b := smf.MetaSequencerData(content(50, 3))
	var da, db []byte
	a.GetMetaSeqData(&da)
	keep := append([]byte(nil), da...)
	b.GetMetaSeqData(&db)
	if !bytes.Equal(da, keep) {
		report("accessor:MetaSequencerData:result-overwritten", "MetaSequencerData", 50, a, "the data returned for one message changed when another message was decoded")
	}
}

func numeric() {
	for v := 0; v < 256; v++ {
		ctx.Eval()
		m := smf.MetaChannel(uint8(v))
		var g uint8
		if wellFormed("MetaChannel", v, m, 0x20, []byte{byte(v)}) && (!m.GetMetaChannel(&g) || int(g) != v) {
			report("accessor:MetaChannel", "MetaChannel", v, m, fmt.Sprintf("got %d", g))
		}
		m = smf.MetaPort(uint8(v))
		if wellFormed("MetaPort", v, m, 0x21, []byte{byte(v)}) && (!m.GetMetaPort(&g) || int(g) != v) {
			report("accessor:MetaPort", "MetaPort", v, m, fmt.Sprintf("got %d", g))
		}
	}
	for v := 0; v < 65536; v++ {
		ctx.Eval()
		m := smf.MetaSequenceNo(uint16(v))
		var g uint16
		if wellFormed("MetaSequenceNo", v, m, 0x00, []byte{byte(v >> 8), byte(v)}) && (!m.GetMetaSeqNumber(&g) || int(g) != v) {
			report("accessor:MetaSequenceNo", "MetaSequenceNo", v, m, fmt.Sprintf("got %d", g))
		}
	}
	// SMPTE offset: each field over 0..255, the others at two base values
	for _, base := range [][5]int{{0, 0, 0, 0, 0}, {23, 59, 58, 29, 99}} {
		for f := 0; f < 5; f++ {
			for v := 0; v < 256; v++ {
				a := base
				a[f] = v
				ctx.Eval()
				m := smf.MetaSMPTE(byte(a[0]), byte(a[1]), byte(a[2]), byte(a[3]), byte(a[4]))
				var g [5]uint8
				ok := m.GetMetaSMPTEOffsetMsg(&g[0], &g[1], &g[2], &g[3], &g[4])
				if wellFormed("MetaSMPTE", a, m, 0x54, []byte{byte(a[0]), byte(a[1]), byte(a[2]), byte(a[3]), byte(a[4])}) {
					if !ok || int(g[0]) != a[0] || int(g[1]) != a[1] || int(g[2]) != a[2] || int(g[3]) != a[3] || int(g[4]) != a[4] {
						report("accessor:MetaSMPTE", "MetaSMPTE", a, m, fmt.Sprintf("got %v", g))
					}
				}
			}
		}
	}
}

// smpteProduct: the five arguments of the SMPTE offset together (a slip keyed
// on a combination - rate bits of the hour with a particular minute, second
// and frame - escapes the one-field sweeps): hours 0..127 (thorough 0..255) x
// minutes, seconds 0..60 and 255 x frames 0..30 and 255 x fractions.
func smpteProduct(part, parts int) {
	hours := 128
	fr := []int{0, 1, 50, 99, 100, 255}
	if ctx.Thorough() {
		hours = 256
		fr = nil
		for i := 0; i <= 100; i++ {
			fr = append(fr, i)
		}
		fr = append(fr, 127, 128, 255)
	}
	small := func(n int) []int {
		var l []int
		for i := 0; i <= n; i++ {
			l = append(l, i)
		}
		return append(l, 255)
	}
	mins, secs, frames := small(60), small(60), small(30)
	var n int64
	for h := part; h < hours; h += parts {
		for _, mi := range mins {
			for _, se := range secs {
				for _, f := range frames {
					for _, ff := range fr {
						n++
						ctx.Eval()
						m := smf.MetaSMPTE(byte(h), byte(mi), byte(se), byte(f), byte(ff))
						var g [5]uint8
						ok := m.GetMetaSMPTEOffsetMsg(&g[0], &g[1], &g[2], &g[3], &g[4])
						if ok && len(m) == 8 && m[0] == 0xFF && m[1] == 0x54 && m[2] == 5 && m[3] == byte(h) && m[4] == byte(mi) && m[5] == byte(se) && m[6] == byte(f) && m[7] == byte(ff) &&
							g == [5]uint8{byte(h), byte(mi), byte(se), byte(f), byte(ff)} {
							continue
						}
						a := [5]int{h, mi, se, f, ff}
						if wellFormed("MetaSMPTE", a, m, 0x54, []byte{byte(h), byte(mi), byte(se), byte(f), byte(ff)}) {
							report("accessor:MetaSMPTE", "MetaSMPTE", a, m, fmt.Sprintf("got %v (accepted: %v)", g, ok))
						}
					}
				}
			}
		}
	}
	ctx.Add("smpte_tuples", n)
}

// collisions: pairs of different texts of one length that a summary cannot
// tell apart - equal under the usual 32-bit string hashes (FNV-1 and FNV-1a,
// CRC-32 in two polynomials, Adler-32, djb2, sdbm, the multiply-by-31 hash),
// found here by a birthday search over lower-case texts of 8 and of 16 bytes -
// built and read one after the other in both orders, with every text kind and
// as sequencer data (an accessor or constructor that caches by such a sum
// hands out the other text).
func collisions() {
	type h32 func([]byte) uint32
	poly := func(mul uint32, init uint32) h32 {
		return func(b []byte) uint32 {
			h := init
			for _, c := range b {
				h = h*mul + uint32(c)
			}
			return h
		}
	}
	hashes := map[string]h32{
		"fnv1a":          func(b []byte) uint32 { h := fnv.New32a(); h.Write(b); return h.Sum32() },
		"fnv1":           func(b []byte) uint32 { h := fnv.New32(); h.Write(b); return h.Sum32() },
		"crc32":          crc32.ChecksumIEEE,
		"crc32c":         func(b []byte) uint32 { return crc32.Checksum(b, crc32.MakeTable(crc32.Castagnoli)) },
		"adler32":        adler32.Checksum,
		"djb2":           poly(33, 5381),
		"sdbm":           poly(65599, 0),
		"java":           poly(31, 0),
		"fnv1a64-folded": func(b []byte) uint32 { h := fnv.New64a(); h.Write(b); v := h.Sum64(); return uint32(v) ^ uint32(v>>32) },
	}
	var names []string
	for n := range hashes {
		names = append(names, n)
	}
	sort.Strings(names)
	for _, name := range names {
		h := hashes[name]
		for _, ln := range []int{8, 16} {
			seen := map[uint32][]byte{}
			found := 0
			buf := make([]byte, ln)
			for i := 0; i < 1000000 && found < 2; i++ {
				x := uint64(i)*0x9E3779B97F4A7C15 + 0x1234567
				for k := range buf {
					// splitmix64 step per character
					x += 0x9E3779B97F4A7C15
					z := x
					z = (z ^ (z >> 30)) * 0xBF58476D1CE4E5B9
					z = (z ^ (z >> 27)) * 0x94D049BB133111EB
					z ^= z >> 31
					buf[k] = 'a' + byte(z%26)
				}
				v := h(buf)
				if prev, ok := seen[v]; ok && string(prev) != string(buf) {
					found++
					a, b := prev, append([]byte(nil), buf...)
					for _, order := range [][2][]byte{{a, b}, {b, a}} {
						judgePayload(order[0], "texts equal under "+name+": "+string(order[0]))
						judgePayload(order[1], "texts equal under "+name+": "+string(order[1])+" (read after "+string(order[0])+")")
					}
					ctx.Add("collision_pairs", 1)
					continue
				}
				seen[v] = append([]byte(nil), buf...)
			}
			if found == 0 && name != "adler32" {
				ctx.Guard(false, "no %s collision among a million texts of %d bytes", name, ln)
			}
		}
	}
}

func timeSigs(part, parts int) {
	cl := []int{1, 8, 24, 255}
	if ctx.Thorough() {
		cl = nil
		for i := 1; i <= 255; i++ {
			cl = append(cl, i)
		}
	}
	for num := part; num < 256; num += parts {
		for e := 0; e <= 7; e++ {
			den := 1 << e
			for _, c1 := range cl {
				for _, c2 := range cl {
					ctx.Eval()
					m := smf.MetaTimeSig(uint8(num), uint8(den), uint8(c1), uint8(c2))
					var g [4]uint8
					ok := m.GetMetaTimeSig(&g[0], &g[1], &g[2], &g[3])
					if !wellFormed("MetaTimeSig", []int{num, den, c1, c2}, m, 0x58, []byte{byte(num), byte(e), byte(c1), byte(c2)}) {
						continue
					}
					if !ok || int(g[0]) != num || int(g[1]) != den || int(g[2]) != c1 || int(g[3]) != c2 {
						report("accessor:MetaTimeSig", "MetaTimeSig", []int{num, den, c1, c2}, m, fmt.Sprintf("got %v ok=%v", g, ok))
					}
				}
			}
			// one or both clock arguments 0: each zero stands for 8 on its own
			for _, cc := range [][2]int{{0, 0}, {0, 32}, {24, 0}, {0, 8}, {8, 0}, {0, 255}, {1, 0}} {
				ctx.Eval()
				m := smf.MetaTimeSig(uint8(num), uint8(den), uint8(cc[0]), uint8(cc[1]))
				w1, w2 := cc[0], cc[1]
				if w1 == 0 {
					w1 = 8
				}
				if w2 == 0 {
					w2 = 8
				}
				var g [4]uint8
				ok := m.GetMetaTimeSig(&g[0], &g[1], &g[2], &g[3])
				if !wellFormed("MetaTimeSig", []int{num, den, cc[0], cc[1]}, m, 0x58, []byte{byte(num), byte(e), byte(w1), byte(w2)}) {
					continue
				}
				if !ok || int(g[0]) != num || int(g[1]) != den || int(g[2]) != w1 || int(g[3]) != w2 {
					report("accessor:MetaTimeSig:zero-clock-argument", "MetaTimeSig", []int{num, den, cc[0], cc[1]}, m, fmt.Sprintf("got %v ok=%v", g, ok))
				}
			}
			// MetaMeter (clock fields default to 8)
			ctx.Eval()
			m := smf.MetaMeter(uint8(num), uint8(den))
			var a, b uint8
			if !m.GetMetaMeter(&a, &b) || int(a) != num || int(b) != den {
				report("accessor:MetaMeter", "MetaMeter", []int{num, den}, m, fmt.Sprintf("got %d/%d", a, b))
			}
		}
	}
}

type namedKey struct {
	name  string
	mk    func() smf.Message
	tonic int
	major bool
	num   int
	flat  bool
}

var named = []namedKey{
	{"CMaj", smf.CMaj, 0, true, 0, false}, {"GMaj", smf.GMaj, 7, true, 1, false}, {"DMaj", smf.DMaj, 2, true, 2, false},
	{"AMaj", smf.AMaj, 9, true, 3, false}, {"EMaj", smf.EMaj, 4, true, 4, false}, {"BMaj", smf.BMaj, 11, true, 5, false},
	{"FsharpMaj", smf.FsharpMaj, 6, true, 6, false}, {"FMaj", smf.FMaj, 5, true, 1, true}, {"BbMaj", smf.BbMaj, 10, true, 2, true},
	{"EbMaj", smf.EbMaj, 3, true, 3, true}, {"AbMaj", smf.AbMaj, 8, true, 4, true}, {"DbMaj", smf.DbMaj, 1, true, 5, true},
	{"GbMaj", smf.GbMaj, 6, true, 6, true},
	{"AMin", smf.AMin, 9, false, 0, false}, {"EMin", smf.EMin, 4, false, 1, false}, {"BMin", smf.BMin, 11, false, 2, false},
	{"FsharpMin", smf.FsharpMin, 6, false, 3, false}, {"CsharpMin", smf.CsharpMin, 1, false, 4, false}, {"GsharpMin", smf.GsharpMin, 8, false, 5, false},
	{"DsharpMin", smf.DsharpMin, 3, false, 6, false}, {"DMin", smf.DMin, 2, false, 1, true}, {"GMin", smf.GMin, 7, false, 2, true},
	{"CMin", smf.CMin, 0, false, 3, true}, {"FMin", smf.FMin, 5, false, 4, true}, {"BbMin", smf.BbMin, 10, false, 5, true},
	{"EbMin", smf.EbMin, 3, false, 6, true},
}

func circle(num int, flat, major bool) int {
	t := 7 * num
	if flat {
		t = -7 * num
	}
	if !major {
		t -= 3
	}
	return ((t % 12) + 12) % 12
}

func keys() {
	for num := 0; num <= 7; num++ {
		for _, flat := range []bool{false, true} {
			for _, major := range []bool{true, false} {
				ctx.Eval()
				tonic := circle(num, flat, major)
				m := smf.MetaKey(uint8(tonic), major, uint8(num), flat)
				sf := num
				if flat {
					sf = -num
				}
				mi := byte(0)
				if !major {
					mi = 1
				}
				args := fmt.Sprintf("num=%d flat=%v major=%v", num, flat, major)
				if !wellFormed("MetaKey", args, m, 0x59, []byte{byte(int8(sf)), mi}) {
					continue
				}
				var k, n uint8
				var isMaj, isFlat bool
				ok := m.GetMetaKeySig(&k, &n, &isMaj, &isFlat)
				if !ok || int(k) != tonic || int(n) != num || isMaj != major || (num > 0 && isFlat != flat) {
					report("accessor:MetaKey", "MetaKey", args, m, fmt.Sprintf("got tonic=%d num=%d major=%v flat=%v ok=%v, circle of fifths gives tonic %d", k, n, isMaj, isFlat, ok, tonic))
				}
				// the same through the other accessor (the key as a value)
				var kv smf.Key
				ok2 := m.GetMetaKey(&kv)
				if !ok2 || int(kv.Key) != tonic || int(kv.Num) != num || kv.IsMajor != major || (num > 0 && kv.IsFlat != flat) {
					report("accessor:MetaKey:GetMetaKey", "MetaKey", args, m, fmt.Sprintf("GetMetaKey gives %+v (ok=%v), built with tonic %d num %d major %v flat %v", kv, ok2, tonic, num, major, flat))
				}
				ctx.NontrivialN(1)
			}
		}
	}
	for _, nk := range named {
		ctx.Eval()
		m := nk.mk()
		var k smf.Key
		if !m.GetMetaKey(&k) || int(k.Key) != nk.tonic || k.IsMajor != nk.major || int(k.Num) != nk.num || (nk.num > 0 && k.IsFlat != nk.flat) {
			report("accessor:named-key:"+nk.name, nk.name, nil, m, fmt.Sprintf("got %+v", k))
		}
		if circle(nk.num, nk.flat, nk.major) != nk.tonic {
			ctx.Guard(false, "harness key table inconsistent for %s", nk.name)
		}
	}
	ctx.Add("named_keys", int64(len(named)))
}

func tempos(part, parts int) {
	for u := 1 + part; u <= 0xFFFFFF; u += parts {
		bpm := 6e7 / float64(u)
		ctx.Eval()
		m := smf.MetaTempo(bpm)
		if len(m) != 6 || m[0] != 0xFF || m[1] != 0x51 || m[2] != 3 {
			report("layout:MetaTempo", "MetaTempo", bpm, m, "tempo event is not FF 51 03 + 3 bytes")
			continue
		}
		p := int(m[3])<<16 | int(m[4])<<8 | int(m[5])
		if p-u > 1 || u-p > 1 {
			report("value:MetaTempo", "MetaTempo", bpm, m, fmt.Sprintf("payload %d for %d microseconds per quarter", p, u))
			continue
		}
		var g float64
		if !m.GetMetaTempo(&g) || math.Abs(g-6e7/float64(p)) > 1e-9*g {
			report("accessor:MetaTempo", "MetaTempo", bpm, m, fmt.Sprintf("GetMetaTempo gives %v, payload means %v", g, 6e7/float64(p)))
		}
	}
}

func main() {
	ctx = engine.Start("C15", "exploration")
	disturb.Install(ctx)
	if ctx.ReplayPath != "" {
		m := ctx.LoadReplay()
		if cp.Replay(ctx, m, "meta", concCases()) {
			ctx.Finish("replay")
		}
		fmt.Println("meta case:", m["constructor"], m["args"], "-", m["what"], "(pure function of its arguments; re-run ./run C15 quick)")
		return
	}
	ctx.Assume("a zero time-signature clock argument is the documented shorthand for 8, each argument on its own; flat/sharp flag not judged for 0 accidentals; tempo payload within 1 of the 24-bit value")
	ctx.Jobs("texts", 16, func(j int) { texts(j, 16) })
	ctx.Jobs("numeric", 1, func(int) { numeric(); reuse(); nested() })
	ctx.Jobs("huge", 1, func(int) { huge(); collisions() })
	ctx.Jobs("timesig", 16, func(j int) { timeSigs(j, 16) })
	ctx.Jobs("smpte", 16, func(j int) { smpteProduct(j, 16) })
	ctx.Jobs("keys", 1, func(int) { keys(); nilMasks(); ownership() })
	ctx.Jobs("tempo", 16, func(j int) { tempos(j, 16) })
	if !ctx.IsChild() {
		ctx.RacePairs("meta")
	}
	ctx.Jobs("concurrent", 1, func(int) { cp.Litmus(ctx); cp.Check(ctx, "meta", concCases()) })
	ctx.Sample(map[string]interface{}{"constructor": "MetaSequencerData(200 bytes)", "expect": "FF 7F 81 48 + data; GetMetaSeqData returns the 200 bytes"})
	ctx.Sample(map[string]interface{}{"constructor": "MetaTempo(6e7/500001)", "expect": "payload 07 A1 21 (+-1)"})
	ctx.Guard(ctx.Evals.Load() > 16_000_000, "tempo sweep incomplete")
	ctx.Finish("text constructors x lengths (quick 0..300, 16383, 16384, 20000; thorough 0..20000) x 4 content patterns; sequencer data likewise; all 256 channels/ports, all 65536 sequence numbers, SMPTE offset fields, time signatures 256 numerators x 8 denominators x clock values, all (0..7, flat|sharp, major|minor) keys against an independent circle of fifths, 26 named keys, every 24-bit tempo; non-trivial = text cases whose length field needs two or more bytes, and key tuples")
}
