package main

import (
	"fmt"

	"gitlab.com/gomidi/midi/v2/internal/verifh/engine"

	"gitlab.com/gomidi/midi/v2/smf"
)

// nilMasks: every accessor with several out-parameters is called with every
// combination of nil and non-nil destinations; each destination that is given
// must receive the same value as in the all-given call, and the verdict must
// be the same.
func nilMasks() {
	pick8 := func(mask, i int, p *uint8) *uint8 {
		if mask&(1<<i) != 0 {
			return p
		}
		return nil
	}
	pickB := func(mask, i int, p *bool) *bool {
		if mask&(1<<i) != 0 {
			return p
		}
		return nil
	}
	// key signatures: all keys x 16 masks
	for num := 0; num <= 7; num++ {
		for _, flat := range []bool{false, true} {
			for _, major := range []bool{true, false} {
				tonic := circle(num, flat, major)
				m := smf.MetaKey(uint8(tonic), major, uint8(num), flat)
				var k0, n0 uint8
				var mj0, fl0 bool
				ok0 := m.GetMetaKeySig(&k0, &n0, &mj0, &fl0)
				for mask := 0; mask < 16; mask++ {
					ctx.Eval()
					k, n, mj, fl := uint8(0xEE), uint8(0xEE), !mj0, !fl0
					ok := m.GetMetaKeySig(pick8(mask, 0, &k), pick8(mask, 1, &n), pickB(mask, 2, &mj), pickB(mask, 3, &fl))
					bad := ok != ok0
					bad = bad || (mask&1 != 0 && k != k0) || (mask&2 != 0 && n != n0) || (mask&4 != 0 && mj != mj0) || (mask&8 != 0 && fl != fl0)
					if bad {
						report("accessor:MetaKey:nil-destinations", "MetaKey", fmt.Sprintf("num=%d flat=%v major=%v given=%04b", num, flat, major, mask), m,
							fmt.Sprintf("all given: tonic=%d num=%d major=%v flat=%v ok=%v; with only the destinations of mask %04b (key,num,major,flat): tonic=%d num=%d major=%v flat=%v ok=%v", k0, n0, mj0, fl0, ok0, mask, k, n, mj, fl, ok))
					}
					ctx.NontrivialN(1)
				}
			}
		}
	}
	// time signatures: numerators x denominators x 16 masks; meter x 4 masks
	for num := 0; num < 256; num++ {
		for e := 0; e <= 7; e++ {
			m := smf.MetaTimeSig(uint8(num), uint8(1<<e), uint8(1+num%200), uint8(1+e*30))
			var g0 [4]uint8
			ok0 := m.GetMetaTimeSig(&g0[0], &g0[1], &g0[2], &g0[3])
			for mask := 0; mask < 16; mask++ {
				ctx.Eval()
				g := [4]uint8{0xEE, 0xEE, 0xEE, 0xEE}
				ok := m.GetMetaTimeSig(pick8(mask, 0, &g[0]), pick8(mask, 1, &g[1]), pick8(mask, 2, &g[2]), pick8(mask, 3, &g[3]))
				bad := ok != ok0
				for i := 0; i < 4; i++ {
					bad = bad || (mask&(1<<i) != 0 && g[i] != g0[i])
				}
				if bad {
					report("accessor:MetaTimeSig:nil-destinations", "MetaTimeSig", fmt.Sprintf("%d/%d given=%04b", num, 1<<e, mask), m, fmt.Sprintf("all given %v ok=%v; mask %04b: %v ok=%v", g0, ok0, mask, g, ok))
				}
			}
			var a0, b0 uint8
			okm := m.GetMetaMeter(&a0, &b0)
			for mask := 0; mask < 4; mask++ {
				ctx.Eval()
				a, b := uint8(0xEE), uint8(0xEE)
				ok := m.GetMetaMeter(pick8(mask, 0, &a), pick8(mask, 1, &b))
				if ok != okm || (mask&1 != 0 && a != a0) || (mask&2 != 0 && b != b0) {
					report("accessor:MetaMeter:nil-destinations", "MetaMeter", fmt.Sprintf("%d/%d given=%02b", num, 1<<e, mask), m, fmt.Sprintf("all given %d/%d ok=%v; mask %02b: %d/%d ok=%v", a0, b0, okm, mask, a, b, ok))
				}
			}
		}
	}
	// SMPTE offset: 32 masks
	for _, a := range [][5]byte{{1, 2, 3, 4, 5}, {23, 59, 58, 29, 99}, {0, 0, 0, 0, 0}, {255, 254, 253, 252, 251}} {
		m := smf.MetaSMPTE(a[0], a[1], a[2], a[3], a[4])
		var g0 [5]uint8
		ok0 := m.GetMetaSMPTEOffsetMsg(&g0[0], &g0[1], &g0[2], &g0[3], &g0[4])
		for mask := 0; mask < 32; mask++ {
			ctx.Eval()
			g := [5]uint8{0xEE, 0xEE, 0xEE, 0xEE, 0xEE}
			ok := m.GetMetaSMPTEOffsetMsg(pick8(mask, 0, &g[0]), pick8(mask, 1, &g[1]), pick8(mask, 2, &g[2]), pick8(mask, 3, &g[3]), pick8(mask, 4, &g[4]))
			bad := ok != ok0
			for i := 0; i < 5; i++ {
				bad = bad || (mask&(1<<i) != 0 && g[i] != g0[i])
			}
			if bad {
				report("accessor:MetaSMPTE:nil-destinations", "MetaSMPTE", fmt.Sprintf("%v given=%05b", a, mask), m, fmt.Sprintf("all given %v ok=%v; mask %05b: %v ok=%v", g0, ok0, mask, g, ok))
			}
		}
	}
	// single-destination accessors with nil
	for _, c := range []struct {
		name string
		m    smf.Message
		f    func(m smf.Message) (okNil, okGiven bool)
	}{
		{"MetaTempo", smf.MetaTempo(133), func(m smf.Message) (bool, bool) { var g float64; return m.GetMetaTempo(nil), m.GetMetaTempo(&g) }},
		{"MetaText", smf.MetaText("abc"), func(m smf.Message) (bool, bool) { var g string; return m.GetMetaText(nil), m.GetMetaText(&g) }},
		{"MetaLyric", smf.MetaLyric("abc"), func(m smf.Message) (bool, bool) { var g string; return m.GetMetaLyric(nil), m.GetMetaLyric(&g) }},
		{"MetaChannel", smf.MetaChannel(3), func(m smf.Message) (bool, bool) { var g uint8; return m.GetMetaChannel(nil), m.GetMetaChannel(&g) }},
		{"MetaPort", smf.MetaPort(3), func(m smf.Message) (bool, bool) { var g uint8; return m.GetMetaPort(nil), m.GetMetaPort(&g) }},
		{"MetaSequenceNo", smf.MetaSequenceNo(300), func(m smf.Message) (bool, bool) { var g uint16; return m.GetMetaSeqNumber(nil), m.GetMetaSeqNumber(&g) }},
		{"MetaSequencerData", smf.MetaSequencerData([]byte{1, 2, 3}), func(m smf.Message) (bool, bool) { var g []byte; return m.GetMetaSeqData(nil), m.GetMetaSeqData(&g) }},
		{"MetaKey", smf.DMaj(), func(m smf.Message) (bool, bool) { var g smf.Key; return m.GetMetaKey(nil), m.GetMetaKey(&g) }},
	} {
		ctx.Eval()
		var a, b bool
		cc := catch(func() { a, b = c.f(c.m) })
		if cc != "" {
			report("accessor:"+c.name+":nil-destination:panic", c.name, nil, c.m, "accessor panics with a nil destination: "+cc)
		} else if a != b {
			report("accessor:"+c.name+":nil-destination", c.name, nil, c.m, fmt.Sprintf("verdict %v with a nil destination, %v with one", a, b))
		}
	}
}

// ownership: results belong to the caller (no shared tables, no caches), and
// slices handed in stay the caller's (nothing is appended into their capacity).
func ownership() {
	type mk struct {
		name string
		f    func() []byte
	}
	var mks []mk
	for num := 0; num <= 7; num++ {
		for _, flat := range []bool{false, true} {
			for _, major := range []bool{true, false} {
				num, flat, major := num, flat, major
				mks = append(mks, mk{fmt.Sprintf("MetaKey(num=%d flat=%v major=%v)", num, flat, major), func() []byte {
					return smf.MetaKey(uint8(circle(num, flat, major)), major, uint8(num), flat)
				}})
			}
		}
	}
	for _, nk := range named {
		nk := nk
		mks = append(mks, mk{"named-key(" + nk.name + ")", func() []byte { return nk.mk() }})
	}
	mks = append(mks,
		mk{"MetaTempo(120)", func() []byte { return smf.MetaTempo(120) }},
		mk{"MetaMeter(4,4)", func() []byte { return smf.MetaMeter(4, 4) }},
		mk{"MetaTimeSig(4,4,24,8)", func() []byte { return smf.MetaTimeSig(4, 4, 24, 8) }},
		mk{"MetaChannel(0)", func() []byte { return smf.MetaChannel(0) }},
		mk{"MetaPort(0)", func() []byte { return smf.MetaPort(0) }},
		mk{"MetaSequenceNo(0)", func() []byte { return smf.MetaSequenceNo(0) }},
		mk{"MetaSMPTE(0,0,0,0,0)", func() []byte { return smf.MetaSMPTE(0, 0, 0, 0, 0) }},
		mk{"MetaText(\"\")", func() []byte { return smf.MetaText("") }},
		mk{"MetaText(\"a\")", func() []byte { return smf.MetaText("a") }},
		mk{"MetaLyric(\"la\")", func() []byte { return smf.MetaLyric("la") }},
		mk{"MetaSequencerData(1 byte)", func() []byte { return smf.MetaSequencerData([]byte{7}) }},
		mk{"EOT", func() []byte { return append([]byte(nil), smf.EOT...) }},
	)
	for _, m := range mks {
		ctx.Eval()
		if d := engine.Owned(m.f); d != "" {
			report("constructor:result-not-owned:"+fn(m.name), m.name, nil, m.f(), d)
		}
		ctx.NontrivialN(1)
	}
	for _, n := range []int{1, 5, 127, 128, 300} {
		ctx.Eval()
		arg, touched := engine.Spare(content(n, 2), 8)
		m := smf.MetaSequencerData(arg)
		if t := touched(); t != "" {
			report("constructor:writes-into-argument:MetaSequencerData", "MetaSequencerData", n, m, t)
		}
		var back []byte
		m.GetMetaSeqData(&back)
		for i := range back {
			back[i] ^= 0xFF // what the accessor hands out must not be the message's own bytes... or if it is, the message is the caller's anyway
		}
	}
}

func fn(name string) string {
	for i := 0; i < len(name); i++ {
		if name[i] == '(' {
			return name[:i]
		}
	}
	return name
}

func catch(f func()) (p string) {
	defer func() {
		if r := recover(); r != nil {
			p = fmt.Sprint(r)
		}
	}()
	f()
	return ""
}
