// C16 — converting a format-0 file to format 1 preserves every event and its time.
//
// Explicit-state search over single-track files built through the API (shared
// with C01) plus an enumeration of dense files (many events per tick); every
// reached value is converted with ConvertToSMF1 and compared with the oracle.
package main

import (
	"bytes"
	"fmt"

	"gitlab.com/gomidi/midi/v2"
	cc "gitlab.com/gomidi/midi/v2/internal/verifh/conccases"
	cp "gitlab.com/gomidi/midi/v2/internal/verifh/concpairs"
	"gitlab.com/gomidi/midi/v2/internal/verifh/disturb"
	"gitlab.com/gomidi/midi/v2/internal/verifh/engine"
	"gitlab.com/gomidi/midi/v2/internal/verifh/refsmf"
	sp "gitlab.com/gomidi/midi/v2/internal/verifh/smfspace"
	"gitlab.com/gomidi/midi/v2/smf"
)

var ctx *engine.Ctx

type absEv struct {
	tick int64
	msg  []byte
}

func isChannel(m []byte) (bool, int) {
	if len(m) > 0 && m[0] >= 0x80 && m[0] <= 0xEF {
		return true, int(m[0] & 0x0F)
	}
	return false, 0
}

// oracle splits the source track as the property states.
func oracle(src []refsmf.Event) (meta []absEv, ch [16][]absEv, endTick int64, hadEOT bool) {
	var t int64
	for _, e := range src {
		t += int64(e.Delta)
		if refsmf.IsEOT(e.Msg) {
			hadEOT = true
			endTick = t
			continue
		}
		if ok, c := isChannel(e.Msg); ok {
			ch[c] = append(ch[c], absEv{t, e.Msg})
		} else {
			meta = append(meta, absEv{t, e.Msg})
		}
	}
	return
}

// representable reports whether every track of the expected result can be
// written at all: the gap between two consecutive events of a result track
// (and up to its end) must fit the format's 28-bit delta. A source whose
// conversion would need a longer delta is outside the domain (no valid
// format-1 file holds its content without filler events).
func representable(src []refsmf.Event) bool {
	meta, ch, end, had := oracle(src)
	last := int64(0)
	for _, e := range src {
		last += int64(e.Delta)
	}
	if !had {
		end = last
	}
	ok := func(evs []absEv, endAt int64) bool {
		var p int64
		for _, e := range evs {
			if e.tick-p > 0x0FFFFFFF {
				return false
			}
			p = e.tick
		}
		return endAt-p <= 0x0FFFFFFF
	}
	if !ok(meta, end) {
		return false
	}
	for c := range ch {
		if len(ch[c]) > 0 && !ok(ch[c], ch[c][len(ch[c])-1].tick) {
			return false
		}
	}
	return true
}

func toAbs(t smf.Track) (evs []absEv, eots int, lastIsEOT bool, eotTick int64) {
	var tick int64
	for i, e := range t {
		tick += int64(e.Delta)
		if refsmf.IsEOT(e.Message) {
			eots++
			lastIsEOT = i == len(t)-1
			eotTick = tick
			continue
		}
		evs = append(evs, absEv{tick, e.Message})
	}
	return
}

func cmp(want, got []absEv) string {
	if len(got) < len(want) {
		return "lost"
	}
	if len(got) > len(want) {
		return "duplicated"
	}
	for i := range want {
		if !bytes.Equal(want[i].msg, got[i].msg) {
			// same multiset?
			return "order-or-altered"
		}
		if want[i].tick != got[i].tick {
			return "tick"
		}
	}
	return ""
}

func convCheck(s *smf.SMF, src []refsmf.Event) (sig, what string) {
	wantMeta, wantCh, endTick, hadEOT := oracle(src)
	var dest smf.SMF
	before := sp.FromTrack(s.Tracks[0])
	fmtBefore := s.Format()
	c := engine.Catch(func() { dest = s.ConvertToSMF1() })
	if c.Panicked {
		return c.Sig, "ConvertToSMF1 panicked: " + c.Value
	}
	// the source must survive the conversion (it may be converted, written or read again)
	if len(s.Tracks) != 1 || refsmf.FirstDiff(before, sp.FromTrack(s.Tracks[0])) != "" || s.Format() != fmtBefore {
		return "convert:source-modified", "the source file was changed by converting it"
	}
	var dest2 smf.SMF
	c = engine.Catch(func() { dest2 = s.ConvertToSMF1() })
	if c.Panicked {
		return c.Sig + ":second-conversion", "converting the same file a second time panicked: " + c.Value
	}
	if len(dest2.Tracks) != len(dest.Tracks) {
		return "convert:second-conversion-differs", fmt.Sprintf("second conversion of the same file has %d tracks, the first %d", len(dest2.Tracks), len(dest.Tracks))
	}
	for i := range dest.Tracks {
		if refsmf.FirstDiff(sp.FromTrack(dest.Tracks[i]), sp.FromTrack(dest2.Tracks[i])) != "" {
			return "convert:second-conversion-differs", fmt.Sprintf("track %d differs between the first and the second conversion of the same file", i)
		}
	}
	if dest.Format() != 1 {
		return "convert:format", fmt.Sprintf("result has format %d", dest.Format())
	}
	if dest.TimeFormat != s.TimeFormat {
		return "convert:division", "time division changed"
	}
	used := 0
	for _, l := range wantCh {
		if len(l) > 0 {
			used++
		}
	}
	if len(dest.Tracks) != 1+used {
		return "convert:track-count", fmt.Sprintf("%d tracks, want %d", len(dest.Tracks), 1+used)
	}
	dense := ""
	if len(src) > 12 {
		dense = ":dense"
	}
	for i, t := range dest.Tracks {
		got, eots, lastEOT, eotTick := toAbs(t)
		if eots != 1 || !lastEOT {
			return "convert:termination" + dense, fmt.Sprintf("track %d has %d end-of-track events (last=%v)", i, eots, lastEOT)
		}
		_ = eotTick
		if i == 0 {
			if d := cmp(wantMeta, got); d != "" {
				return "convert:first-track:" + d + dense, "non-channel messages on the first track: " + d
			}
			if hadEOT && eotTick != endTick {
				return "convert:first-track:end-tick" + dense, fmt.Sprintf("first track ends at tick %d, source ended at %d", eotTick, endTick)
			}
		}
	}
	ti := 1
	for c := 0; c < 16; c++ {
		if len(wantCh[c]) == 0 {
			continue
		}
		got, _, _, _ := toAbs(dest.Tracks[ti])
		if d := cmp(wantCh[c], got); d != "" {
			return "convert:channel-track:" + d + dense, fmt.Sprintf("track %d (channel %d): %s", ti, c, d)
		}
		ti++
	}
	// the result must be writable as a valid file
	var buf bytes.Buffer
	var werr error
	c = engine.Catch(func() { _, werr = dest.WriteTo(&buf) })
	if c.Panicked {
		return c.Sig + ":write", "writing the converted file panicked: " + c.Value
	}
	if werr != nil {
		return "convert:write-error", werr.Error()
	}
	if _, err := refsmf.Parse(buf.Bytes(), refsmf.Strict); err != nil {
		return "convert:strict" + dense, "converted file is not a valid SMF: " + err.Error()
	}
	if used >= 2 {
		ctx.Add("files_with_2plus_channels", 1)
	}
	return "", ""
}

func check(in *sp.Inst, hist []sp.Op, cfg sp.Cfg, p *sp.Plan) {
	src := in.M.Tracks[0]
	ctx.Add("files_converted", 1)
	sig, what := convCheck(in.S, src)
	if sig != "" && ctx.SigCount(sig) < 50 {
		ctx.Violation(sig, sp.HistoryDetail(cfg, p.AlName, hist, sp.Alphabet(p.AlName), what))
	}
}

// dense files: n events, kinds by pattern, deltas by pattern
var kinds = []func(i int) []byte{
	func(i int) []byte { return smf.MetaText(fmt.Sprintf("m%02d", i)) },
	func(i int) []byte { return midi.ControlChange(0, uint8(i), 1) },
	func(i int) []byte { return midi.ControlChange(3, uint8(i), 2) },
	func(i int) []byte { return midi.ControlChange(15, uint8(i), 3) },
	func(i int) []byte { return midi.SysEx([]byte{byte(i)}) },
}

func init() {
	// kinds 5..20: one controller message per channel 0..15
	for c := 0; c < 16; c++ {
		c := c
		kinds = append(kinds, func(i int) []byte { return midi.ControlChange(uint8(c), uint8(i%128), 9) })
	}
}

var kindPatterns = map[string]func(i int) int{
	"all-meta":     func(i int) int { return 0 },
	"all-ch0":      func(i int) int { return 1 },
	"meta-ch0":     func(i int) int { return i % 2 },
	"cycle5":       func(i int) int { return i % 5 },
	"ch15-ch3-ch0": func(i int) int { return 3 - i%3 },
	"meta-sysex":   func(i int) int { return (i % 2) * 4 },
	"16-channels":  func(i int) int { return 5 + (i*7)%16 },
	"ch0-ch1":      func(i int) int { return 5 + i%2 },
	"ch14-heavy-ch15": func(i int) int {
		if i%10 == 9 {
			return 5 + 15
		}
		return 5 + 14
	},
}

var deltaPatterns = map[string]func(i int) uint32{
	"one-tick": func(i int) uint32 { return 0 },
	"start-late": func(i int) uint32 {
		if i == 0 {
			return 7
		}
		return 0
	},
	"every-5th": func(i int) uint32 {
		if i%5 == 4 {
			return 1
		}
		return 0
	},
	"increasing": func(i int) uint32 { return 1 },
	// long deltas, every time: absolute ticks pass 2^32 after 17 / 33 events
	// (files in which a result track would need a delta beyond 28 bits are skipped)
	"longest-deltas":      func(i int) uint32 { return 0x0FFFFFFF },
	"half-longest-deltas": func(i int) uint32 { return 0x07FFFFFF },
	"two-clusters": func(i int) uint32 {
		if i == 15 {
			return 100
		}
		return 0
	},
}

func denseCase(n int, kp, dp string, closeIt bool, closeDelta uint32) (s *smf.SMF, src []refsmf.Event) {
	s = smf.New()
	var t smf.Track
	for i := 0; i < n; i++ {
		m := kinds[kindPatterns[kp](i)](i)
		d := deltaPatterns[dp](i)
		t.Add(d, m)
		src = append(src, refsmf.Event{Delta: d, Msg: m})
	}
	if closeIt {
		t.Close(closeDelta)
		src = append(src, refsmf.Event{Delta: closeDelta, Msg: refsmf.EOT})
	}
	s.Add(t)
	return
}

func dense() {
	var kps, dps []string
	for k := range kindPatterns {
		kps = append(kps, k)
	}
	for k := range deltaPatterns {
		dps = append(dps, k)
	}
	sortStrings(kps)
	sortStrings(dps)
	maxN := ctx.Pick(40, 120)
	var ns []int
	for n := 1; n <= maxN; n++ {
		ns = append(ns, n)
	}
	ns = append(ns, 128, 129, 130, 257, 300, 600) // more than 128 / 256 events on one channel
	for _, n := range ns {
		for _, kp := range kps {
			for _, dp := range dps {
				for _, cl := range []int{0, 1, 2} {
					s, src := denseCase(n, kp, dp, cl > 0, uint32(cl-1)*5)
					if !representable(src) {
						ctx.Add("dense_files_outside_domain_gap_beyond_28_bits", 1)
						continue
					}
					ctx.Eval()
					ctx.Add("dense_files", 1)
					sig, what := convCheck(s, src)
					if sig != "" && ctx.SigCount(sig) < 20 {
						ctx.Violation(sig, map[string]interface{}{"kind": "dense", "n": n, "kinds": kp, "deltas": dp, "close": cl, "what": what})
					}
					if n == 14 && kp == "cycle5" && dp == "every-5th" {
						ctx.Sample(map[string]interface{}{"dense": fmt.Sprintf("n=%d kinds=%s deltas=%s close=%d", n, kp, dp, cl)})
					}
				}
			}
		}
	}
}

// lookalikes: messages that are not channel messages but carry bytes that look
// like one (an escape wrapping a channel message, sysex and meta payloads full
// of status bytes, a meta type that looks like a status), between real channel
// messages: they belong on the first track, whatever they contain.
func lookalikes() {
	odd := [][]byte{
		{0xF7, 0x92, 0x3C, 0x40},                    // escape carrying a note-on for channel 2
		{0xF7, 0xC5, 0x01},                          // escape carrying a program change
		{0xF7, 0x3C, 0x40},                          // escape carrying data bytes
		{0xF0, 0x93, 0x3C, 0x40, 0xF7},              // sysex whose payload looks like a note-on
		{0xF0, 0xF7},                                // empty sysex
		smf.MetaText("\x91\x3C\x40"),                // text made of a note-on
		smf.MetaUndefined(0x11, []byte{0x95, 1, 2}), // unknown meta with a status-like payload
		smf.MetaSequencerData([]byte{0xB3, 7, 100}), // sequencer data that looks like a controller
		smf.MetaChannel(7), smf.MetaPort(3),
		// messages that end in the bytes of an end of track without being one
		smf.MetaSequencerData([]byte{0x01, 0xFF, 0x2F, 0x00}),
		smf.MetaText("x\xFF\x2F\x00"),
		{0xF0, 0x01, 0xFF, 0x2F, 0x00},
		{0xF7, 0xFF, 0x2F, 0x00},
	}
	for oi, om := range odd {
		for pos := 0; pos < 4; pos++ {
			for _, first := range []bool{false, true} {
				s := smf.New()
				var t smf.Track
				var src []refsmf.Event
				add := func(d uint32, m []byte) {
					t.Add(d, m)
					src = append(src, refsmf.Event{Delta: d, Msg: m})
				}
				chans := [][]byte{midi.NoteOn(2, 60, 100), midi.NoteOn(5, 61, 90), midi.NoteOff(2, 60), midi.ProgramChange(7, 1)}
				if first {
					add(0, smf.MetaText("t"))
				}
				for i, c := range chans {
					if i == pos {
						add(uint32(3*oi%5), om)
					}
					add(uint32(i), c)
				}
				t.Close(2)
				src = append(src, refsmf.Event{Delta: 2, Msg: refsmf.EOT})
				s.Add(t)
				ctx.Eval()
				ctx.Add("lookalike_files", 1)
				sig, what := convCheck(s, src)
				if sig != "" && ctx.SigCount(sig+":lookalike") < 10 {
					ctx.Violation(sig+":lookalike", map[string]interface{}{"kind": "lookalike", "message": engine.Hex(om), "position": pos, "meta_first": first, "what": what})
				}
			}
		}
	}
}

// statusSweep: one message of every channel status byte 80..EF (every kind on
// every channel), surrounded by meta events and by a message of a neighbouring
// channel: each lands on the track of its own channel.
func statusSweep() {
	for st := 0x80; st <= 0xEF; st++ {
		m := []byte{byte(st), 0x10, 0x20}
		if st >= 0xC0 && st <= 0xDF {
			m = m[:2]
		}
		other := []byte{0x90 | byte((st+1)&0x0F), 0x01, 0x02}
		s := smf.New()
		var t smf.Track
		var src []refsmf.Event
		add := func(d uint32, msg []byte) {
			t.Add(d, msg)
			src = append(src, refsmf.Event{Delta: d, Msg: msg})
		}
		add(0, smf.MetaText("a"))
		add(1, other)
		add(2, m)
		add(0, smf.MetaText("b"))
		add(3, m)
		t.Close(1)
		src = append(src, refsmf.Event{Delta: 1, Msg: refsmf.EOT})
		s.Add(t)
		ctx.Eval()
		ctx.Add("status_sweep_files", 1)
		sig, what := convCheck(s, src)
		if sig != "" && ctx.SigCount(sig+":status-sweep") < 10 {
			ctx.Violation(sig+":status-sweep", map[string]interface{}{"kind": "lookalike", "message": engine.Hex(m), "what": what})
		}
	}
}

func sortStrings(a []string) {
	for i := 1; i < len(a); i++ {
		for j := i; j > 0 && a[j] < a[j-1]; j-- {
			a[j], a[j-1] = a[j-1], a[j]
		}
	}
}

func main() {
	ctx = engine.Start("C16", "model_checking")
	disturb.Install(ctx)
	if ctx.ReplayPath != "" {
		if cp.Replay(ctx, ctx.LoadReplay(), "convert", cc.Convert()) {
			ctx.Finish("replay")
		}
		replay()
		return
	}
	ctx.Assume("oracle: first track = non-channel messages in source order at source ticks (ending where the source ended), one track per used channel in ascending order, each terminated once")
	var cfgs []sp.Cfg
	for _, tf := range []smf.TimeFormat{smf.MetricTicks(480), smf.SMPTE24(4)} {
		cfgs = append(cfgs, sp.Cfg{Ctor: 0, TF: tf})
	}
	plans := []sp.Plan{
		{Name: "conv-10-messages", Cfgs: cfgs, AlName: "c16", Deltas: []uint32{0, 1, 100}, CloseDeltas: []uint32{0, 3},
			Add2: true, MaxEvents: ctx.Pick(3, 4), MaxTracks: 1},
		{Name: "conv-tiny-deeper", Cfgs: cfgs[:1], AlName: "tiny", Deltas: []uint32{0, 1}, CloseDeltas: []uint32{0},
			MaxEvents: ctx.Pick(6, 7), MaxTracks: 1},
		// a single track under a format-2 header is a single-track file as well
		{Name: "conv-format-2-source", Cfgs: []sp.Cfg{{Ctor: 2, TF: smf.MetricTicks(480)}}, AlName: "tiny", Deltas: []uint32{0, 1}, CloseDeltas: []uint32{0},
			MaxEvents: ctx.Pick(3, 5), MaxTracks: 1},
	}
	type job struct {
		p   sp.Plan
		cfg sp.Cfg
		op  int
	}
	var jobs []job
	for _, p := range plans {
		for _, c := range p.Cfgs {
			for op := range p.Ops() {
				jobs = append(jobs, job{p, c, op})
			}
		}
	}
	ctx.Jobs("concurrent", 1, func(int) {
		cp.Litmus(ctx)
		cp.Check(ctx, "convert", cc.Convert())
	})
	ctx.Jobs("search", len(jobs), func(j int) { sp.RunPlanCfgShard(ctx, jobs[j].p, jobs[j].cfg, jobs[j].op, check) })
	ctx.Jobs("dense", 1, func(j int) { dense() })
	if !ctx.IsChild() {
		ctx.RacePairs("convert")
	}
	ctx.Jobs("lookalikes", 1, func(j int) { lookalikes(); statusSweep() })
	ctx.Set("traces_validated_against_impl", ctx.GetInt("transitions"))
	ctx.Set("max_depth", ctx.GetInt("max:depth"))
	ctx.NontrivialN(ctx.GetInt("files_with_2plus_channels"))
	ctx.Guard(ctx.GetInt("files_converted") > 1000, "too few files converted")
	ctx.Guard(ctx.GetInt("files_with_2plus_channels") > 100, "channel split never exercised")
	ctx.Finish("explicit-state BFS over single-track API histories, every reached file converted and compared with the split oracle; dense files (1..40/120 events, 6 kind patterns x 5 tick patterns x 3 closings); non-trivial = files whose events spread over at least two channels")
}

func replay() {
	m := ctx.LoadReplay()
	var sig, what string
	if m["kind"] == "lookalike" {
		lookalikes()
		statusSweep()
		ctx.Finish("replay")
	}
	if m["kind"] == "dense" {
		s, src := denseCase(int(m["n"].(float64)), m["kinds"].(string), m["deltas"].(string), m["close"].(float64) > 0, uint32(m["close"].(float64)-1)*5)
		sig, what = convCheck(s, src)
	} else {
		cfg, alName, ops := sp.ParseHistory(m)
		al := sp.Alphabet(alName)
		in := sp.Build(cfg, al, ops)
		fmt.Println("history:", sp.DescribeOps(ops, al))
		sig, what = convCheck(in.S, in.M.Tracks[0])
	}
	if sig == "" {
		fmt.Println("REPLAY: property holds for this case")
		return
	}
	fmt.Printf("REPLAY: violated: %s (%s)\n", sig, what)
	ctx.Violation(sig, m)
	ctx.Finish("replay")
}
