package main

import (
	"fmt"

	"gitlab.com/gomidi/midi/v2"
	"gitlab.com/gomidi/midi/v2/drivers"
	"gitlab.com/gomidi/midi/v2/drivers/testdrv"
	"gitlab.com/gomidi/midi/v2/internal/verifh/engine"
	"gitlab.com/gomidi/midi/v2/internal/verifh/livespace"
	"reflect"
	"strings"
)

// (a) test-driver life cycle: explicit-state search against the model of
// DESIGN.md appendix C.

type lcOp int

const (
	opInOpen lcOp = iota
	opOutOpen
	opSendNote
	opListen   // drivers.In.Listen on an open port
	opListenTo // midi.ListenTo (opens the port itself)
	opStop
	opSendRT
	opSendTo // midi.SendTo(out)(msg): opens the out port itself
	opInClose
	opOutClose
	opListenSysex // in.Listen with sysex enabled (second use of the port with another configuration)
	opSendSysex
	opStopAgain // the newest stop function a second time (defer stop() plus an explicit call)
	opStopOld   // the stop function of the listener before, once more, while nobody listens
	// a listener that calls its own stop function from inside the call-back,
	// on the first message it receives (listen until the awaited message)
	opListenSelfStop
	nLcOps
)

var lcNames = []string{"in.Open", "out.Open", "Send(note)", "in.Listen", "midi.ListenTo", "stop()", "Send(start)", "midi.SendTo(note)", "in.Close", "out.Close", "in.Listen(sysex)", "Send(sysex)", "stop() again", "older stop() again", "in.Listen(stops itself)"}

type lcModel struct {
	inOpen, outOpen bool
	listener        int  // 0 none, 1 active, 2 stopped
	gen             int  // id of the current listener
	sysex           bool // the current listener asked for sysex
	selfStop        bool // the current listener stops itself on its first message
}

type lcInst struct {
	drv   *testdrv.Driver
	in    drivers.In
	out   drivers.Out
	stops []func()
	got   map[int][][]byte // deliveries per listener id
	m     lcModel
}

func newLc() *lcInst {
	d := testdrv.New("lc")
	ins, _ := d.Ins()
	outs, _ := d.Outs()
	return &lcInst{drv: d, in: ins[0], out: outs[0], got: map[int][][]byte{}}
}

func (l *lcInst) enabled(op lcOp) bool {
	switch op {
	case opListen, opListenSysex, opListenSelfStop:
		return l.m.inOpen && l.m.listener != 1
	case opListenTo:
		return l.m.listener != 1
	case opStop:
		return l.m.listener != 0
	case opStopAgain:
		return l.m.listener == 2
	case opStopOld:
		return l.m.listener == 2 && len(l.stops) >= 2
	case opInClose:
		return l.m.listener != 1
	}
	return true
}

var note = []byte{0x92, 0x3C, 0x40}
var start = []byte{0xFA}
var sysexMsg = []byte{0xF0, 0x01, 0x02, 0xF7}

// apply executes op on the driver and the model and returns a violation text.
func (l *lcInst) apply(op lcOp) (sig, what string) {
	total := func() int {
		n := 0
		for _, g := range l.got {
			n += len(g)
		}
		return n
	}
	before := total()
	curBefore := len(l.got[l.m.gen])
	var err error
	expectDelivered := 0
	expectErr := error(nil)
	c := engine.Catch(func() {
		switch op {
		case opInOpen:
			err = l.in.Open()
			l.m.inOpen = true
		case opOutOpen:
			err = l.out.Open()
			l.m.outOpen = true
		case opInClose:
			err = l.in.Close()
			l.m.inOpen = false
		case opOutClose:
			err = l.out.Close()
			l.m.outOpen = false
		case opListen, opListenTo, opListenSysex, opListenSelfStop:
			l.m.gen++
			id := l.m.gen
			var stop func()
			l.m.sysex = op == opListenSysex
			l.m.selfStop = op == opListenSelfStop
			if op == opListenSelfStop {
				stop, err = l.in.Listen(func(b []byte, ts int32) {
					l.got[id] = append(l.got[id], append([]byte(nil), b...))
					if stop != nil {
						stop()
					}
				}, drivers.ListenConfig{})
			} else if op == opListen || op == opListenSysex {
				stop, err = l.in.Listen(func(b []byte, ts int32) { l.got[id] = append(l.got[id], append([]byte(nil), b...)) }, drivers.ListenConfig{SysEx: op == opListenSysex})
			} else {
				stop, err = midi.ListenTo(l.in, func(m midi.Message, ts int32) { l.got[id] = append(l.got[id], append([]byte(nil), m...)) })
				l.m.inOpen = true
			}
			l.stops = append(l.stops, stop)
			l.m.listener = 1
			curBefore = 0
		case opStop:
			l.stops[len(l.stops)-1]()
			l.m.listener = 2
		case opStopAgain:
			l.stops[len(l.stops)-1]()
		case opStopOld:
			l.stops[len(l.stops)-2]()
		case opSendNote, opSendRT, opSendTo, opSendSysex:
			msg := note
			if op == opSendRT {
				msg = start
			}
			if op == opSendSysex {
				msg = sysexMsg
			}
			if op == opSendTo {
				var send func(midi.Message) error
				send, err = midi.SendTo(l.out)
				l.m.outOpen = true
				if err == nil {
					err = send(msg)
				}
			} else {
				err = l.out.Send(msg)
			}
			if !l.m.outOpen {
				expectErr = drivers.ErrPortClosed
			} else if l.m.listener == 1 && (op != opSendSysex || l.m.sysex) {
				expectDelivered = 1
				if l.m.selfStop {
					l.m.listener, l.m.selfStop = 2, false
				}
			}
		}
	})
	name := lcNames[op]
	st := []string{"no-listener", "listening", "stopped"}[l.m.listener]
	if op == opStop {
		st = "stopping"
	}
	if c.Panicked {
		return c.Sig + ":" + name + ":" + st, name + " panicked: " + c.Value
	}
	if err != expectErr {
		return "lifecycle:error:" + name + ":" + st, fmt.Sprintf("%s returned %v, model expects %v", name, err, expectErr)
	}
	if l.in.IsOpen() != l.m.inOpen || l.out.IsOpen() != l.m.outOpen {
		return "lifecycle:isopen:" + name, fmt.Sprintf("IsOpen in=%v out=%v, model in=%v out=%v", l.in.IsOpen(), l.out.IsOpen(), l.m.inOpen, l.m.outOpen)
	}
	delivered := total() - before
	cur := len(l.got[l.m.gen]) - curBefore
	switch {
	case delivered != cur:
		return "lifecycle:stale-listener-called:" + name, "a listener that is not the current one was called"
	case cur < expectDelivered:
		return "lifecycle:not-delivered:" + name + ":" + relisten(l), "message sent while a listener is active was not delivered"
	case cur > expectDelivered:
		if l.m.listener == 2 {
			return "lifecycle:delivered-after-stop:" + name, "listener called after its stop function returned"
		}
		return "lifecycle:delivered-unexpectedly:" + name + ":" + st, fmt.Sprintf("%d deliveries, model expects %d", cur, expectDelivered)
	case expectDelivered == 1:
		g := l.got[l.m.gen]
		want := note
		if op == opSendRT {
			want = start
		}
		if op == opSendSysex {
			want = sysexMsg
		}
		if string(g[len(g)-1]) != string(want) {
			return "lifecycle:delivered-bytes:" + name, fmt.Sprintf("delivered % X, sent % X", g[len(g)-1], want)
		}
	}
	return "", ""
}

func relisten(l *lcInst) string {
	if l.m.gen > 1 {
		return "after-listening-again"
	}
	return "first-listener"
}

func (l *lcInst) key() string {
	var b strings.Builder
	fmt.Fprintf(&b, "%v %v %d %v %v|", l.m.inOpen, l.m.outOpen, l.m.listener, l.m.sysex, l.m.selfStop)
	livespace.Dump(&b, reflect.ValueOf(l.drv), map[uintptr]bool{})
	return b.String()
}

func lifecycle() {
	b := &engine.BFS{NumOps: int(nLcOps), MaxStates: 200000, MaxDepth: 40, MaxTransitions: 400000, Stop: func() bool { return ctx.ViolationCount() > 0 }}
	b.Run = func(path []uint16) (string, bool) {
		l := newLc()
		for i, p := range path {
			op := lcOp(p)
			if !l.enabled(op) {
				return "", false
			}
			sig, what := l.apply(op)
			if i == len(path)-1 {
				ctx.Eval()
				if sig != "" {
					if ctx.SigCount(sig) < 10 {
						var names []string
						for _, q := range path {
							names = append(names, lcNames[q])
						}
						raw := make([]int, len(path))
						for k, q := range path {
							raw[k] = int(q)
						}
						ctx.Violation(sig, map[string]interface{}{"kind": "lifecycle", "history": names, "ops": raw, "what": what})
					}
					return "", false // no successors of a state in which model and driver disagree
				}
			} else if sig != "" {
				return "", false
			}
		}
		return l.key(), true
	}
	b.Explore("init")
	ctx.Add("states", b.States)
	ctx.Add("transitions", b.Transitions)
	ctx.Add("lifecycle_states", b.States)
	ctx.Add("lifecycle_transitions", b.Transitions)
	ctx.Max("max:lifecycle_depth", int64(b.Depth))
	if b.Fixpoint {
		ctx.Add("lifecycle_fixpoint", 1)
	} else {
		ctx.NotExhaustive("life-cycle search capped before its fixpoint")
	}
	fmt.Printf("lifecycle: states=%d transitions=%d depth=%d fixpoint=%v\n", b.States, b.Transitions, b.Depth, b.Fixpoint)
}

func replayLifecycle(m map[string]interface{}) {
	l := newLc()
	for _, o := range m["ops"].([]interface{}) {
		op := lcOp(int(o.(float64)))
		if !l.enabled(op) {
			fmt.Println("operation not enabled:", lcNames[op])
			return
		}
		sig, what := l.apply(op)
		fmt.Printf("%-18s %s %s\n", lcNames[op], sig, what)
		if sig != "" {
			ctx.Violation(sig, m)
			return
		}
	}
}
