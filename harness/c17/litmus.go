package main

import (
	"fmt"
	"sort"
	"strings"

	vs "gitlab.com/gomidi/midi/v2/internal/verifh/vsync"
)

// Litmus programs: the scheduler and the shim primitives must produce exactly
// the outcome sets that Go's primitives allow. A failure here is a defect of
// the machinery (exit 2), not a verdict about the library.

func outcomesOf(body func(), useCache bool) (outs []string, deadlocks int, execs int64) {
	set := map[string]bool{}
	x := &vs.Explorer{Body: body, Bound: -1, UseCache: useCache, MaxSteps: 500, MaxExec: 200000}
	x.OnExec = func(e *vs.Exec) {
		if e.Deadlock != "" {
			deadlocks++
			return
		}
		if e.MainDone && !e.CutByCache {
			set[strings.Join(e.Events, ",")] = true
		}
	}
	x.Run()
	for k := range set {
		outs = append(outs, k)
	}
	sort.Strings(outs)
	return outs, deadlocks, x.Executions
}

func litmus() {
	// L1: lost update without a lock, none with it
	counter := func(lock bool) func() {
		return func() {
			var mu vs.Mutex
			n := 0
			done := vs.NewChan[int](2)
			for i := 0; i < 2; i++ {
				vs.GoNamed(fmt.Sprint("w", i), func() {
					if lock {
						mu.Lock()
					}
					v := n
					vs.Yield()
					n = v + 1
					if lock {
						mu.Unlock()
					}
					done.Send(1)
				})
			}
			done.Recv()
			done.Recv()
			vs.Event(fmt.Sprint("n=", n))
		}
	}
	for _, cache := range []bool{false, true} {
		o, d, _ := outcomesOf(counter(false), cache)
		ctx.Guard(strings.Join(o, "|") == "n=1|n=2" && d == 0, "litmus L1 (unlocked counter, cache=%v): outcomes %v deadlocks %d", cache, o, d)
		o, d, _ = outcomesOf(counter(true), cache)
		ctx.Guard(strings.Join(o, "|") == "n=2" && d == 0, "litmus L1 (locked counter, cache=%v): outcomes %v deadlocks %d", cache, o, d)
	}
	// L2: buffered channel; one receive too many deadlocks in every schedule
	ch := func(recvs int) func() {
		return func() {
			c := vs.NewChan[int](1)
			vs.GoNamed("producer", func() { c.Send(1); c.Send(2) })
			s := 0
			for i := 0; i < recvs; i++ {
				s = s*10 + c.Recv()
			}
			vs.Event(fmt.Sprint("got=", s))
		}
	}
	o, d, _ := outcomesOf(ch(2), true)
	ctx.Guard(strings.Join(o, "|") == "got=12" && d == 0, "litmus L2 (channel order): outcomes %v deadlocks %d", o, d)
	o, d, _ = outcomesOf(ch(3), true)
	ctx.Guard(len(o) == 0 && d > 0, "litmus L2 (missing sender must deadlock): outcomes %v deadlocks %d", o, d)
	// L3: RWMutex: an announced writer holds back new readers
	rw := func() {
		var m vs.RWMutex
		done := vs.NewChan[int](3)
		m.RLock()
		vs.GoNamed("writer", func() { m.Lock(); vs.Event("W"); m.Unlock(); done.Send(1) })
		vs.GoNamed("reader2", func() { m.RLock(); vs.Event("R2"); m.RUnlock(); done.Send(1) })
		vs.Event("R1")
		m.RUnlock()
		done.Recv()
		done.Recv()
	}
	o, d, _ = outcomesOf(rw, true)
	ctx.Guard(d == 0 && strings.Join(o, "|") == "R1,R2,W|R1,W,R2|R2,R1,W", "litmus L3 (RWMutex): outcomes %v deadlocks %d", o, d)
	// L4: pipe: a write returns only after its bytes were read; closing the reader releases the writer
	pipe := func(closeIt bool) func() {
		return func() {
			r, w := vs.NewPipe()
			done := vs.NewChan[int](1)
			vs.GoNamed("writer", func() {
				n, err := w.Write([]byte("ab"))
				vs.Event(fmt.Sprintf("wrote=%d,%v", n, err != nil))
				done.Send(1)
			})
			if closeIt {
				b := make([]byte, 1)
				r.Read(b)
				vs.Event("read1")
				r.Close()
			} else {
				b := make([]byte, 1)
				r.Read(b)
				vs.Event("read1")
				r.Read(b)
				vs.Event("read2")
			}
			done.Recv()
		}
	}
	o, d, _ = outcomesOf(pipe(false), true)
	ctx.Guard(d == 0 && strings.Join(o, "|") == "read1,read2,wrote=2,false|read1,wrote=2,false,read2", "litmus L4 (pipe drain): outcomes %v deadlocks %d", o, d)
	o, d, _ = outcomesOf(pipe(true), true)
	ctx.Guard(d == 0 && strings.Join(o, "|") == "read1,wrote=1,true", "litmus L4 (pipe close): outcomes %v deadlocks %d", o, d)
	// L5: select among two ready cases takes either
	sel := func() {
		a, b := vs.NewChan[int](1), vs.NewChan[int](1)
		a.Send(1)
		b.Send(2)
		vs.Event(fmt.Sprint("case=", vs.Select(true, vs.RecvCase(a), vs.RecvCase(b))))
	}
	o, d, _ = outcomesOf(sel, true)
	ctx.Guard(d == 0 && strings.Join(o, "|") == "case=0|case=1", "litmus L5 (select): outcomes %v deadlocks %d", o, d)
	ctx.Add("litmus_programs", 9)
}
