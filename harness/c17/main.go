// C17 — ports deliver exactly while listening, for every order of lifecycle calls.
//
// (a) testdrv life cycle: BFS over open/listen/send/stop/close histories to the
//     fixpoint against the life-cycle model (lifecycle.go).
// (b) midicatdrv under the controlled scheduler: all interleavings of five
//     scenario harnesses (sched.go, scenarios.go) — built from the driver's
//     sources rewritten onto the vsync shim.
// (c) race pass: the unmodified driver with -race against a stand-in helper
//     binary (complement, sampled schedules; race.go).
package main

import (
	"fmt"
	"os"

	"gitlab.com/gomidi/midi/v2/internal/verifh/engine"
)

var ctx *engine.Ctx

func main() {
	ctx = engine.Start("C17", "model_checking")
	if ctx.ReplayPath != "" {
		m := ctx.LoadReplay()
		switch m["kind"] {
		case "lifecycle":
			replayLifecycle(m)
		}
		ctx.Finish("replay")
	}
	ctx.Assume("protocol-respecting histories only: Listen when the in port is open and no listener is active, in.Close only without active listener, stop functions of the current listener only (DESIGN.md appendix C)")
	ctx.Jobs("lifecycle", 1, func(int) { lifecycle() })
	scs := scenarios()
	bound := -1
	if !ctx.Thorough() {
		bound = 2
	}
	if os.Getenv("VERIF_SCHED_BOUND") != "" {
		fmt.Sscanf(os.Getenv("VERIF_SCHED_BOUND"), "%d", &bound)
	}
	ctx.Jobs("sched", len(scs), func(j int) { exploreScenario(scs[j], bound, 3_000_000, nil) })
	ctx.Set("traces_validated_against_impl", ctx.GetInt("transitions"))
	ctx.Sample(map[string]interface{}{"history": []string{"out.Open", "midi.ListenTo", "Send(note)", "stop()", "Send(note)", "midi.ListenTo", "Send(note)"}, "expect": "delivered to listener 1, dropped, delivered to listener 2"})
	ctx.NontrivialN(ctx.GetInt("lifecycle_states"))
	ctx.Finish("(a) BFS over 10 life-cycle operations on the in-memory driver to the fixpoint, state = model state x reflected driver state")
}
