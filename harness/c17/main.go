// C17 — ports deliver exactly while listening, for every order of lifecycle calls.
//
// (a) testdrv life cycle: BFS over open/listen/send/stop/close histories to the
//
//	fixpoint against the life-cycle model (lifecycle.go).
//
// (b) midicatdrv under the controlled scheduler: all interleavings of five
//
//	scenario harnesses (sched.go, scenarios.go) — built from the driver's
//	sources rewritten onto the vsync shim.
//
// (c) race pass: the unmodified driver with -race against a stand-in helper
//
//	binary (complement, sampled schedules; race.go).
package main

import (
	"fmt"
	"os"

	"gitlab.com/gomidi/midi/v2/internal/verifh/engine"
)

var ctx *engine.Ctx

func main() {
	ctx = engine.Start("C17", "model_checking")
	if ctx.ReplayPath != "" {
		m := ctx.LoadReplay()
		switch m["kind"] {
		case "lifecycle":
			replayLifecycle(m)
		case "schedule":
			replaySchedule(m)
		case "race":
			racePass()
		}
		ctx.Finish("replay")
	}
	ctx.Assume("protocol-respecting histories only: Listen when the in port is open and no listener is active, in.Close only without active listener, stop functions of the current listener only (DESIGN.md appendix C)")
	ctx.Jobs("lifecycle", 1, func(int) { lifecycle() })
	ctx.Jobs("litmus", 1, func(int) { litmus() })
	scs := scenarios()
	bound := -1
	if !ctx.Thorough() {
		bound = 2
	}
	if os.Getenv("VERIF_SCHED_BOUND") != "" {
		fmt.Sscanf(os.Getenv("VERIF_SCHED_BOUND"), "%d", &bound)
	}
	ctx.Jobs("sched", len(scs), func(j int) { exploreScenario(scs[j], bound, 3_000_000, nil) })
	if !ctx.IsChild() {
		racePass()
	}
	ctx.Set("traces_validated_against_impl", ctx.GetInt("transitions"))
	if bound < 0 {
		ctx.Set("preemption_bound", "none")
	} else {
		ctx.Set("preemption_bound", bound)
	}
	ctx.Set("race_pass", map[string]interface{}{"exhaustive": false, "histories_run": ctx.GetInt("race_pass_histories"), "histories_enumerated": ctx.GetInt("race_pass_histories_enumerated"),
		"runs": ctx.GetInt("race_pass_runs"), "note": "free-running executions of the unmodified driver under the Go race detector: sampled schedules, a complement to the exhaustive exploration"})
	ctx.Sample(map[string]interface{}{"history": []string{"out.Open", "midi.ListenTo", "Send(note)", "stop()", "Send(note)", "midi.ListenTo", "Send(note)"}, "expect": "delivered to listener 1, dropped, delivered to listener 2"})
	ctx.Sample(map[string]interface{}{"scenario": "S2-stop-relisten", "threads": "harness, reader goroutine, control goroutine, helper process", "expect": "no call-back of listener 1 after stop 1 returned; a line written after Listen 2 reaches listener 2; every call returns"})
	ctx.NontrivialN(ctx.GetInt("lifecycle_states") + ctx.GetInt("hb_states"))
	ctx.Guard(ctx.GetInt("hb_states") > 1000, "scheduler explored suspiciously few states: %d", ctx.GetInt("hb_states"))
	ctx.Guard(ctx.GetInt("distinct_outcomes") >= 8, "scheduler produced too few distinct outcomes: %d", ctx.GetInt("distinct_outcomes"))
	ctx.Guard(ctx.GetInt("litmus_programs") == 9, "litmus programs did not run")
	ctx.Finish("(a) BFS over 10 life-cycle operations on the in-memory driver to the fixpoint (state = model state x reflected driver state); (b) six scenario harnesses on the process-backed driver rewritten onto the scheduler shim: every interleaving (thorough: no preemption bound; quick: preemption bound 2) with happens-before state caching; (c) race detector pass on the unmodified driver (sampled); non-trivial = distinct life-cycle states plus distinct happens-before states")
}
