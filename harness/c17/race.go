package main

import (
	"fmt"
	"os"
	"os/exec"
	"regexp"
	"strings"
)

// (c) race pass: runs the -race build of the unmodified driver (see
// harness/c17race) against the stand-in helper and turns race reports, hangs
// and crashes into violations. Sampled schedules: never the only evidence.
func racePass() {
	bin := os.Getenv("VERIF_RACE_BIN")
	stub := os.Getenv("VERIF_STUB_DIR")
	if bin == "" || stub == "" {
		ctx.Guard(false, "race harness not built (PREP did not run)")
		return
	}
	maxLen, budget := "4", "12"
	if ctx.Thorough() {
		maxLen, budget = "6", "240"
	}
	runOnce := func() (string, error) {
		cmd := exec.Command(bin)
		cmd.Env = append(os.Environ(), "PATH="+stub+":"+os.Getenv("PATH"), "RACE_MAXLEN="+maxLen, "RACE_BUDGET_S="+budget,
			"GORACE=halt_on_error=0 exitcode=0", "VERIF_JOB=", "GOMAXPROCS=8")
		out, err := cmd.CombinedOutput()
		return string(out), err
	}
	// can this machine start the stand-in helper at all right now? (a process
	// table that is full makes the driver report a missing helper)
	probe := func() error {
		_, err := exec.Command(stub+"/midicat", "version", "-s").Output()
		return err
	}
	text, err := runOnce()
	ctx.Eval()
	if (err != nil || strings.Contains(text, "RACE-PASS-HANG")) && !strings.Contains(text, "WARNING: DATA RACE") {
		// a crash or a hang of a free-running pass is only believed if it comes
		// back: twice more, and only on a machine that can start processes
		first := text
		for attempt := 0; attempt < 2; attempt++ {
			if perr := probe(); perr != nil {
				ctx.NotExhaustive("race pass could not run: this machine cannot start the stand-in helper right now (" + perr.Error() + ")")
				fmt.Println("race pass: skipped, the helper cannot be started:", perr)
				return
			}
			text, err = runOnce()
			ctx.Eval()
			if err == nil && !strings.Contains(text, "RACE-PASS-HANG") {
				tail := first
				if len(tail) > 300 {
					tail = tail[len(tail)-300:]
				}
				ctx.NotExhaustive("race pass: a first attempt died or hung and did not do so again (taken for a disturbance of the machine): " + strings.ReplaceAll(tail, "\n", " | "))
				break
			}
		}
	}
	if strings.Contains(text, "RACE-PASS-HANG") {
		i := strings.Index(text, "RACE-PASS-HANG")
		line := text[i:]
		if j := strings.Index(line, "\n"); j > 0 {
			line = line[:j]
		}
		ctx.Violation("race-pass:hang", map[string]interface{}{"kind": "race", "what": "a driver call did not return within 60 s: " + line})
		return
	}
	races := strings.Count(text, "WARNING: DATA RACE")
	if races > 0 {
		// signature: the two innermost driver functions of the first report
		re := regexp.MustCompile(`gitlab\.com/gomidi/midi/v2[\w/]*\.((?:\(\*?\w+\)\.)?\w+)`)
		fn := map[string]bool{}
		var names []string
		first := text[strings.Index(text, "WARNING: DATA RACE"):]
		if k := strings.Index(first, "=================="); k > 0 {
			first = first[:k]
		}
		for _, m := range re.FindAllStringSubmatch(first, -1) {
			n := m[1]
			if !fn[n] && len(names) < 2 {
				fn[n] = true
				names = append(names, n)
			}
		}
		if len(first) > 3000 {
			first = first[:3000]
		}
		ctx.Violation("race:"+strings.Join(names, "+"), map[string]interface{}{"kind": "race", "reports": races, "first_report": first,
			"what": fmt.Sprintf("%d data race report(s) from the Go race detector on the unmodified driver", races)})
	}
	if err != nil && races == 0 {
		tail := text
		if len(tail) > 2000 {
			tail = tail[len(tail)-2000:]
		}
		ctx.Violation("race-pass:crash", map[string]interface{}{"kind": "race", "what": "race harness died: " + err.Error() + "\n" + tail})
		return
	}
	re := regexp.MustCompile(`RACE-PASS histories=(\d+) of=(\d+) runs=(\d+) delivered=(\d+)`)
	if m := re.FindStringSubmatch(text); m != nil {
		var h, of, r, d int64
		fmt.Sscan(m[1], &h)
		fmt.Sscan(m[2], &of)
		fmt.Sscan(m[3], &r)
		fmt.Sscan(m[4], &d)
		ctx.Add("race_pass_histories", h)
		ctx.Add("race_pass_histories_enumerated", of)
		ctx.Add("race_pass_runs", r)
		ctx.Add("race_pass_messages_delivered", d)
		fmt.Printf("race pass: histories=%d of %d runs=%d delivered=%d races=%d\n", h, of, r, d, races)
	} else if races == 0 {
		ctx.Guard(false, "race harness produced no summary: %s", text)
	}
}
