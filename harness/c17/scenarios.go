package main

import (
	"fmt"
	"os"
	"sort"
	"strings"

	"gitlab.com/gomidi/midi/v2/drivers"
	"gitlab.com/gomidi/midi/v2/drivers/midicatdrv"
	"gitlab.com/gomidi/midi/v2/internal/verifh/vexec"
	vs "gitlab.com/gomidi/midi/v2/internal/verifh/vsync"
)

// (b) the process-backed driver under the controlled scheduler. The driver
// sources are compiled from their current contents with sync / channels / go /
// select / io.Pipe / os/exec mechanically redirected to the vsync shim (see
// INSTRUMENT and /verif/tools/rewrite).

type scenario struct {
	name  string
	body  func()
	check func(e *vs.Exec) (sig, what string)
}

func errStr(err error) string {
	if err == nil {
		return "nil"
	}
	if err == drivers.ErrPortClosed {
		return "ErrPortClosed"
	}
	return "error"
}

func newIn() drivers.In {
	drv, err := midicatdrv.New()
	if err != nil {
		panic(err)
	}
	ins, err := drv.Ins()
	if err != nil || len(ins) == 0 {
		panic(fmt.Sprint("no in ports: ", err))
	}
	return ins[0]
}

func script(lines []string, failStart int) *vexec.Script {
	var got []string
	sc := &vexec.Script{InLines: lines, FailStart: failStart, Trigger: vs.NewChan[int](8), Written: vs.NewChan[int](8), OutReceived: &got}
	vexec.Current = sc
	return sc
}

var lines = []string{"11 903C40\n", "22 803C00\n", "33 C005\n"}

func listener(id int, ch *vs.Chan[string]) func([]byte, int32) {
	return func(b []byte, ts int32) {
		s := fmt.Sprintf("%X@%d", b, ts)
		vs.Event(fmt.Sprintf("deliver:%d:%s", id, s))
		if ch != nil {
			ch.Send(s)
		}
	}
}

var wantLine = []string{"903C40@11", "803C00@22", "C005@33"}

// S1: open, listen, two lines, both delivered, stop, close.
func s1() {
	sc := script(lines, 0)
	in := newIn()
	vs.Event("open:" + errStr(in.Open()))
	got := vs.NewChan[string](8)
	stop, err := in.Listen(listener(1, got), drivers.ListenConfig{})
	vs.Event("listen1:" + errStr(err))
	if err != nil {
		return
	}
	sc.Trigger.Send(0)
	sc.Trigger.Send(1)
	got.Recv()
	got.Recv()
	stop()
	vs.Event("stop1-returned")
	vs.Event("close:" + errStr(in.Close()))
	vs.Event(fmt.Sprintf("isopen:%v", in.IsOpen()))
}

// S2: a line in flight while stopping, listen again, a fresh line must reach
// the second listener, stop, close.
func s2() {
	sc := script(lines, 0)
	in := newIn()
	vs.Event("open:" + errStr(in.Open()))
	stop1, err := in.Listen(listener(1, nil), drivers.ListenConfig{})
	vs.Event("listen1:" + errStr(err))
	if err != nil {
		return
	}
	sc.Trigger.Send(0)
	stop1()
	vs.Event("stop1-returned")
	got := vs.NewChan[string](8)
	stop2, err := in.Listen(listener(2, got), drivers.ListenConfig{})
	vs.Event("listen2:" + errStr(err))
	if err != nil {
		return
	}
	sc.Trigger.Send(1)
	for got.Recv() != wantLine[1] {
	}
	stop2()
	vs.Event("stop2-returned")
	vs.Event("close:" + errStr(in.Close()))
}

// S10: a Listen call while a listener is active is refused (or served - not
// judged) and leaves the port fully usable: the first listener keeps
// receiving, can be stopped, and listening again afterwards works.
func s10() {
	sc := script(lines, 0)
	in := newIn()
	vs.Event("open:" + errStr(in.Open()))
	got1 := vs.NewChan[string](8)
	stop1, err := in.Listen(listener(1, got1), drivers.ListenConfig{})
	vs.Event("listen1:" + errStr(err))
	if err != nil {
		return
	}
	stopX, errX := in.Listen(listener(9, nil), drivers.ListenConfig{})
	if errX == nil {
		vs.Event("listen-again:accepted")
		if stopX != nil {
			stopX()
		}
		return // how two simultaneous listeners share the lines is not judged
	}
	vs.Event("listen-again:refused")
	vs.Event(fmt.Sprintf("isopen:%v", in.IsOpen()))
	sc.Trigger.Send(0)
	for got1.Recv() != wantLine[0] {
	}
	stop1()
	vs.Event("stop1-returned")
	got2 := vs.NewChan[string](8)
	stop2, err := in.Listen(listener(2, got2), drivers.ListenConfig{})
	vs.Event("listen2:" + errStr(err))
	if err != nil {
		return
	}
	sc.Trigger.Send(1)
	for got2.Recv() != wantLine[1] {
	}
	stop2()
	vs.Event("stop2-returned")
	vs.Event("close:" + errStr(in.Close()))
}

// S11: the device keeps sending while the port is stopped and closed: output
// of the helper that nobody reads any more must not keep Close from returning.
func s11() {
	sc := script(lines, 0)
	in := newIn()
	vs.Event("open:" + errStr(in.Open()))
	stop, err := in.Listen(listener(1, nil), drivers.ListenConfig{})
	vs.Event("listen1:" + errStr(err))
	if err != nil {
		return
	}
	vs.GoNamed("device", func() {
		sc.Trigger.Send(0)
		sc.Trigger.Send(1)
	})
	stop()
	vs.Event("stop1-returned")
	vs.Event("close:" + errStr(in.Close()))
	vs.Event(fmt.Sprintf("isopen:%v", in.IsOpen()))
}

// S12: the helper writes two lines with one write (a burst, a chord): both
// must be delivered, in order.
func s12() {
	sc := script([]string{"11 903C40\n22 803C00\n", "33 C005\n"}, 0)
	in := newIn()
	vs.Event("open:" + errStr(in.Open()))
	got := vs.NewChan[string](8)
	stop, err := in.Listen(listener(1, got), drivers.ListenConfig{})
	vs.Event("listen1:" + errStr(err))
	if err != nil {
		return
	}
	sc.Trigger.Send(0)
	sc.Trigger.Send(1)
	for got.Recv() != wantLine[2] {
	}
	stop()
	vs.Event("stop1-returned")
	vs.Event("close:" + errStr(in.Close()))
}

// S15: the listen options of the process-backed driver: four lines (active
// sense, timing clock, a sysex, a note) under a given option set; exactly the
// wanted classes are delivered, in order.
var filterLines = []string{"1 FE\n", "2 F8\n", "3 F0010203F7\n", "4 903C40\n"}

func s15(conf drivers.ListenConfig) func() {
	return func() {
		sc := script(filterLines, 0)
		in := newIn()
		vs.Event("open:" + errStr(in.Open()))
		got := vs.NewChan[string](8)
		stop, err := in.Listen(listener(1, got), conf)
		vs.Event("listen1:" + errStr(err))
		if err != nil {
			return
		}
		for i := range filterLines {
			sc.Trigger.Send(i)
		}
		for got.Recv() != "903C40@4" {
		}
		stop()
		vs.Event("stop1-returned")
		vs.Event("close:" + errStr(in.Close()))
	}
}

func s15check(conf drivers.ListenConfig) func(e *vs.Exec) (string, string) {
	return func(e *vs.Exec) (string, string) {
		if s, w := deliveryRulesFor(e, []string{"FE@1", "F8@2", "F0010203F7@3", "903C40@4"}); s != "" {
			return s, w
		}
		var want []string
		if conf.ActiveSense {
			want = append(want, "deliver:1:FE@1")
		}
		if conf.TimeCode {
			want = append(want, "deliver:1:F8@2")
		}
		if conf.SysEx {
			want = append(want, "deliver:1:F0010203F7@3")
		}
		want = append(want, "deliver:1:903C40@4")
		if d := eventsOf(e, "deliver:1:"); fmt.Sprint(d) != fmt.Sprint(want) {
			return "filter:midicatdrv", fmt.Sprintf("with options %+v the listener received %v, expected %v", conf, d, want)
		}
		return "", ""
	}
}

// S16: the same ports go through open - Driver.Close - open - Driver.Close:
// the second session is closed by the driver like the first.
func s16() {
	script(lines, 0)
	drv, _ := midicatdrv.New()
	ins, _ := drv.Ins()
	outs, _ := drv.Outs()
	in, out := ins[0], outs[0]
	for round := 0; round < 2; round++ {
		vs.Event("open:" + errStr(in.Open()))
		vs.Event("open:" + errStr(out.Open()))
		vs.Event("send:" + errStr(out.Send([]byte{0x90, 1, 2})))
		vs.Event("driver-close:" + errStr(drv.Close()))
		vs.Event(fmt.Sprintf("isopen:%v,%v", in.IsOpen(), out.IsOpen()))
		vs.Event("send-after-driver-close:" + errStr(out.Send([]byte{0x90, 1, 2})))
	}
}

// S3: the helper cannot be started twice, then can.
func s3() {
	script(lines, 2)
	in := newIn()
	vs.Event("open:" + errStr(in.Open()))
	vs.Event(fmt.Sprintf("isopen:%v", in.IsOpen()))
	vs.Event("open:" + errStr(in.Open()))
	vs.Event("close:" + errStr(in.Close()))
	vs.Event("open:" + errStr(in.Open()))
	vs.Event(fmt.Sprintf("isopen:%v", in.IsOpen()))
	vs.Event("close:" + errStr(in.Close()))
	vs.Event(fmt.Sprintf("isopen:%v", in.IsOpen()))
}

// S4: open and close are idempotent.
func s4() {
	script(lines, 0)
	in := newIn()
	for _, op := range "OOCCOC" {
		if op == 'O' {
			vs.Event("open:" + errStr(in.Open()))
		} else {
			vs.Event("close:" + errStr(in.Close()))
		}
		vs.Event(fmt.Sprintf("isopen:%v", in.IsOpen()))
	}
	_, err := in.Listen(listener(1, nil), drivers.ListenConfig{})
	vs.Event("listen-closed:" + errStr(err))
}

// S5: out port with two concurrent senders.
func s5() {
	sc := script(nil, 0)
	drv, _ := midicatdrv.New()
	outs, err := drv.Outs()
	if err != nil || len(outs) == 0 {
		panic("no out ports")
	}
	out := outs[0]
	vs.Event("send-before-open:" + errStr(out.Send([]byte{0x90, 1, 2})))
	vs.Event("open:" + errStr(out.Open()))
	vs.Event("open:" + errStr(out.Open()))
	done := vs.NewChan[int](4)
	for s := 0; s < 2; s++ {
		s := s
		vs.GoNamed(fmt.Sprintf("sender%d", s), func() {
			for k := 0; k < 2-s; k++ {
				err := out.Send([]byte{0x90 | byte(s), byte(k), 0x40})
				vs.Event(fmt.Sprintf("send:%d:%d:%s", s, k, errStr(err)))
			}
			done.Send(s)
		})
	}
	done.Recv()
	done.Recv()
	// every Send has returned, so the helper has consumed every line
	got := append([]string(nil), *sc.OutReceived...)
	sort.Strings(got)
	vs.Event("helper-got:" + strings.ReplaceAll(strings.Join(got, "|"), "\n", ""))
	vs.Event("close:" + errStr(out.Close()))
	vs.Event("close:" + errStr(out.Close()))
	vs.Event("send-after-close:" + errStr(out.Send([]byte{0x90, 1, 2})))
	vs.Event(fmt.Sprintf("isopen:%v", out.IsOpen()))
}

// S13: two senders on one out port, one of them with a message of 1500 bytes
// (longer than any buffer in between): each line reaches the helper in one
// piece, whatever the order.
func s13() {
	sc := script(nil, 0)
	drv, _ := midicatdrv.New()
	outs, err := drv.Outs()
	if err != nil || len(outs) == 0 {
		panic("no out ports")
	}
	out := outs[0]
	vs.Event("open:" + errStr(out.Open()))
	long := make([]byte, 1500)
	long[0] = 0xF0
	for i := 1; i < len(long)-1; i++ {
		long[i] = byte(i % 100)
	}
	long[len(long)-1] = 0xF7
	done := vs.NewChan[int](4)
	vs.GoNamed("sender-long", func() {
		vs.Event("send:long:" + errStr(out.Send(long)))
		done.Send(0)
	})
	vs.GoNamed("sender-short", func() {
		vs.Event("send:short:" + errStr(out.Send([]byte{0x91, 0x01, 0x40})))
		done.Send(1)
	})
	done.Recv()
	done.Recv()
	got := append([]string(nil), *sc.OutReceived...)
	sort.Strings(got)
	ok := len(got) == 2 && got[0] == fmt.Sprintf("0 %X\n", []byte{0x91, 0x01, 0x40}) && got[1] == fmt.Sprintf("0 %X\n", long)
	if got[0] > got[1] {
		ok = false
	}
	vs.Event(fmt.Sprintf("helper-lines-intact:%v:%d", ok, len(got)))
	vs.Event("close:" + errStr(out.Close()))
}

// S14: Driver.Close while another thread opens two further ports: the ports
// that were open when Close was called are closed when it returns (whatever
// happens to the ones opened meanwhile), and nothing blocks.
func s14() {
	sc := script(nil, 0)
	sc.TwoPorts = true
	drv, _ := midicatdrv.New()
	outs, _ := drv.Outs()
	if len(outs) < 4 {
		vs.Event("ports:missing")
		return
	}
	vs.Event("open:" + errStr(outs[0].Open()))
	vs.Event("open:" + errStr(outs[1].Open()))
	done := vs.NewChan[int](2)
	vs.GoNamed("opener", func() {
		vs.Event("open-other:" + errStr(outs[2].Open()))
		vs.Event("open-other:" + errStr(outs[3].Open()))
		done.Send(1)
	})
	vs.Event("driver-close:" + errStr(drv.Close()))
	vs.Event(fmt.Sprintf("old-ports-open-after-driver-close:%v,%v", outs[0].IsOpen(), outs[1].IsOpen()))
	done.Recv()
	// whatever is still open is closed by its owner
	outs[2].Close()
	outs[3].Close()
	vs.Event(fmt.Sprintf("isopen:%v,%v,%v,%v", outs[0].IsOpen(), outs[1].IsOpen(), outs[2].IsOpen(), outs[3].IsOpen()))
}

// S17: Driver.Close while another thread opens a port again that the driver
// already knows (it was open and closed before): nothing blocks, and once its
// owner has closed it the port is closed.
func s17() {
	script(nil, 0)
	drv, _ := midicatdrv.New()
	outs, _ := drv.Outs()
	out := outs[0]
	vs.Event("open:" + errStr(out.Open()))
	vs.Event("close:" + errStr(out.Close()))
	done := vs.NewChan[int](1)
	vs.GoNamed("opener", func() {
		vs.Event("open-again:" + errStr(out.Open()))
		done.Send(1)
	})
	vs.Event("driver-close:" + errStr(drv.Close()))
	done.Recv()
	out.Close()
	vs.Event(fmt.Sprintf("isopen:%v", out.IsOpen()))
}

// S6: Driver.Close closes whatever is open, also while a listener is active.
func s6() {
	sc := script(lines, 0)
	drv, _ := midicatdrv.New()
	ins, _ := drv.Ins()
	outs, _ := drv.Outs()
	in, out := ins[0], outs[0]
	vs.Event("open:" + errStr(in.Open()))
	vs.Event("open:" + errStr(out.Open()))
	got := vs.NewChan[string](8)
	_, err := in.Listen(listener(1, got), drivers.ListenConfig{})
	vs.Event("listen1:" + errStr(err))
	sc.Trigger.Send(0)
	got.Recv()
	vs.Event("driver-close:" + errStr(drv.Close()))
	vs.Event(fmt.Sprintf("isopen:%v/%v", in.IsOpen(), out.IsOpen()))
}

// S7: senders overlapping with Close of the out port: every Send returns nil
// or ErrPortClosed, nothing panics, Close returns.
func s7() {
	sc := script(nil, 0)
	drv, _ := midicatdrv.New()
	outs, _ := drv.Outs()
	out := outs[0]
	vs.Event("open:" + errStr(out.Open()))
	done := vs.NewChan[int](2)
	vs.GoNamed("sender", func() {
		for k := 0; k < 2; k++ {
			err := out.Send([]byte{0x90, byte(k), 0x40})
			vs.Event(fmt.Sprintf("send:%d:%s", k, errStr(err)))
		}
		done.Send(1)
	})
	vs.Event("close:" + errStr(out.Close()))
	done.Recv()
	vs.Event(fmt.Sprintf("isopen:%v", out.IsOpen()))
	got := append([]string(nil), *sc.OutReceived...)
	vs.Event(fmt.Sprintf("helper-got:%d", len(got)))
}

// S8: the out helper cannot be started while another thread sends on the
// (closed) port: Open reports the error, Send reports ErrPortClosed, nobody blocks.
func s8() {
	script(nil, 1)
	drv, _ := midicatdrv.New()
	outs, _ := drv.Outs()
	out := outs[0]
	done := vs.NewChan[int](1)
	vs.GoNamed("sender", func() {
		err := out.Send([]byte{0x90, 1, 2})
		vs.Event("send:" + errStr(err))
		done.Send(1)
	})
	vs.Event("open:" + errStr(out.Open()))
	done.Recv()
	vs.Event("open:" + errStr(out.Open()))
	vs.Event(fmt.Sprintf("isopen:%v", out.IsOpen()))
	vs.Event("close:" + errStr(out.Close()))
}

// S9: a stop function called once more after the port was closed and opened
// again (two deferred stops around a reconnect) returns.
func s9() {
	script(lines, 0)
	in := newIn()
	vs.Event("open:" + errStr(in.Open()))
	stop1, err := in.Listen(listener(1, nil), drivers.ListenConfig{})
	vs.Event("listen1:" + errStr(err))
	if err != nil {
		return
	}
	stop1()
	vs.Event("stop1-returned")
	vs.Event("close:" + errStr(in.Close()))
	vs.Event("open:" + errStr(in.Open()))
	stop1()
	vs.Event("stop1-again-returned")
	vs.Event("close:" + errStr(in.Close()))
	stop1()
	vs.Event("stop1-after-close-returned")
}

func eventsOf(e *vs.Exec, prefix string) []string {
	var out []string
	for _, ev := range e.Events {
		if strings.HasPrefix(ev, prefix) {
			out = append(out, ev)
		}
	}
	return out
}

func indexOf(e *vs.Exec, ev string) int {
	for i, x := range e.Events {
		if x == ev {
			return i
		}
	}
	return -1
}

// deliveryRules: per listener at most once per line, in order, and never
// after the listener's stop returned.
func deliveryRules(e *vs.Exec) (string, string) { return deliveryRulesFor(e, wantLine) }

func deliveryRulesFor(e *vs.Exec, wantLine []string) (string, string) {
	for id := 1; id <= 2; id++ {
		last := -1
		stopAt := indexOf(e, fmt.Sprintf("stop%d-returned", id))
		for i, ev := range e.Events {
			p := fmt.Sprintf("deliver:%d:", id)
			if !strings.HasPrefix(ev, p) {
				continue
			}
			li := -1
			for k, w := range wantLine {
				if ev == p+w {
					li = k
				}
			}
			if li < 0 {
				return "delivery:garbled", "delivered something that was never written: " + ev
			}
			if li <= last {
				return "delivery:duplicate-or-reordered", fmt.Sprintf("listener %d got line %d after line %d", id, li, last)
			}
			last = li
			if stopAt >= 0 && i > stopAt {
				return "delivery:after-stop-returned", fmt.Sprintf("listener %d called after its stop function returned (%s)", id, ev)
			}
		}
	}
	return "", ""
}

func expectSeq(e *vs.Exec, prefixes []string, want []string) (string, string) {
	var got []string
	for _, ev := range e.Events {
		for _, p := range prefixes {
			if strings.HasPrefix(ev, p) {
				got = append(got, ev)
			}
		}
	}
	if strings.Join(got, " ") != strings.Join(want, " ") {
		return "calls:results", fmt.Sprintf("call results %v, expected %v", got, want)
	}
	return "", ""
}

func scenarios() []scenario {
	return []scenario{
		{"S1-listen-two-lines", s1, func(e *vs.Exec) (string, string) {
			if s, w := deliveryRules(e); s != "" {
				return s, w
			}
			if s, w := expectSeq(e, []string{"open:", "listen1:", "close:", "isopen:"}, []string{"open:nil", "listen1:nil", "close:nil", "isopen:false"}); s != "" {
				return s, w
			}
			if len(eventsOf(e, "deliver:1:")) != 2 {
				return "delivery:lost", "not both lines delivered"
			}
			return "", ""
		}},
		{"S2-stop-relisten", s2, func(e *vs.Exec) (string, string) {
			if s, w := deliveryRules(e); s != "" {
				return s, w
			}
			if s, w := expectSeq(e, []string{"open:", "listen1:", "listen2:", "close:"}, []string{"open:nil", "listen1:nil", "listen2:nil", "close:nil"}); s != "" {
				return s, w
			}
			if indexOf(e, "deliver:2:"+wantLine[1]) < 0 {
				return "delivery:lost", "line written while listener 2 was active not delivered"
			}
			return "", ""
		}},
		{"S10-listen-while-listening", s10, func(e *vs.Exec) (string, string) {
			if indexOf(e, "listen-again:accepted") >= 0 {
				return "", ""
			}
			if s, w := deliveryRules(e); s != "" {
				return s, w
			}
			if s, w := expectSeq(e, []string{"open:", "listen1:", "listen-again:", "isopen:", "listen2:", "close:"}, []string{"open:nil", "listen1:nil", "listen-again:refused", "isopen:true", "listen2:nil", "close:nil"}); s != "" {
				return s, w
			}
			if len(eventsOf(e, "deliver:9:")) > 0 {
				return "delivery:to-refused-listener", "the listener whose Listen call was refused received a message"
			}
			if indexOf(e, "deliver:1:"+wantLine[0]) < 0 || indexOf(e, "deliver:2:"+wantLine[1]) < 0 {
				return "delivery:lost", "a line written while a listener was active was not delivered to it"
			}
			return "", ""
		}},
		{"S11-close-while-device-sends", s11, func(e *vs.Exec) (string, string) {
			if s, w := deliveryRules(e); s != "" {
				return s, w
			}
			return expectSeq(e, []string{"open:", "listen1:", "close:", "isopen:"}, []string{"open:nil", "listen1:nil", "close:nil", "isopen:false"})
		}},
		{"S12-two-lines-in-one-write", s12, func(e *vs.Exec) (string, string) {
			if s, w := deliveryRules(e); s != "" {
				return s, w
			}
			if s, w := expectSeq(e, []string{"open:", "listen1:", "close:"}, []string{"open:nil", "listen1:nil", "close:nil"}); s != "" {
				return s, w
			}
			d := eventsOf(e, "deliver:1:")
			want := []string{"deliver:1:" + wantLine[0], "deliver:1:" + wantLine[1], "deliver:1:" + wantLine[2]}
			if fmt.Sprint(d) != fmt.Sprint(want) {
				return "delivery:burst", fmt.Sprintf("two lines written with one write, then a third: delivered %v, expected %v", d, want)
			}
			return "", ""
		}},
		{"S13-long-and-short-sender", s13, func(e *vs.Exec) (string, string) {
			if s, w := expectSeq(e, []string{"open:", "close:"}, []string{"open:nil", "close:nil"}); s != "" {
				return s, w
			}
			for _, ev := range eventsOf(e, "send:") {
				if !strings.HasSuffix(ev, ":nil") {
					return "send:error", "Send on an open port failed: " + ev
				}
			}
			if l := eventsOf(e, "helper-lines-intact:"); len(l) != 1 || l[0] != "helper-lines-intact:true:2" {
				return "send:lines", fmt.Sprintf("a 1500-byte message and a short one sent at the same time: the helper did not receive the two lines intact (%v)", l)
			}
			return "", ""
		}},
		{"S14-driver-close-while-opening", s14, func(e *vs.Exec) (string, string) {
			if indexOf(e, "ports:missing") >= 0 {
				return "harness:two-ports", "the stand-in helper did not report two ports"
			}
			if s, w := expectSeq(e, []string{"open:", "driver-close:", "old-ports-open-after-driver-close:", "isopen:"},
				[]string{"open:nil", "open:nil", "driver-close:nil", "old-ports-open-after-driver-close:false,false", "isopen:false,false,false,false"}); s != "" {
				return s, w
			}
			return "", ""
		}},
		{"S17-driver-close-while-reopening", s17, func(e *vs.Exec) (string, string) {
			if s, w := expectSeq(e, []string{"open:", "close:", "driver-close:", "isopen:"},
				[]string{"open:nil", "close:nil", "driver-close:nil", "isopen:false"}); s != "" {
				return s, w
			}
			return "", ""
		}},
		{"S15-options-clock-only", s15(drivers.ListenConfig{TimeCode: true}), s15check(drivers.ListenConfig{TimeCode: true})},
		{"S15-options-sense-only", s15(drivers.ListenConfig{ActiveSense: true}), s15check(drivers.ListenConfig{ActiveSense: true})},
		{"S15-options-sysex-only", s15(drivers.ListenConfig{SysEx: true}), s15check(drivers.ListenConfig{SysEx: true})},
		{"S15-options-all", s15(drivers.ListenConfig{SysEx: true, TimeCode: true, ActiveSense: true}), s15check(drivers.ListenConfig{SysEx: true, TimeCode: true, ActiveSense: true})},
		{"S16-two-sessions-closed-by-the-driver", s16, func(e *vs.Exec) (string, string) {
			one := []string{"open:nil", "open:nil", "send:nil", "driver-close:nil", "isopen:false,false", "send-after-driver-close:ErrPortClosed"}
			return expectSeq(e, []string{"open:", "send:", "driver-close:", "isopen:", "send-after-driver-close:"}, append(append([]string{}, one...), one...))
		}},
		{"S3-helper-cannot-start", s3, func(e *vs.Exec) (string, string) {
			return expectSeq(e, []string{"open:", "close:", "isopen:"}, []string{"open:error", "isopen:false", "open:error", "close:nil", "open:nil", "isopen:true", "close:nil", "isopen:false"})
		}},
		{"S4-idempotent-open-close", s4, func(e *vs.Exec) (string, string) {
			return expectSeq(e, []string{"open:", "close:", "isopen:", "listen-closed:"}, []string{"open:nil", "isopen:true", "open:nil", "isopen:true", "close:nil", "isopen:false", "close:nil", "isopen:false", "open:nil", "isopen:true", "close:nil", "isopen:false", "listen-closed:ErrPortClosed"})
		}},
		{"S5-out-two-senders", s5, func(e *vs.Exec) (string, string) {
			if s, w := expectSeq(e, []string{"send-before-open:", "open:", "close:", "send-after-close:", "isopen:"}, []string{"send-before-open:ErrPortClosed", "open:nil", "open:nil", "close:nil", "close:nil", "send-after-close:ErrPortClosed", "isopen:false"}); s != "" {
				return s, w
			}
			sends := eventsOf(e, "send:")
			for _, s := range sends {
				if !strings.HasSuffix(s, ":nil") {
					return "send:error", "Send on an open port failed: " + s
				}
			}
			got := eventsOf(e, "helper-got:")
			want := "helper-got:0 900040|0 900140|0 910040"
			if len(got) != 1 || got[0] != want {
				return "send:lines", fmt.Sprintf("helper received %v, expected %v", got, want)
			}
			return "", ""
		}},
		{"S7-send-overlapping-close", s7, func(e *vs.Exec) (string, string) {
			if s, w := expectSeq(e, []string{"open:", "close:", "isopen:"}, []string{"open:nil", "close:nil", "isopen:false"}); s != "" {
				return s, w
			}
			closed := false
			for _, ev := range eventsOf(e, "send:") {
				switch {
				case strings.HasSuffix(ev, ":nil"):
					if closed {
						return "send:accepted-after-refusal", "a Send succeeded after an earlier one was refused: " + fmt.Sprint(eventsOf(e, "send:"))
					}
				case strings.HasSuffix(ev, ":ErrPortClosed"):
					closed = true
				default:
					return "send:error", "Send overlapping with Close returned an unexpected error: " + ev
				}
			}
			return "", ""
		}},
		{"S8-out-start-fails-while-sending", s8, func(e *vs.Exec) (string, string) {
			if s, w := expectSeq(e, []string{"open:", "isopen:", "close:"}, []string{"open:error", "open:nil", "isopen:true", "close:nil"}); s != "" {
				return s, w
			}
			return expectSeq(e, []string{"send:"}, []string{"send:ErrPortClosed"})
		}},
		{"S9-stale-stop-after-reopen", s9, func(e *vs.Exec) (string, string) {
			return expectSeq(e, []string{"open:", "listen1:", "close:", "stop1-"}, []string{"open:nil", "listen1:nil", "stop1-returned", "close:nil", "open:nil", "stop1-again-returned", "close:nil", "stop1-after-close-returned"})
		}},
		{"S6-driver-close", s6, func(e *vs.Exec) (string, string) {
			if s, w := deliveryRules(e); s != "" {
				return s, w
			}
			return expectSeq(e, []string{"open:", "listen1:", "driver-close:", "isopen:"}, []string{"open:nil", "open:nil", "listen1:nil", "driver-close:nil", "isopen:false/false"})
		}},
	}
}

// exploreScenario runs the explorer on one scenario.
func exploreScenario(sc scenario, bound int, maxExec int64, starts [][]int) {
	devnull, _ := os.OpenFile(os.DevNull, os.O_WRONLY, 0)
	saved := os.Stdout
	os.Stdout = devnull // the driver prints "port closed" on every refused Send
	outcomes := map[string]bool{}
	x := &vs.Explorer{Body: sc.body, Bound: bound, UseCache: true, MaxSteps: 3000, MaxExec: maxExec, Starts: starts}
	x.OnExec = func(e *vs.Exec) {
		ctx.Eval()
		sig, what := "", ""
		switch {
		case e.PanicVal != "":
			sig, what = "sched:panic:"+sc.name, "panic in a thread: "+e.PanicVal+"\n"+e.PanicStack
		case e.Deadlock != "":
			sig, what = "hang:"+sc.name+":"+blockedOp(e.Deadlock), "no thread can run while the harness has not finished: "+e.Deadlock
		case e.HorizonHit:
			ctx.Add("horizon_hits", 1)
		case e.CutByCache:
		default:
			if !e.MainDone {
				return
			}
			outcomes[strings.Join(e.Events, ";")] = true
			sig, what = sc.check(e)
			if sig != "" {
				sig = sig + ":" + sc.name
			}
		}
		if sig == "" {
			return
		}
		if ctx.SigCount(sig) < 3 {
			// believe a violation only if its schedule replays identically twice
			a, b, same := vs.ReplayTwice(e.Choices(), sc.body, 3000)
			if !same {
				ctx.Guard(false, "schedule of %s does not replay deterministically: %v vs %v", sc.name, a.Events, b.Events)
				return
			}
			ctx.Violation(sig, map[string]interface{}{"kind": "schedule", "scenario": sc.name, "choices": e.Choices(), "schedule": e.Describe(), "events": e.Events, "what": what})
		}
	}
	x.Run()
	os.Stdout = saved
	if x.HardError != "" {
		ctx.Guard(false, "scheduler replay divergence in %s: %s", sc.name, x.HardError)
	}
	ctx.Add("schedules", x.Executions)
	ctx.Add("schedules_complete", x.Complete)
	ctx.Add("schedules_cut_by_cache", x.Cut)
	ctx.Add("hb_states", x.Cache.States)
	ctx.Add("states", x.Cache.States)
	ctx.Add("transitions", x.Executions)
	ctx.Add("distinct_outcomes", int64(len(outcomes)))
	ctx.Add("sched:"+sc.name+":schedules", x.Executions)
	ctx.Add("sched:"+sc.name+":hb_states", x.Cache.States)
	ctx.Add("sched:"+sc.name+":outcomes", int64(len(outcomes)))
	ctx.Max("max:sched_depth", int64(x.MaxDepth))
	if x.Capped {
		ctx.NotExhaustive(fmt.Sprintf("scenario %s: execution cap %d reached", sc.name, maxExec))
	}
	fmt.Fprintf(os.Stdout, "scenario %-26s bound=%d schedules=%d complete=%d cut=%d hb_states=%d outcomes=%d depth=%d capped=%v\n",
		sc.name, bound, x.Executions, x.Complete, x.Cut, x.Cache.States, len(outcomes), x.MaxDepth, x.Capped)
}

func blockedOp(d string) string {
	// "[main blocked in Lock] ..." -> Lock
	i := strings.Index(d, "[main blocked in ")
	if i < 0 {
		return "unknown"
	}
	r := d[i+len("[main blocked in "):]
	if j := strings.Index(r, "]"); j >= 0 {
		r = r[:j]
	}
	return r
}

// replaySchedule re-executes one recorded schedule of one scenario, twice, and
// judges it with the scenario's oracle.
func replaySchedule(m map[string]interface{}) {
	name, _ := m["scenario"].(string)
	var choices []int
	for _, c := range m["choices"].([]interface{}) {
		choices = append(choices, int(c.(float64)))
	}
	for _, sc := range scenarios() {
		if sc.name != name {
			continue
		}
		devnull, _ := os.OpenFile(os.DevNull, os.O_WRONLY, 0)
		saved := os.Stdout
		os.Stdout = devnull
		a, b, same := vs.ReplayTwice(choices, sc.body, 3000)
		os.Stdout = saved
		fmt.Println("events:", a.Events)
		fmt.Println("deadlock:", a.Deadlock, "panic:", a.PanicVal, "diverged:", a.Diverged)
		if !same {
			fmt.Println("REPLAY: the schedule does not reproduce (second run:", b.Events, ")")
			return
		}
		sig, what := "", ""
		switch {
		case a.Diverged != "":
			fmt.Println("REPLAY: the schedule no longer fits the code (", a.Diverged, ")")
			return
		case a.PanicVal != "":
			sig, what = "sched:panic:"+sc.name, a.PanicVal
		case a.Deadlock != "":
			sig, what = "hang:"+sc.name+":"+blockedOp(a.Deadlock), a.Deadlock
		case a.MainDone:
			sig, what = sc.check(a)
			if sig != "" {
				sig += ":" + sc.name
			}
		}
		if sig == "" {
			fmt.Println("REPLAY: property holds for this schedule")
			return
		}
		fmt.Println("REPLAY: violated:", sig, what)
		ctx.Violation(sig, m)
		return
	}
	fmt.Println("unknown scenario", name)
}
