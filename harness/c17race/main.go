// c17race: race pass of C17 (complement to the scheduler exploration, which
// cannot see unsynchronised accesses because its hand-offs are happens-before
// edges). The UNMODIFIED midicatdrv, built with -race, runs every
// protocol-respecting history up to a bounded length, with two concurrent
// senders on the out port and the stand-in helper writing continuously.
// Schedules are whatever the Go runtime produces (sampled): exhaustive=false.
package main

import (
	"fmt"
	"os"
	"strconv"
	"sync"
	"syscall"
	"time"

	"gitlab.com/gomidi/midi/v2"
	"gitlab.com/gomidi/midi/v2/drivers"
	"gitlab.com/gomidi/midi/v2/drivers/midicatdrv"
)

const (
	opInOpen = iota
	opListen
	opWait
	opStop
	opInClose
	opOutOpen
	opSenders
	opOutClose
	opIsOpen
	nOps
)

var names = []string{"in.Open", "Listen", "wait", "stop", "in.Close", "out.Open", "2-senders", "out.Close", "IsOpen"}

type state struct {
	inOpen, outOpen bool
	listener        int // 0 none 1 active 2 stopped
}

func enabled(s state, op int) bool {
	switch op {
	case opListen:
		return s.inOpen && s.listener != 1
	case opStop:
		return s.listener == 1
	case opInClose:
		return s.listener != 1
	case opWait:
		return s.listener == 1
	case opSenders:
		return true
	}
	return true
}

func next(s state, op int) state {
	switch op {
	case opInOpen:
		s.inOpen = true
	case opInClose:
		s.inOpen = false
		s.listener = 0
	case opListen:
		s.listener = 1
	case opStop:
		s.listener = 2
	case opOutOpen:
		s.outOpen = true
	case opOutClose:
		s.outOpen = false
	}
	return s
}

func histories(maxLen int) [][]int {
	var out [][]int
	var rec func(s state, h []int)
	rec = func(s state, h []int) {
		if len(h) > 0 {
			out = append(out, append([]int(nil), h...))
		}
		if len(h) == maxLen {
			return
		}
		for op := 0; op < nOps; op++ {
			if !enabled(s, op) {
				continue
			}
			// prune histories that repeat an idempotent operation three times
			if len(h) >= 2 && h[len(h)-1] == op && h[len(h)-2] == op {
				continue
			}
			rec(next(s, op), append(h, op))
		}
	}
	rec(state{}, nil)
	return out
}

// reap collects the helper processes the driver has killed and left behind
// (it never waits for them; every open/close would otherwise leave a zombie
// until this process ends, and a long pass runs into the system's process
// limit). Called between histories only, when no driver call is in flight
// that could be waiting for a child of its own.
func reap() {
	for {
		var ws syscall.WaitStatus
		pid, err := syscall.Wait4(-1, &ws, syscall.WNOHANG, nil)
		if pid <= 0 || err != nil {
			return
		}
	}
}

func run(h []int) (delivered int) {
	defer reap()
	drv, err := midicatdrv.New()
	if err != nil {
		panic(err)
	}
	ins, _ := drv.Ins()
	outs, _ := drv.Outs()
	in, out := ins[0], outs[0]
	var stop func()
	var mu sync.Mutex
	for _, op := range h {
		switch op {
		case opInOpen:
			in.Open()
		case opInClose:
			in.Close()
		case opListen:
			stop, _ = in.Listen(func(b []byte, ts int32) { mu.Lock(); delivered++; mu.Unlock() }, drivers.ListenConfig{})
		case opWait:
			time.Sleep(2 * time.Millisecond)
		case opStop:
			if stop != nil {
				stop()
			}
		case opOutOpen:
			out.Open()
		case opOutClose:
			out.Close()
		case opIsOpen:
			go in.IsOpen()
			out.IsOpen()
		case opSenders:
			var wg sync.WaitGroup
			for s := 0; s < 2; s++ {
				wg.Add(1)
				go func(s int) {
					defer wg.Done()
					for k := 0; k < 3; k++ {
						out.Send([]byte{0x90 | byte(s), byte(k), 1})
					}
				}(s)
			}
			wg.Wait()
		}
	}
	// leave nothing running
	if stop != nil {
		stop()
	}
	drv.Close()
	mu.Lock()
	defer mu.Unlock()
	return delivered
}

// twoPorts: two in ports of the process-backed driver listening at the same
// time through midi.ListenTo (two reader goroutines decode lines and build
// messages concurrently), plus two senders on the out port.
func twoPorts() int {
	drv, err := midicatdrv.New()
	if err != nil {
		panic(err)
	}
	ins, _ := drv.Ins()
	outs, _ := drv.Outs()
	var mu sync.Mutex
	n := 0
	var stops []func()
	for _, in := range ins {
		stop, err := midi.ListenTo(in, func(m midi.Message, ts int32) {
			var ch, k, v uint8
			m.GetNoteOn(&ch, &k, &v)
			mu.Lock()
			n++
			mu.Unlock()
		})
		if err == nil {
			stops = append(stops, stop)
		}
	}
	send, _ := midi.SendTo(outs[0])
	var wg sync.WaitGroup
	for s := 0; s < 2; s++ {
		wg.Add(1)
		go func(s int) {
			defer wg.Done()
			for k := 0; k < 20; k++ {
				send(midi.NoteOn(uint8(s), uint8(k), 100))
				send(midi.ControlChange(uint8(s), uint8(k), 1))
			}
		}(s)
	}
	wg.Wait()
	time.Sleep(15 * time.Millisecond)
	for _, st := range stops {
		st()
	}
	drv.Close()
	mu.Lock()
	defer mu.Unlock()
	return n
}

func main() {
	maxLen, _ := strconv.Atoi(os.Getenv("RACE_MAXLEN"))
	if maxLen == 0 {
		maxLen = 4
	}
	reps, _ := strconv.Atoi(os.Getenv("RACE_REPS"))
	if reps == 0 {
		reps = 1
	}
	budget, _ := strconv.Atoi(os.Getenv("RACE_BUDGET_S"))
	if budget == 0 {
		budget = 20
	}
	seed, _ := strconv.Atoi(os.Getenv("VERIF_SEED"))
	hs := histories(maxLen)
	// the seed only rotates the order in which the enumerated histories are run
	if seed > 0 && len(hs) > 0 {
		k := seed % len(hs)
		hs = append(hs[k:], hs[:k]...)
	}
	devnull, _ := os.OpenFile(os.DevNull, os.O_WRONLY, 0)
	saved := os.Stdout
	os.Stdout = devnull
	start := time.Now()
	runs, total := 0, 0
	hang := func(what string) {
		os.Stdout = saved
		fmt.Printf("RACE-PASS-HANG history=%s\n", what)
		os.Exit(3)
	}
	for i := 0; i < 5; i++ {
		ch := make(chan int, 1)
		go func() { ch <- twoPorts() }()
		select {
		case d := <-ch:
			total += d
		case <-time.After(60 * time.Second):
			hang("two in ports listening, two senders, stop, Driver.Close")
		}
		runs++
	}
	done := 0
	for _, h := range hs {
		if time.Since(start) > time.Duration(budget)*time.Second {
			break
		}
		for r := 0; r < reps; r++ {
			// watchdog: no call may block forever
			ch := make(chan int, 1)
			go func() { ch <- run(h) }()
			select {
			case d := <-ch:
				total += d
			case <-time.After(60 * time.Second):
				hn := ""
				for _, op := range h {
					hn += names[op] + " "
				}
				hang(hn)
			}
			runs++
		}
		done++
	}
	os.Stdout = saved
	fmt.Printf("RACE-PASS histories=%d of=%d runs=%d delivered=%d maxlen=%d\n", done, len(hs), runs, total, maxLen)
}
