// C18 — checksummed and fixed-layout sysex helpers parse what they build.
package main

import (
	"bytes"
	"fmt"

	"gitlab.com/gomidi/midi/v2"
	cc "gitlab.com/gomidi/midi/v2/internal/verifh/conccases"
	cp "gitlab.com/gomidi/midi/v2/internal/verifh/concpairs"
	"gitlab.com/gomidi/midi/v2/internal/verifh/disturb"
	"gitlab.com/gomidi/midi/v2/internal/verifh/engine"
	"gitlab.com/gomidi/midi/v2/mmc"
	"gitlab.com/gomidi/midi/v2/sysex"
)

var ctx *engine.Ctx

func report(sig string, v interface{}, b []byte, what string) {
	if ctx.SigCount(sig) < 10 {
		bb := b
		if len(bb) > 48 {
			bb = bb[:48]
		}
		ctx.Violation(sig, map[string]interface{}{"kind": "sysex", "value": fmt.Sprintf("%+v", v), "bytes_head": engine.Hex(bb), "len": len(b), "what": what})
	}
}

func pattern(n, pat int) []byte {
	b := make([]byte, n)
	for i := range b {
		switch pat {
		case 0:
			b[i] = 0
		case 1:
			b[i] = 0x7F
		case 3:
			// bytes with the high bit set, sysex delimiters among them (no sender
			// should produce them, but building and parsing are plain byte work)
			b[i] = []byte{0x00, 0xF7, 0xF0, 0x80, 0xFF, 0x7F, 0xF0, 0xF7}[i%8]
		default:
			b[i] = byte(i*5+1) & 0x7F
		}
	}
	return b
}

// judge checks one value: parse(build(v)) == v, checksum relation; with
// corrupt: every single-byte corruption of address, payload and checksum fails.
func judge(v sysex.Manufacturer, corrupt bool) {
	ctx.Eval()
	var b []byte
	var p *sysex.Manufacturer
	var err error
	c := engine.Catch(func() { b = v.SysEx(); p, err = sysex.Parse(b) })
	kind := "data-set"
	if v.InfoRequest {
		kind = "data-request"
	}
	if c.Panicked {
		report(c.Sig+":"+kind, v, b, "panicked: "+c.Value)
		return
	}
	// layout and checksum relation
	if len(b) < 11 || b[0] != 0xF0 || b[len(b)-1] != 0xF7 {
		report("build:layout:"+kind, v, b, "not F0 ... F7")
		return
	}
	sum := 0
	for _, x := range b[5 : len(b)-1] {
		sum += int(x)
	}
	if sum%128 != 0 {
		report("build:checksum:"+kind, v, b, fmt.Sprintf("address+payload+checksum = %d, not 0 mod 128", sum))
		return
	}
	if err != nil {
		report("parse:rejects-own-output:"+kind, v, b, "Parse fails on the bytes built from the value: "+err.Error())
		return
	}
	// the payload handed in belongs to the caller, including the memory behind
	// it (chunks of one dump buffer): building must not write there
	if !v.InfoRequest {
		arg, touched := engine.Spare(v.SendingData, 4)
		w := v
		w.SendingData = arg
		b2 := w.SysEx()
		if t := touched(); t != "" {
			report("build:writes-into-argument:"+kind, v, b2, "SysEx() on a payload slice with spare capacity: "+t)
			return
		}
		if !bytes.Equal(b2, b) {
			report("build:depends-on-capacity:"+kind, v, b2, "the same value built from a payload slice with spare capacity gives other bytes")
			return
		}
	}
	// the inner bytes of the message wrapped once more by the generic sysex
	// constructor (a caller that re-frames a dump): the constructor must not
	// write into its argument or behind it - the argument here is a piece of b
	// itself, with the closing F7 behind it - and gives the same message
	if len(b) >= 2 {
		before := append([]byte(nil), b...)
		re := midi.SysEx(b[1 : len(b)-1])
		if !bytes.Equal(b, before) {
			report("build:generic-constructor-writes-into-argument:"+kind, v, before, "midi.SysEx(inner bytes of the built message) changed the built message to "+engine.Hex(b[:min(len(b), 24)]))
			copy(b, before)
			return
		}
		if !bytes.Equal(re, before) {
			report("build:generic-constructor:"+kind, v, re, "midi.SysEx(inner bytes) does not give the message back")
			return
		}
		arg, touched := engine.Spare(before[1:len(before)-1], 4)
		_ = midi.SysEx(arg)
		if t := touched(); t != "" {
			report("build:generic-constructor-writes-into-argument:"+kind, v, before, "midi.SysEx on a slice with spare capacity: "+t)
			return
		}
	}
	// the bytes handed out must stay what they were when another message is
	// built and parsed afterwards (no shared scratch buffer)
	keep := append([]byte(nil), b...)
	other := v
	other.Address[2] ^= 0x15
	other.DeviceID ^= 1
	ob := other.SysEx()
	_, _ = sysex.Parse(ob)
	if !bytes.Equal(b, keep) {
		report("build:aliasing:"+kind, v, keep, "the bytes returned by SysEx() changed when the next message was built: now "+engine.Hex(b))
		return
	}
	if p2, err2 := sysex.Parse(b); err2 != nil || p2.Address != v.Address || p2.DeviceID != v.DeviceID {
		report("build:aliasing:"+kind, v, keep, "a message built earlier no longer parses to its value after another one was built")
		return
	}
	same := p.ManufacturerID == v.ManufacturerID && p.DeviceID == v.DeviceID && p.ModelID == v.ModelID && p.InfoRequest == v.InfoRequest && p.Address == v.Address
	if v.InfoRequest {
		same = same && p.NumReqBytes == v.NumReqBytes
	} else {
		same = same && bytes.Equal(p.SendingData, v.SendingData)
	}
	if !same {
		report("parse:value:"+kind, v, b, fmt.Sprintf("parsed %+v", *p))
		return
	}
	// a parsed value belongs to the caller: scribbling over it must not change
	// what the package builds or parses afterwards
	for i := range p.SendingData {
		p.SendingData[i] ^= 0x55
	}
	p.Address[0] ^= 0x2A
	copy(b, keep) // Parse hands out a view into its input: undo the scribbling there
	b2 := v.SysEx()
	p2, err2 := sysex.Parse(b2)
	ok2 := err2 == nil && p2.Address == v.Address
	if ok2 && !v.InfoRequest {
		ok2 = bytes.Equal(p2.SendingData, v.SendingData)
	}
	if !ok2 {
		report("parse:result-shared:"+kind, v, b2, "after modifying a parsed value, building and parsing the same message again gives something else")
		return
	}
	// the payload is changed in place (same slice, same length) and the value
	// built again: the new bytes must carry the new payload and its checksum
	if !v.InfoRequest && len(v.SendingData) > 0 {
		own := append([]byte(nil), v.SendingData...)
		w := v
		w.SendingData = own
		_ = w.SysEx()
		own[len(own)/2] = (own[len(own)/2] + 1) & 0x7F
		b3 := w.SysEx()
		sum3 := 0
		for _, x := range b3[5 : len(b3)-1] {
			sum3 += int(x)
		}
		p3, err3 := sysex.Parse(b3)
		if sum3%128 != 0 || err3 != nil || !bytes.Equal(p3.SendingData, own) {
			report("build:stale-after-payload-edit:"+kind, w, b3, fmt.Sprintf("after the payload was changed in place, SysEx() gives bytes whose sum is %d mod 128, parse error %v", sum3%128, err3))
			return
		}
	}
	if !corrupt {
		return
	}
	for pos := 5; pos <= len(b)-2; pos++ {
		orig := b[pos]
		for x := 0; x < 128; x++ {
			if byte(x) == orig {
				continue
			}
			b[pos] = byte(x)
			ctx.Eval()
			var e2 error
			c := engine.Catch(func() { _, e2 = sysex.Parse(b) })
			if c.Panicked {
				report(c.Sig+":corrupted", v, b, "Parse panicked on corrupted input: "+c.Value)
			} else if e2 == nil {
				where := "payload"
				if pos < 8 {
					where = "address"
				} else if pos == len(b)-2 {
					where = "checksum"
				}
				report("corruption-accepted:"+where+":"+kind, v, b, fmt.Sprintf("byte %d changed from %02X to %02X and Parse still succeeds", pos, orig, x))
			}
			ctx.NontrivialN(1)
		}
		b[pos] = orig
	}
}

func base(req bool) sysex.Manufacturer {
	v := sysex.Manufacturer{ManufacturerID: 0x41, DeviceID: 0x10, ModelID: 0x42, InfoRequest: req, Address: [3]byte{0x40, 0x00, 0x7F}}
	if req {
		v.NumReqBytes = [3]byte{0, 0, 4}
	} else {
		v.SendingData = []byte{0x00, 0x33}
	}
	return v
}

func roland(part, parts int) {
	for _, req := range []bool{false, true} {
		if part == 0 {
			for x := 0; x < 128; x++ {
				v := base(req)
				v.ManufacturerID = sysex.ManufacturerID(x)
				judge(v, false)
				v = base(req)
				v.DeviceID = byte(x)
				judge(v, false)
				v = base(req)
				v.ModelID = byte(x)
				judge(v, false)
			}
			judge(sysex.GMReset, true)
		}
		// addresses
		if ctx.Thorough() {
			for a := part; a < 128; a += parts {
				for b := 0; b < 128; b++ {
					for c := 0; c < 128; c++ {
						v := base(req)
						v.Address = [3]byte{byte(a), byte(b), byte(c)}
						judge(v, false)
					}
				}
			}
		} else {
			for f := 0; f < 3; f++ {
				for x := part; x < 128; x += parts {
					v := base(req)
					v.Address[f] = byte(x)
					judge(v, x%16 == 0)
				}
			}
		}
	}
	// payload lengths 1..512 x three content patterns (data-set); request sizes
	for n := 1 + part; n <= 512; n += parts {
		for pat := 0; pat < 4; pat++ {
			v := base(false)
			v.SendingData = pattern(n, pat)
			judge(v, (n <= 8 || n == 128 || n == 512) && pat < 3)
		}
	}
	// long payloads with dense contents (sums that pass 2^15, 2^16, 2^20 in
	// any accumulator an implementation may choose): lengths around every
	// power of two up to 2^20 and a few thousand others x five constant fills
	// and the varied pattern
	{
		var lens []int
		for sh := 9; sh <= 20; sh++ {
			for d := -2; d <= 2; d++ {
				lens = append(lens, 1<<sh+d)
			}
		}
		lens = append(lens, 516, 517, 1032, 2063, 2064, 2065, 2500, 3000, 4127, 4128, 4129, 5000, 8256, 10000, 20000, 33000, 70000, 100000)
		if ctx.Thorough() {
			for n := 513; n <= 9000; n++ {
				lens = append(lens, n)
			}
		}
		k := 0
		for _, n := range lens {
			for _, fill := range []int{0x7F, 0x7E, 0x60, 0x40, 0x01, -1} {
				k++
				if k%parts != part {
					continue
				}
				v := base(false)
				if fill < 0 {
					v.SendingData = pattern(n, 2)
				} else {
					v.SendingData = bytes.Repeat([]byte{byte(fill)}, n)
				}
				judge(v, false)
				ctx.Add("long_dense_payloads", 1)
			}
		}
	}
	for f := 0; f < 3; f++ {
		for x := part; x < 128; x += parts {
			v := base(true)
			v.NumReqBytes[f] = byte(x)
			judge(v, x%32 == 1)
		}
	}
	// address x size: every address over a set of boundary bytes with payloads
	// (data set) and requested sizes (request) that stay inside, reach and pass
	// the end of the 21-bit address space seen from there
	edge := []byte{0x00, 0x01, 0x3F, 0x40, 0x7E, 0x7F}
	k := 0
	for _, a0 := range edge {
		for _, a1 := range edge {
			for _, a2 := range edge {
				k++
				if k%parts != part {
					continue
				}
				for _, n := range []int{1, 2, 3, 127, 128, 129, 255, 256, 257, 16383, 16384, 16385} {
					v := base(false)
					v.Address = [3]byte{a0, a1, a2}
					v.SendingData = pattern(n, 0)
					judge(v, false)
				}
				for _, sz := range [][3]byte{{0, 0, 1}, {0, 0, 2}, {0, 1, 0}, {0, 1, 1}, {1, 0, 0}, {0x7F, 0x7F, 0x7F}, {0, 0x7F, 0x7F}} {
					v := base(true)
					v.Address = [3]byte{a0, a1, a2}
					v.NumReqBytes = sz
					judge(v, false)
				}
			}
		}
	}
	if part == 0 {
		// a value that carries the fields of the other kind as well (a parsed
		// request answered by filling in the data, a data-set that still has size
		// bytes): only the fields of its own kind are on the wire
		v := base(false)
		v.SendingData = []byte{1, 2, 3}
		v.NumReqBytes = [3]byte{0x01, 0x02, 0x03}
		judge(v, true)
		w := base(true)
		w.NumReqBytes = [3]byte{0, 0, 5}
		w.SendingData = []byte{9, 9}
		judge(w, true)
		// every model id 0..127 with addresses that look like command bytes
		for model := 0; model < 128; model++ {
			for _, a0 := range []byte{0x00, 0x11, 0x12, 0x41, 0x7F} {
				for _, req := range []bool{false, true} {
					x := base(req)
					x.ModelID = byte(model)
					x.Address[0] = a0
					if !req {
						x.SendingData = []byte{0x12, 0x11, 0x00}
					}
					judge(x, model < 2 || model == 0x42)
				}
			}
		}
	}
}

func mmcChecks(part, parts int) {
	devs := []byte{0, 1, 127}
	var reused mmc.GoTo // one receiver for all messages (like a long-lived device object)
	one := func(g mmc.GoTo) {
		ctx.Eval()
		var back mmc.GoTo
		b := g.SysEx()
		if err := back.Parse(b); err != nil || back != g {
			report("mmc:locate", g, b, fmt.Sprintf("Parse(SysEx()) gives %+v, err %v", back, err))
		}
		if err := reused.Parse(b); err != nil || reused != g {
			report("mmc:locate:receiver-reused", g, b, fmt.Sprintf("parsing into a receiver that held an earlier message gives %+v, err %v", reused, err))
		}
	}
	if ctx.Thorough() {
		for h := part; h < 24; h += parts {
			for m := 0; m < 60; m++ {
				for s := 0; s < 60; s++ {
					for f := 0; f < 30; f++ {
						for sf := 0; sf < 100; sf++ {
							one(mmc.GoTo{DeviceID: devs[(h+m)%3], Hour: byte(h), Minute: byte(m), Second: byte(s), Frame: byte(f), SubFrame: byte(sf)})
						}
					}
				}
			}
		}
	}
	// boundary product: every field takes every value of a set of 7-bit
	// boundary values (bit-field edges of the hour byte: time-code type in bits
	// 5-6; of the frame byte: sign bit 6, status bit 5; decimal edges), all five
	// fields together; plus all pairs of fields over the full 7-bit range on
	// three bases.
	edge := []int{0, 1, 2, 9, 10, 11, 0x1D, 0x1E, 0x1F, 0x20, 0x21, 0x3B, 0x3C, 0x3F, 0x40, 0x41, 0x5F, 0x60, 0x61, 0x7E, 0x7F}
	if ctx.Thorough() {
		edge = edge[:0]
		for v := 0; v < 128; v++ {
			if m := v % 8; m <= 2 || m == 7 || v == 9 || v == 10 || v == 11 || v == 0x1D || v == 0x1E || v == 0x3B || v == 0x3C {
				edge = append(edge, v)
			}
		}
	}
	for hi := part; hi < len(edge); hi += parts {
		for _, m := range edge {
			for _, sc := range edge {
				for _, f := range edge {
					for _, sf := range edge {
						one(mmc.GoTo{DeviceID: devs[(m+f)%3], Hour: byte(edge[hi]), Minute: byte(m), Second: byte(sc), Frame: byte(f), SubFrame: byte(sf)})
					}
				}
			}
		}
	}
	for f1 := 0; f1 < 5; f1++ {
		for f2 := f1 + 1; f2 < 5; f2++ {
			if (f1*5+f2)%parts != part {
				continue
			}
			for _, bs := range [][5]int{{0, 0, 0, 0, 0}, {0x41, 1, 0, 1, 1}, {0x7F, 0x7F, 0x7F, 0x7F, 0x7F}} {
				for x := 0; x < 128; x++ {
					for y := 0; y < 128; y++ {
						a := bs
						a[f1], a[f2] = x, y
						one(mmc.GoTo{DeviceID: 1, Hour: byte(a[0]), Minute: byte(a[1]), Second: byte(a[2]), Frame: byte(a[3]), SubFrame: byte(a[4])})
					}
				}
			}
		}
	}
	if part == 0 {
		// every ordered pair of device ids through the same receiver
		ids := []byte{1, 2, 64, 126, 127, 0, 1, 126, 2}
		for _, a := range ids {
			for _, b := range ids {
				one(mmc.GoTo{DeviceID: a, Hour: 1, Minute: 2, Second: 3, Frame: 4, SubFrame: 5})
				one(mmc.GoTo{DeviceID: b, Hour: 5, Minute: 4, Second: 3, Frame: 2, SubFrame: 1})
			}
		}
		maxes := []int{24, 60, 60, 30, 100}
		for _, d := range devs {
			for _, bs := range [][5]int{{0, 0, 0, 0, 0}, {23, 59, 59, 29, 99}} {
				for f := 0; f < 5; f++ {
					for x := 0; x < maxes[f]; x++ {
						a := bs
						a[f] = x
						one(mmc.GoTo{DeviceID: d, Hour: byte(a[0]), Minute: byte(a[1]), Second: byte(a[2]), Frame: byte(a[3]), SubFrame: byte(a[4])})
					}
				}
			}
		}
		// several messages are built before the first one is looked at again
		{
			var built [][]byte
			var vals []mmc.Message
			for _, v := range []mmc.Message{{DeviceID: 1, Command: mmc.PlayCmd}, {DeviceID: 2, Command: mmc.StopCmd}, {DeviceID: 127, Command: mmc.Command(0x09)}} {
				built = append(built, v.SysEx())
				vals = append(vals, v)
			}
			var locs [][]byte
			gs := []mmc.GoTo{{DeviceID: 1, Hour: 1, Minute: 2, Second: 3, Frame: 4, SubFrame: 5}, {DeviceID: 9, Hour: 9, Minute: 8, Second: 7, Frame: 6, SubFrame: 5}}
			for _, g := range gs {
				locs = append(locs, g.SysEx())
			}
			for i, b := range built {
				ctx.Eval()
				var back mmc.Message
				if err := back.Parse(b); err != nil || back.DeviceID != vals[i].DeviceID || back.Command != vals[i].Command {
					report("mmc:command:results-share-memory", vals[i], b, fmt.Sprintf("three commands were built one after the other; the bytes of number %d now parse as %+v (%v)", i+1, back, err))
				}
			}
			for i, b := range locs {
				var back mmc.GoTo
				if err := back.Parse(b); err != nil || back != gs[i] {
					report("mmc:locate:results-share-memory", gs[i], b, fmt.Sprintf("two locates were built one after the other; the bytes of number %d now parse as %+v (%v)", i+1, back, err))
				}
			}
		}
		// one receiver for everything: first a response (written by hand, the
		// package does not build them), then commands
		var held mmc.Message
		engine.Catch(func() { held.Parse([]byte{0xF0, 0x7F, 0x05, 0x07, 0x01, 0x02, 0xF7}) })
		for dev := 1; dev <= 127; dev++ {
			for cmd := 1; cmd < 0x40; cmd++ {
				ctx.Eval()
				v := mmc.Message{DeviceID: byte(dev), Command: mmc.Command(cmd)}
				b := v.SysEx()
				if dev%16 == 3 && cmd%8 == 1 {
					engine.Catch(func() { held.Parse([]byte{0xF0, 0x7F, byte(dev), 0x07, byte(cmd), 0x02, 0xF7}) })
				}
				var fresh mmc.Message
				e1 := fresh.Parse(b)
				var e2 error
				ch := engine.Catch(func() { e2 = held.Parse(b) })
				if ch.Panicked || (e1 == nil) != (e2 == nil) || e1 == nil && (held.DeviceID != fresh.DeviceID || held.Command != fresh.Command || held.IsResponse != fresh.IsResponse || !bytes.Equal(held.Data, fresh.Data)) {
					report("mmc:command:receiver-reused", v, b, fmt.Sprintf("parsed into a fresh value: %+v (%v); into one that held a response before: %+v (%v) %s", fresh, e1, held, e2, ch.Value))
				}
				var back mmc.Message
				var err error
				c := engine.Catch(func() { err = back.Parse(b) })
				if c.Panicked {
					report(c.Sig+":mmc-command", v, b, "panicked: "+c.Value)
					continue
				}
				if err != nil {
					report("mmc:command:rejects-own-output", v, b, "Parse fails on the bytes built from the value: "+err.Error())
					continue
				}
				if back.DeviceID != v.DeviceID || back.Command != v.Command || back.IsResponse || len(back.Data) != 0 {
					report("mmc:command:value", v, b, fmt.Sprintf("parsed %+v", back))
				}
			}
		}
	}
}

func main() {
	ctx = engine.Start("C18", "exploration")
	disturb.Install(ctx)
	if ctx.ReplayPath != "" {
		if cp.Replay(ctx, ctx.LoadReplay(), "sysex", cc.Sysex()) {
			ctx.Finish("replay")
		}
		m := ctx.LoadReplay()
		fmt.Println("sysex case:", m["value"], "-", m["what"], "(pure function of the value; re-run ./run C18 quick)")
		return
	}
	ctx.Assume("a corruption replaces one address, payload or checksum byte by another 7-bit value")
	ctx.Jobs("concurrent", 1, func(int) {
		cp.Litmus(ctx)
		cp.Check(ctx, "sysex", cc.Sysex())
	})
	ctx.Jobs("roland", 16, func(j int) { roland(j, 16) })
	ctx.Jobs("mmc", 8, func(j int) { mmcChecks(j, 8) })
	if !ctx.IsChild() {
		ctx.RacePairs("sysex")
	}
	ctx.Sample(map[string]interface{}{"value": "GMReset {41 10 42 data-set 40 00 7F [00]}", "bytes": "F0 41 10 42 12 40 00 7F 00 41 F7", "corruptions": "each of bytes 5..9 replaced by each of the 127 other 7-bit values"})
	ctx.Guard(ctx.NontrivialCount() > 10000, "too few corruptions tried")
	ctx.Finish("manufacturer/device/model ids 0..127 each; every address byte 0..127 (thorough: all 128^3 addresses); payload lengths 1..512 x 3 patterns; request sizes; data-set and data-request; every single-byte corruption (127 values per position) of address, payload and checksum for a representative subset; MMC locate over every field (thorough: all 24x60x60x30x100 time codes) x device ids {0,1,127}; MMC commands 1..0x3F x devices 1..127; non-trivial = corruptions tried")
}
