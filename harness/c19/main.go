// C19 — the midicat text line protocol is lossless and self-framing.
package main

import (
	"bufio"
	"bytes"
	"fmt"
	"io"
	"os"
	"strconv"
	"strings"

	"gitlab.com/gomidi/midi/v2/drivers/midicat"
	cc "gitlab.com/gomidi/midi/v2/internal/verifh/conccases"
	cp "gitlab.com/gomidi/midi/v2/internal/verifh/concpairs"
	"gitlab.com/gomidi/midi/v2/internal/verifh/disturb"
	"gitlab.com/gomidi/midi/v2/internal/verifh/engine"
	"gitlab.com/gomidi/midi/v2/internal/verifh/faultio"
)

var ctx *engine.Ctx

type record struct {
	ts  int32
	msg []byte
}

func encode(r record) string { return fmt.Sprintf("%d %X\n", r.ts, r.msg) }

type result struct {
	ok  bool
	rec record
	eof bool
	err string
}

// decodeAll calls ReadAndConvert until io.EOF (or a call budget).
func decodeAll(rd io.Reader, budget int) (res []result, c engine.Caught) {
	c = engine.Catch(func() {
		for i := 0; i < budget; i++ {
			out, ts, err := midicat.ReadAndConvert(rd)
			if err == io.EOF {
				// may be the end of the stream or the library's way to reject a line:
				// keep calling, trailing EOF results are stripped by the caller
				res = append(res, result{eof: true})
				continue
			}
			if err != nil {
				res = append(res, result{err: err.Error()})
				continue
			}
			res = append(res, result{ok: true, rec: record{ts, out}})
		}
	})
	return
}

func report(sig string, stream string, cuts []int, what string) {
	if ctx.SigCount(sig) < 10 {
		s := stream
		if len(s) > 120 {
			s = s[:120] + "..."
		}
		ctx.Violation(sig, map[string]interface{}{"kind": "lines", "stream": strconv.Quote(s), "stream_hex": engine.Hex([]byte(stream[:min(len(stream), 200)])), "stream_len": len(stream), "cuts": cuts, "what": what})
	}
}

// lossless checks that a sequence of records decodes back, one per call.
func lossless(recs []record, allCuts bool) {
	var sb strings.Builder
	for _, r := range recs {
		sb.WriteString(encode(r))
	}
	stream := sb.String()
	check := func(rd io.Reader, cuts []int) {
		ctx.Eval()
		res, c := decodeAll(rd, len(recs)+3)
		if c.Panicked {
			report(c.Sig+":valid-stream", stream, cuts, "panicked: "+c.Value)
			return
		}
		for i, r := range recs {
			if i >= len(res) || !res[i].ok || res[i].rec.ts != r.ts || !bytes.Equal(res[i].rec.msg, r.msg) {
				what := "missing"
				if i < len(res) {
					what = fmt.Sprintf("%+v", res[i])
				}
				report("lossless:record:"+lenClass(len(r.msg)), stream, cuts, fmt.Sprintf("record %d (%d, %d bytes) decoded as %s", i, r.ts, len(r.msg), what))
				return
			}
		}
		for _, r := range res[len(recs):] {
			if r.ok {
				report("lossless:framing", stream, cuts, fmt.Sprintf("extra result %+v after the %d records", r, len(recs)))
				break
			}
		}
		// records belong to whoever read them, spare capacity included
		if len(recs) <= 64 {
			var ms [][]byte
			for _, r := range res[:len(recs)] {
				ms = append(ms, r.rec.msg)
			}
			if d := engine.Disjoint(ms); d != "" {
				report("lossless:records-share-memory", stream, cuts, d)
			}
		}
	}
	check(strings.NewReader(stream), nil)
	check(&faultio.FragReader{Data: []byte(stream), MaxPerCall: 1}, []int{-1})
	// the last byte arrives together with io.EOF; a call answers (0, nil)
	check(&faultio.FragReader{Data: []byte(stream), MaxPerCall: 1, EOFWithData: true}, []int{-2})
	check(&faultio.FragReader{Data: []byte(stream), ZeroEvery: true}, []int{-3})
	// the lines come out of an os.Pipe (a file that cannot seek), written in one
	// piece so that several lines sit in the pipe at once
	if len(stream) < 60000 {
		if pr, pw, err := os.Pipe(); err == nil {
			go func() { pw.Write([]byte(stream)); pw.Close() }()
			check(pr, []int{-6})
			io.Copy(io.Discard, pr)
			pr.Close()
		}
	}
	// the last byte arrives together with an error that is not (exactly) io.EOF
	check(&faultio.FragReader{Data: []byte(stream), MaxPerCall: 1, EOFWithData: true, FinalErr: fmt.Errorf("connection reset")}, []int{-4})
	check(&faultio.FragReader{Data: []byte(stream), MaxPerCall: 3, EOFWithData: true, FinalErr: fmt.Errorf("closed: %w", io.EOF)}, []int{-5})
	// buffered readers of several sizes (a caller may well wrap the helper's pipe)
	check(bufio.NewReaderSize(strings.NewReader(stream), 16), []int{-16})
	check(bufio.NewReaderSize(&faultio.FragReader{Data: []byte(stream), MaxPerCall: 7}, 64), []int{-64})
	if len(stream) > 200 {
		check(bufio.NewReaderSize(strings.NewReader(stream), 256), []int{-256})
		check(bufio.NewReader(strings.NewReader(stream)), []int{-4096})
	}
	if allCuts {
		n := len(stream)
		for a := 1; a < n; a++ {
			check(&faultio.FragReader{Data: []byte(stream), Cuts: []int{a}}, []int{a})
			ctx.NontrivialN(1)
			if n <= 40 {
				for b := a + 1; b < n; b++ {
					check(&faultio.FragReader{Data: []byte(stream), Cuts: []int{a, b}}, []int{a, b})
				}
			}
		}
	}
}

func lenClass(n int) string {
	switch {
	case n <= 2:
		return "short"
	case n <= 64:
		return "medium"
	}
	return "long"
}

var stamps = []int32{0, 7, -1, 1<<31 - 1, -1 << 31}

func msgPattern(n, pat int) []byte {
	fills := []byte{0x00, 0x0A, 0x20, 0x0F, 0xF0, 0xFF}
	b := make([]byte, n)
	for i := range b {
		b[i] = fills[pat]
	}
	return b
}

func losslessSpace(part, parts int) {
	// all one-byte and two-byte messages
	for v := part; v < 65536; v += parts {
		lossless([]record{{stamps[v%5], []byte{byte(v >> 8), byte(v)}}}, v%257 == 0)
		if v < 256 {
			lossless([]record{{stamps[v%5], []byte{byte(v)}}}, true)
		}
	}
	// lengths x contents
	var lens []int
	if ctx.Thorough() {
		for n := 1; n <= 2000; n++ {
			lens = append(lens, n)
		}
	} else {
		for n := 1; n <= 64; n++ {
			lens = append(lens, n)
		}
		lens = append(lens, 255, 256, 1000, 2000, 2047, 2048, 2049, 4095, 4096, 4097, 10000)
	}
	for li := part; li < len(lens); li += parts {
		for pat := 0; pat < 6; pat++ {
			for _, ts := range stamps {
				lossless([]record{{ts, msgPattern(lens[li], pat)}}, lens[li] <= 8)
			}
		}
	}
	// sequences of 2..3 records over a small message set, every time stamp
	msgs := [][]byte{{0x90, 0x3C, 0x40}, {0xF8}, {0x0A, 0x20}, {0xF0, 0x01, 0xF7}}
	// long streams: every pattern of one to three records over the set,
	// repeated to 3000 records (thorough 40000), time stamps cycling (what a
	// decoder counts, pools or grows while a stream runs)
	{
		total := ctx.Pick(3000, 40000)
		var pats [][]int
		for a := range msgs {
			pats = append(pats, []int{a})
			for b := range msgs {
				pats = append(pats, []int{a, b})
				for c := range msgs {
					pats = append(pats, []int{a, b, c})
				}
			}
		}
		for pi, pat := range pats {
			if pi%parts != part {
				continue
			}
			recs := make([]record, 0, total+3)
			for len(recs) < total {
				for _, m := range pat {
					recs = append(recs, record{stamps[len(recs)%len(stamps)], msgs[m]})
				}
			}
			lossless(recs, false)
			ctx.Add("long_record_streams", 1)
		}
	}
	n := 0
	for _, a := range msgs {
		for _, b := range msgs {
			for _, t1 := range stamps {
				for _, t2 := range stamps {
					if n%parts == part {
						lossless([]record{{t1, a}, {t2, b}}, true)
						for _, c := range msgs {
							lossless([]record{{t1, a}, {t2, b}, {t1, c}}, false)
						}
					}
					n++
				}
			}
		}
	}
}

// --- malformed lines --------------------------------------------------------------

type lineClass int

const (
	valid lineClass = iota
	malformed
	dontCare
)

func isHexU(c byte) bool { return c >= '0' && c <= '9' || c >= 'A' && c <= 'F' }
func isHexL(c byte) bool { return c >= 'a' && c <= 'f' }

// classify applies the independent line grammar -?[0-9]+ ' ' ([0-9A-F][0-9A-F])+ to
// one physical line (without its terminator).
func classify(line string, terminated bool) (lineClass, record, string) {
	if !terminated {
		return malformed, record{}, "missing-terminator"
	}
	sp := strings.Count(line, " ")
	if sp == 0 {
		return malformed, record{}, "missing-separator"
	}
	i := strings.IndexByte(line, ' ')
	dec, hx := line[:i], line[i+1:]
	if sp > 1 {
		// extra spaces around the fields are not judged; a space between hex
		// characters means that two lines have run together
		t := strings.Trim(hx, " ")
		if strings.Contains(t, " ") {
			return malformed, record{}, "space-inside-hex-part"
		}
		return dontCare, record{}, ""
	}
	lower := false
	for k := 0; k < len(hx); k++ {
		switch {
		case isHexU(hx[k]):
		case isHexL(hx[k]):
			lower = true
		default:
			return malformed, record{}, "non-hex-character"
		}
	}
	if len(hx)%2 != 0 {
		return malformed, record{}, "odd-hex-length"
	}
	if len(hx) == 0 || lower {
		return dontCare, record{}, ""
	}
	d := dec
	if strings.HasPrefix(d, "-") {
		d = d[1:]
	}
	if d == "" {
		return dontCare, record{}, ""
	}
	for k := 0; k < len(d); k++ {
		if d[k] < '0' || d[k] > '9' {
			return dontCare, record{}, ""
		}
	}
	v, err := strconv.ParseInt(dec, 10, 32)
	if err != nil {
		// only digits, but no 32-bit time stamp: no record can be right
		return malformed, record{}, "time-stamp-out-of-range"
	}
	msg := make([]byte, len(hx)/2)
	for k := range msg {
		b, _ := strconv.ParseUint(hx[2*k:2*k+2], 16, 8)
		msg[k] = byte(b)
	}
	return valid, record{int32(v), msg}, ""
}

func judgeStream(stream string, origin string) {
	ctx.Eval()
	var want []record
	nMal := 0
	why := ""
	lastMalformed := false
	rest := stream
	for len(rest) > 0 {
		i := strings.IndexByte(rest, '\n')
		var line string
		term := i >= 0
		if term {
			line, rest = rest[:i], rest[i+1:]
		} else {
			line, rest = rest, ""
		}
		cl, rec, w := classify(line, term)
		switch cl {
		case valid:
			want = append(want, rec)
			lastMalformed = false
		case malformed:
			nMal++
			if why == "" {
				why = w
			}
			lastMalformed = rest == ""
		case dontCare:
			// only robustness is required
			_, c := decodeAll(strings.NewReader(stream), 16)
			if c.Panicked {
				report(c.Sig+":dont-care-line", stream, nil, "panicked: "+c.Value)
			}
			return
		}
	}
	res, c := decodeAll(strings.NewReader(stream), 16)
	if c.Panicked {
		report(c.Sig+":"+why, stream, nil, "panicked: "+c.Value)
		return
	}
	// the same stream through a byte-wise source and through one that answers
	// every other call with (0, nil): the same results, call for call
	if len(stream) < 2000 {
		for ki, rd := range []io.Reader{&faultio.FragReader{Data: []byte(stream), MaxPerCall: 1, EOFWithData: true}, &faultio.FragReader{Data: []byte(stream), ZeroEvery: true, MaxPerCall: 2}} {
			r2, c2 := decodeAll(rd, 16)
			if c2.Panicked {
				report(c2.Sig+":fragmented:"+why, stream, []int{-1 - ki}, "panicked: "+c2.Value)
				return
			}
			same := len(r2) == len(res)
			for i := 0; same && i < len(res); i++ {
				same = r2[i].ok == res[i].ok && r2[i].eof == res[i].eof && (r2[i].err != "") == (res[i].err != "") && r2[i].rec.ts == res[i].rec.ts && bytes.Equal(r2[i].rec.msg, res[i].rec.msg)
			}
			if !same {
				w := why
				if w == "" {
					w = "valid-lines"
				}
				report("fragmentation-changes-result:"+w, stream, []int{-1 - ki}, fmt.Sprintf("%s: from memory %v, from a fragmenting source (kind %d) %v", origin, res, ki, r2))
				return
			}
		}
	}
	if nMal > 0 {
		ctx.NontrivialN(1)
	}
	var got []record
	errs := 0
	for len(res) > 0 && res[len(res)-1].eof {
		res = res[:len(res)-1] // the real end of the stream
	}
	for _, r := range res {
		if r.ok {
			got = append(got, r.rec)
		} else {
			errs++
		}
	}
	if lastMalformed {
		errs++ // its error may be the (first) EOF that was stripped above
	}
	same := len(got) == len(want)
	for i := 0; same && i < len(got); i++ {
		same = got[i].ts == want[i].ts && bytes.Equal(got[i].msg, want[i].msg)
	}
	if !same {
		sig := "malformed:fabricated-or-lost-record:" + why
		if nMal == 0 {
			sig = "valid-lines:wrong-records"
		}
		report(sig, stream, nil, fmt.Sprintf("%s: decoded records %v, the valid lines are %v", origin, got, want))
		return
	}
	if errs < nMal {
		report("malformed:no-error:"+why, stream, nil, fmt.Sprintf("%s: %d malformed lines but %d errors reported", origin, nMal, errs))
	}
}

func mutations(part, parts int) {
	var lines []string
	msgs := [][]byte{{0xB0}, {0xB0, 0x07}, {0x90, 0x3C, 0x40}, {0xF0, 0x0A, 0x20, 0xF7}, {0xFF}, {0x00, 0x00}, {0xAB, 0xCD, 0xEF}, {0x12}}
	for _, ts := range stamps {
		for _, m := range msgs {
			lines = append(lines, encode(record{ts, m}))
		}
	}
	follow := "17 C0\n"
	subs := []byte{'Z', 'g', ' ', '\n', '-'}
	n := 0
	for _, l := range lines {
		if n%parts == part {
			judgeStream(l+follow, "unmutated")
			for p := 0; p < len(l); p++ {
				judgeStream(l[:p]+l[p+1:]+follow, fmt.Sprintf("deletion at %d", p))
				for _, s := range subs {
					if l[p] != s {
						judgeStream(l[:p]+string(s)+l[p+1:]+follow, fmt.Sprintf("substitution %q at %d", s, p))
					}
				}
			}
			for p := 0; p <= len(l); p++ {
				for _, s := range subs {
					judgeStream(l[:p]+string(s)+l[p:]+follow, fmt.Sprintf("insertion %q at %d", s, p))
				}
			}
			// every byte value put in and put in place of, at every position (for the
			// lines of the first time stamp): blanks of every kind, control
			// characters, bytes above 0x7F
			if n < len(msgs) {
				for p := 0; p <= len(l); p++ {
					for v := 0; v < 256; v++ {
						judgeStream(l[:p]+string([]byte{byte(v)})+l[p:]+follow, fmt.Sprintf("insertion of %02X at %d", v, p))
						if p < len(l) && l[p] != byte(v) {
							judgeStream(l[:p]+string([]byte{byte(v)})+l[p+1:]+follow, fmt.Sprintf("substitution by %02X at %d", v, p))
						}
					}
				}
			}
			// the mutated line as the last line of the stream too
			for p := 0; p < len(l); p++ {
				judgeStream(follow+l[:p]+l[p+1:], fmt.Sprintf("deletion at %d, last line", p))
			}
		}
		n++
	}
}

// edges: time stamps written in unusual but purely decimal ways (limits of the
// 32-bit range and beyond, very long, zero-padded) and long hex parts with
// every byte value substituted at positions around every power-of-two length.
func edges(part, parts int) {
	// records belong to whoever reads them: overwriting one must not change what
	// the same line decodes to later (on this stream or another)
	for _, line := range []string{"5 F8\n", "5 FA\n", "5 FE\n", "5 FF\n", "5 903C40\n", "5 C0\n", "5 F0F7\n"} {
		if part != 0 {
			break
		}
		ctx.Eval()
		first, _, err1 := midicat.ReadAndConvert(strings.NewReader(line))
		want := append([]byte(nil), first...)
		for i := range first {
			first[i] ^= 0xBA
		}
		again, _, err2 := midicat.ReadAndConvert(strings.NewReader(line + line))
		if err1 != nil || err2 != nil || !bytes.Equal(again, want) {
			report("record-not-owned", line, nil, fmt.Sprintf("the record decoded from %q was overwritten by its reader; the same line now decodes to % X (was % X)", line, again, want))
		}
	}
	decs := []string{"18446744073709551639", "18446744073709551616", "36893488147419103232", "36893488147419103255", "-18446744073709551639", "340282366920938463463374607431768211479",
		"2147483647", "2147483648", "-2147483648", "-2147483649", "4294967295", "4294967296", "-4294967296",
		"9999999999", "-1000000000", "-10000000000", "-21474836480", "-214748364800", "99999999999", "18446744073709551616",
		"0000000012", "00000000012", "000000000012", "0000000000000012", "-00000000012", "-000000000012", "-0", "00", "-00000000000000000000001"}
	msgs := [][]byte{{0x90, 0x3C, 0x40}, {0xF8}}
	n := 0
	for _, d := range decs {
		for _, m := range msgs {
			if n%parts == part {
				line := fmt.Sprintf("%s %X\n", d, m)
				judgeStream(line+"17 C0\n", "time stamp written as "+d)
				judgeStream("17 C0\n"+line, "time stamp written as "+d+", last line")
				ctx.Add("edge_time_stamps", 1)
			}
			n++
		}
	}
	// the same malformed line several times in a row, then a good one: every
	// copy is an error of its own, the good line comes out as it is
	if part == 1%parts {
		for _, bad := range []string{"x5 803C00\n", "99999999999 803C00\n", "- 90\n", "12 9Z\n", "12\n", " 12 80\n"} {
			for reps := 2; reps <= 3; reps++ {
				judgeStream("41 903C40\n"+strings.Repeat(bad, reps)+"17 C0\n", "malformed line repeated")
			}
		}
	}
	// long malformed lines: the error is found early, a long tail follows
	if part == 0 {
		// (tails up to several megabytes: a reader that gives up looking for the
		// end of a broken line must not take the rest of it for a line of its own)
		for _, reps := range []int{150, 1100, 33000, 524300, 1600000} {
			tail := strings.Repeat("90", reps)
			for _, bad := range []string{"12 9Z" + tail + "\n", "1x2 " + tail + "\n", "12 90 " + tail + " 80\n", "12" + tail + "\n", "12 9Z" + strings.Repeat(" 0 903C7F", reps/5) + "\n",
				// whereever a reader may stop skipping inside the zeros, what is left looks like a record
				"12 9Z" + strings.Repeat("0", 2*reps) + " 903C7F\n", "1x2 " + strings.Repeat("0", 2*reps) + " 903C7F\n",
				"x7 F0" + strings.Repeat("0", 2*reps) + " 903C7F\n", "12 90 " + strings.Repeat("0", 2*reps) + " 903C7F\n", "- 90" + strings.Repeat("0", 2*reps) + " 903C7F\n"} {
				judgeStream(bad+"99 B0077F\n17 C0\n", "long malformed line")
				judgeStream("5 80\n"+bad+"99 B0077F\n", "long malformed line in the middle")
				ctx.Add("long_malformed_lines", 2)
			}
		}
	}
	for _, ln := range []int{1, 3, 31, 32, 33, 64, 65, 128, 129, 300} {
		msg := msgPattern(ln, 1)
		line := encode(record{12, msg})
		hexStart := strings.IndexByte(line, ' ') + 1
		pos := map[int]bool{hexStart: true, hexStart + 1: true, len(line) - 2: true, len(line) - 3: true, hexStart + ln: true}
		for _, p2 := range []int{15, 16, 31, 32, 63, 64, 65, 66, 127, 128, 129, 255, 256} {
			if hexStart+p2 < len(line)-1 {
				pos[hexStart+p2] = true
			}
		}
		for p := range pos {
			for v := 0; v < 256; v++ {
				if n%parts == part && line[p] != byte(v) {
					judgeStream(line[:p]+string([]byte{byte(v)})+line[p+1:]+"17 C0\n", fmt.Sprintf("byte %02X substituted at %d of a %d-byte message line", v, p, ln))
					ctx.Add("edge_hex_substitutions", 1)
				}
				n++
			}
		}
	}
}

// reusedReader: one reader object serves one stream after the other (a
// strings.Reader that is Reset, a bytes.Buffer that is refilled): the first
// stream ends at every position, inside a line too, and is read to its end;
// the second stream must then decode exactly as it does from a fresh reader.
func reusedReader() {
	first := "11 903C40\n-5 F8\n2147483647 F07E7F0901F7\n"
	seconds := []string{"3 904000\n", "17 C0\n9 B0077F\n", "F8\n", "", "23 904000"}
	same := func(a, b []result) bool {
		if len(a) != len(b) {
			return false
		}
		for i := range a {
			if a[i].ok != b[i].ok || a[i].eof != b[i].eof || (a[i].err != "") != (b[i].err != "") || a[i].rec.ts != b[i].rec.ts || !bytes.Equal(a[i].rec.msg, b[i].rec.msg) {
				return false
			}
		}
		return true
	}
	for cut := 0; cut <= len(first); cut++ {
		for _, second := range seconds {
			fresh, _ := decodeAll(strings.NewReader(second), 6)
			for kind := 0; kind < 2; kind++ {
				ctx.Eval()
				ctx.Add("reused_reader_cases", 1)
				var got []result
				var c engine.Caught
				if kind == 0 {
					rd := strings.NewReader(first[:cut])
					decodeAll(rd, 6)
					rd.Reset(second)
					got, c = decodeAll(rd, 6)
				} else {
					var buf bytes.Buffer
					buf.WriteString(first[:cut])
					decodeAll(&buf, 6)
					buf.Reset()
					buf.WriteString(second)
					got, c = decodeAll(&buf, 6)
				}
				if c.Panicked {
					report(c.Sig+":reused-reader", first[:cut]+"|"+second, nil, "panicked: "+c.Value)
					continue
				}
				if !same(got, fresh) {
					report("reused-reader:second-stream-differs", first[:cut]+"|"+second, []int{cut, kind}, fmt.Sprintf("a reader that had served %q to its end and was then given %q: decodes to %v, a fresh reader gives %v", first[:cut], second, got, fresh))
				}
			}
		}
	}
}

// twoStreams: two independent record streams decoded by two threads that are
// switched inside their Read calls (every schedule with at most two switches).
func twoStreams() {
	streams := [][]record{
		{{11, []byte{0x90, 0x40, 0x7F}}, {-5, []byte{0xF8}}},
		{{100, []byte{0xB1, 0x07, 0x01}}, {7, []byte{0xF0, 0x01, 0xF7}}},
		{{0, []byte{0x80, 0x40, 0x00}}},
	}
	var iv engine.Interleaver
	for a := range streams {
		for b := range streams {
			var bad [2]string
			run := func(first, i, j int) {
				bad = [2]string{"?", "?"}
				body := func(k int, recs []record) func(yield func()) {
					return func(yield func()) {
						var sb strings.Builder
						for _, r := range recs {
							sb.WriteString(encode(r))
						}
						rd := &faultio.YieldReader{R: strings.NewReader(sb.String()), Yield: yield}
						res, c := decodeAll(rd, len(recs)+2)
						bad[k] = ""
						if c.Panicked {
							bad[k] = "panic " + c.Value
							return
						}
						for x, r := range recs {
							if x >= len(res) || !res[x].ok || res[x].rec.ts != r.ts || !bytes.Equal(res[x].rec.msg, r.msg) {
								bad[k] = fmt.Sprintf("record %d wrong", x)
							}
						}
					}
				}
				iv.Run(first, i, j, body(0, streams[a]), body(1, streams[b]))
			}
			run(0, -1, -1)
			ya, yb := iv.Yields()
			for first := 0; first < 2; first++ {
				n1, n2 := ya, yb
				if first == 1 {
					n1, n2 = yb, ya
				}
				for i := 1; i <= n1; i++ {
					for j := -1; j <= n2; j++ {
						if j == 0 {
							continue
						}
						run(first, i, j)
						ctx.Eval()
						ctx.Add("two_stream_schedules", 1)
						if bad[0] != "" || bad[1] != "" {
							if ctx.SigCount("concurrent-streams:interference") < 5 {
								ctx.Violation("concurrent-streams:interference", map[string]interface{}{"kind": "two-streams", "a": a, "b": b, "first": first, "switch_first_at_read": i, "switch_second_at_read": j,
									"what": fmt.Sprintf("two streams decoded by two threads switched inside Read calls: A: %q B: %q (each decodes correctly alone)", bad[0], bad[1])})
							}
						}
					}
				}
			}
		}
	}
}

func main() {
	ctx = engine.Start("C19", "exploration")
	disturb.Install(ctx)
	if ctx.ReplayPath != "" {
		if cp.Replay(ctx, ctx.LoadReplay(), "midicat", cc.Midicat()) {
			ctx.Finish("replay")
		}
		m := ctx.LoadReplay()
		if m["kind"] == "two-streams" {
			twoStreams()
			ctx.Finish("replay")
		}
		if sig, _ := m["signature"].(string); strings.Contains(sig, "reused-reader") {
			reusedReader()
			ctx.Finish("replay")
		}
		s, _ := strconv.Unquote(m["stream"].(string))
		if int(m["stream_len"].(float64)) == len(s) {
			judgeStream(s, "replay")
			ctx.Finish("replay")
		}
		fmt.Println("stream too long for the replay file; re-run ./run C19 quick")
		return
	}
	ctx.Assume("line grammar: -?[0-9]+ ' ' ([0-9A-F][0-9A-F])+ '\\n'; malformed = odd hex length, non-hex character in the hex part, missing or repeated separator, missing terminator; don't care = lower-case hex, sign/garbage/overflow in the decimal part, empty message")
	ctx.Assume("readers fragment but never return data together with EOF and never return zero bytes")
	ctx.Jobs("concurrent", 1, func(int) {
		cp.Litmus(ctx)
		cp.Check(ctx, "midicat", cc.Midicat())
	})
	ctx.Jobs("lossless", 16, func(j int) { losslessSpace(j, 16) })
	ctx.Jobs("mutations", 16, func(j int) { mutations(j, 16) })
	ctx.Jobs("edges", 16, func(j int) { edges(j, 16) })
	ctx.Jobs("two-streams", 1, func(int) { twoStreams(); reusedReader() })
	if !ctx.IsChild() {
		ctx.RacePairs("midicat")
	}
	ctx.Sample(map[string]interface{}{"stream": "5 B0ZZ\\n17 C0\\n", "expect": "error for the first line, then the record (17, C0)"})
	ctx.Sample(map[string]interface{}{"records": "(-2147483648, 90 3C 40) (7, F8)", "fragmentation": "every single and every pair of split points; one byte per call"})
	ctx.Guard(ctx.NontrivialCount() > 1000, "too few malformed lines / split points")
	ctx.Finish("all 256 one-byte and 65536 two-byte messages, lengths 1..64,255,256,1000,2000 (thorough 1..2000) x 6 content patterns x 5 time stamps, sequences of 2..3 records; single and pair split points, one byte per call; every single-character deletion, substitution and insertion (Z, g, space, newline, -) on 40 valid lines, classified by an independent line grammar; non-trivial = split points tried plus streams containing a malformed line")
}
