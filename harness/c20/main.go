// C20 — sequencer export lays bars end to end and places events on the
// 32nd-note grid.
package main

import (
	"bytes"
	"fmt"
	"sort"

	"gitlab.com/gomidi/midi/v2"
	cc "gitlab.com/gomidi/midi/v2/internal/verifh/conccases"
	cp "gitlab.com/gomidi/midi/v2/internal/verifh/concpairs"
	"gitlab.com/gomidi/midi/v2/internal/verifh/disturb"
	"gitlab.com/gomidi/midi/v2/internal/verifh/engine"
	"gitlab.com/gomidi/midi/v2/internal/verifh/refsmf"
	"gitlab.com/gomidi/midi/v2/sequencer"
	"gitlab.com/gomidi/midi/v2/smf"
)

var ctx *engine.Ctx

type sig struct{ n, d uint8 } // 0/0 = inherit

type ev struct {
	bar, track int
	pos, dur   int // in 32nds
	note       bool
	key        uint8
	ch0        bool // use channel 0 whatever the track (the same voice doubled on two tracks)
	dup        bool // (shared songs) the first bar's event once more in the second bar
}

type song struct {
	res  uint16
	sigs []sig
	evs  []ev
	// shared: the second bar repeats the first (the very same *Event values,
	// its Events slice continuing the first bar's backing array) and adds its
	// own events behind them, later positions first; evs holds the repeated
	// events a second time with bar = 1 and dup set.
	shared bool
}

func (s song) describe() map[string]interface{} {
	var sg []string
	for _, x := range s.sigs {
		sg = append(sg, fmt.Sprintf("%d/%d", x.n, x.d))
	}
	var es []string
	for _, e := range s.evs {
		es = append(es, fmt.Sprintf("bar%d trk%d pos%d dur%d note=%v", e.bar, e.track, e.pos, e.dur, e.note))
	}
	return map[string]interface{}{"kind": "song", "resolution": s.res, "signatures": sg, "events": es,
		"raw_sigs": s.sigs2raw(), "raw_evs": s.evs2raw(), "second_bar_repeats_first": s.shared}
}

func (s song) sigs2raw() [][2]int {
	var r [][2]int
	for _, x := range s.sigs {
		r = append(r, [2]int{int(x.n), int(x.d)})
	}
	return r
}

func (s song) evs2raw() [][7]int {
	var r [][7]int
	for _, e := range s.evs {
		n := 0
		if e.note {
			n = 1
		}
		c0 := 0
		if e.ch0 {
			c0 = 1
		}
		if e.dup {
			c0 |= 2
		}
		r = append(r, [7]int{e.bar, e.track, e.pos, e.dur, n, int(e.key), c0})
	}
	return r
}

type placed struct {
	tick int64
	msg  string
}

func msgOf(e ev) smf.Message {
	ch := uint8(e.track)
	if e.ch0 {
		ch = 0
	}
	if e.note {
		return smf.Message(midi.NoteOn(ch, e.key, 100))
	}
	return smf.Message(midi.ControlChange(ch, e.key, 1))
}

// expected computes the bar model.
func expected(s song) (want []placed, end int64, perTrack map[int]bool) {
	t32 := int64(smf.MetricTicks(s.res).Ticks32th())
	cur := sig{4, 4}
	prev := sig{4, 4}
	var start int64
	starts := make([]int64, len(s.sigs))
	for i, sg := range s.sigs {
		if sg != (sig{0, 0}) {
			cur = sg
		}
		starts[i] = start
		if cur != prev {
			want = append(want, placed{start, string(smf.MetaMeter(cur.n, cur.d))})
			prev = cur
		}
		start += int64(cur.n) * 32 / int64(cur.d) * t32
	}
	end = start
	perTrack = map[int]bool{}
	for _, e := range s.evs {
		at := starts[e.bar] + int64(e.pos)*t32
		want = append(want, placed{at, string(msgOf(e))})
		perTrack[e.track] = true
		if e.note && e.dur > 0 {
			want = append(want, placed{at + int64(e.dur)*t32, string(smf.Message(midi.NoteOff(msgOf(e)[0]&0x0F, e.key)))})
		}
	}
	return
}

func collect(f smf.SMF) (got []placed, ends []int64, ok bool) {
	for _, t := range f.Tracks {
		var tick int64
		closed := false
		for _, e := range t {
			tick += int64(e.Delta)
			m := e.Message
			switch {
			case refsmf.IsEOT(m):
				closed = true
				ends = append(ends, tick)
			case len(m) > 0 && m[0] >= 0x80 && m[0] < 0xF0:
				got = append(got, placed{tick, string(m)})
			case len(m) > 1 && m[0] == 0xFF && m[1] == 0x58:
				got = append(got, placed{tick, string(m)})
			}
		}
		if !closed {
			return got, ends, false
		}
	}
	return got, ends, true
}

func sameTracks(a, b smf.SMF) bool {
	if len(a.Tracks) != len(b.Tracks) {
		return false
	}
	for i := range a.Tracks {
		if len(a.Tracks[i]) != len(b.Tracks[i]) {
			return false
		}
		for j := range a.Tracks[i] {
			if a.Tracks[i][j].Delta != b.Tracks[i][j].Delta || !bytes.Equal(a.Tracks[i][j].Message, b.Tracks[i][j].Message) {
				return false
			}
		}
	}
	return true
}

func sortPlaced(p []placed) {
	sort.Slice(p, func(a, b int) bool {
		if p[a].tick != p[b].tick {
			return p[a].tick < p[b].tick
		}
		return p[a].msg < p[b].msg
	})
}

func diffPlaced(want, got []placed) string {
	sortPlaced(want)
	sortPlaced(got)
	for i := 0; i < len(want) && i < len(got); i++ {
		if want[i] != got[i] {
			k := "event"
			if len(want[i].msg) > 1 && want[i].msg[0] == 0xFF {
				k = "time-signature"
			} else if want[i].msg[0]&0xF0 == 0x80 {
				k = "note-off"
			}
			if want[i].msg == got[i].msg {
				return k + "-tick"
			}
			return k
		}
	}
	if len(want) != len(got) {
		return "count"
	}
	return ""
}

func feature(s song) string {
	big := false
	cur := sig{4, 4}
	for _, x := range s.sigs {
		if x != (sig{0, 0}) {
			cur = x
		}
		if int(cur.n)*32 > 255 {
			big = true
		}
	}
	if big {
		return "numerator-times-32-above-255"
	}
	return "small-numerators"
}

func report(sg string, s song, what string) {
	if ctx.SigCount(sg) < 10 {
		d := s.describe()
		d["what"] = what
		ctx.Violation(sg, d)
	}
}

func judge(s song) {
	ctx.Eval()
	sq := sequencer.New()
	sq.Ticks = smf.MetricTicks(s.res)
	sq.Title, sq.Composer = "t", "c"
	if s.res == 96 {
		// track names that coincide with names the export uses itself
		sq.TrackNames = []string{"bars", "track-0", "bars"}
	}
	var firstBar []*sequencer.Event
	for i, sg := range s.sigs {
		b := sequencer.Bar{TimeSig: [2]uint8{sg.n, sg.d}}
		if s.shared && i == 0 {
			b.Events = make([]*sequencer.Event, 0, 16)
		}
		if s.shared && i == 1 {
			b.Events = firstBar[:len(firstBar)] // same events, same backing array
		}
		var own []*sequencer.Event
		for _, e := range s.evs {
			if e.bar == i && !e.dup {
				own = append(own, &sequencer.Event{TrackNo: e.track, Pos: uint8(e.pos), Duration: uint8(e.dur), Message: msgOf(e)})
			}
		}
		if s.shared && i == 1 {
			for k := len(own) - 1; k >= 0; k-- {
				b.Events = append(b.Events, own[k])
			}
		} else {
			b.Events = append(b.Events, own...)
		}
		if i == 0 {
			firstBar = b.Events
		}
		sq.AddBar(b)
	}
	// the song as it is before the export: which events every bar holds, in
	// which order, with which values
	type evSnap struct {
		p *sequencer.Event
		v sequencer.Event
	}
	var snap [][]evSnap
	for _, b := range sq.Bars() {
		var l []evSnap
		for _, e := range b.Events {
			l = append(l, evSnap{e, *e})
		}
		snap = append(snap, l)
	}
	want, end, tracks := expected(s)
	var f0, f1 smf.SMF
	c := engine.Catch(func() { f0 = sq.ToSMF0(); f1 = sq.ToSMF1() })
	if !c.Panicked {
		bars := sq.Bars()
		changed := len(bars) != len(snap)
		for i := 0; !changed && i < len(bars); i++ {
			if len(bars[i].Events) != len(snap[i]) {
				changed = true
				break
			}
			for k, e := range bars[i].Events {
				if e != snap[i][k].p || e.TrackNo != snap[i][k].v.TrackNo || e.Pos != snap[i][k].v.Pos || e.Duration != snap[i][k].v.Duration || string(e.Message) != string(snap[i][k].v.Message) {
					changed = true
				}
			}
		}
		if changed {
			report("export:modifies-the-song", s, "after ToSMF0 and ToSMF1 the bars of the song hold other events, or in another order, than before")
			return
		}
	}
	if !c.Panicked && len(s.sigs) <= 3 {
		// exporting is repeatable: a second export of the same song gives the same files
		var g0, g1 smf.SMF
		c2 := engine.Catch(func() { g1 = sq.ToSMF1(); g0 = sq.ToSMF0() })
		if c2.Panicked || !sameTracks(f0, g0) || !sameTracks(f1, g1) {
			report("export:not-repeatable", s, "a second export of the same song differs from the first "+c2.Value)
			return
		}
	}
	f := feature(s)
	if c.Panicked {
		report(c.Sig+":"+f, s, "export panicked: "+c.Value)
		return
	}
	for name, file := range map[string]smf.SMF{"SMF0": f0, "SMF1": f1} {
		got, ends, closed := collect(file)
		if !closed {
			report("layout:unterminated-track:"+name, s, "a track lacks its end-of-track")
			return
		}
		w := append([]placed(nil), want...)
		if d := diffPlaced(w, got); d != "" {
			report("layout:"+d+":"+name+":"+f, s, fmt.Sprintf("%s: placed events differ from the bar model (%s): got %v want %v", name, d, render(got), render(w)))
			return
		}
		for ti, e := range ends {
			if e != end {
				report("layout:end-of-track:"+name+":"+f, s, fmt.Sprintf("%s track %d ends at tick %d, the last bar ends at %d", name, ti, e, end))
				return
			}
		}
		if name == "SMF1" && len(file.Tracks) != 1+len(tracks) {
			report("layout:track-count:SMF1", s, fmt.Sprintf("%d tracks for %d used tracks", len(file.Tracks), len(tracks)))
			return
		}
		var buf bytes.Buffer
		var werr error
		ff := file
		c := engine.Catch(func() { _, werr = ff.WriteTo(&buf) })
		if c.Panicked || werr != nil {
			report("export:write:"+name, s, fmt.Sprintf("cannot write: %v %s", werr, c.Value))
			return
		}
		if _, err := refsmf.Parse(buf.Bytes(), refsmf.Strict); err != nil {
			report("export:strict:"+name+":"+f, s, "strict parser rejects the export: "+err.Error())
			return
		}
	}
	if len(s.sigs) > 1 && len(s.evs) > 0 {
		ctx.NontrivialN(1)
	}
	if s.res == 960 && len(s.evs) >= 1 && len(s.evs) <= 2 && len(s.sigs) <= 3 {
		imported(s, f1)
	}
	if len(s.sigs) <= 3 && len(s.evs) <= 2 {
		edited(s, sq)
	}
}

// expectedOf reads the bar model off the public fields of any *Song, however
// it was obtained (built with AddBar, imported from a file, edited).
func expectedOf(sq *sequencer.Song) (want []placed, end int64) {
	t32 := int64(sq.Ticks.Ticks32th())
	prev := [2]uint8{4, 4}
	var start int64
	// bars count in the order of their numbers (the export sorts by Bar.Number)
	bars := append(sequencer.Bars(nil), sq.Bars()...)
	sort.SliceStable(bars, func(i, j int) bool { return bars[i].Number < bars[j].Number })
	for _, b := range bars {
		cur := b.TimeSig
		if cur != [2]uint8{0, 0} && cur != prev {
			want = append(want, placed{start, string(smf.MetaMeter(cur[0], cur[1]))})
			prev = cur
		}
		for _, e := range b.Events {
			m := e.Message
			if len(m) == 0 || m[0] < 0x80 || m[0] >= 0xF0 {
				continue // only channel messages (and time signatures) are compared
			}
			at := start + int64(e.Pos)*t32
			want = append(want, placed{at, string(m)})
			var ch, key, vel uint8
			if m.GetNoteStart(&ch, &key, &vel) && e.Duration > 0 {
				want = append(want, placed{at + int64(e.Duration)*t32, string(smf.Message(midi.NoteOff(ch, key)))})
			}
		}
		start += int64(prev[0]) * 32 / int64(prev[1]) * t32
	}
	return want, start
}

// imported: the song is exported, imported again with FromSMF, edited through
// its public fields and exported; the export must follow the bar model of the
// edited song (second life of the events: nothing may be remembered from the
// file they were imported from).
func imported(s song, f1 smf.SMF) {
	for edit := 0; edit < 4; edit++ {
		var imp *sequencer.Song
		c := engine.Catch(func() { imp = sequencer.FromSMF(f1) })
		if c.Panicked || imp == nil || len(imp.Bars()) == 0 {
			ctx.Add("imports_failed_not_judged", 1)
			return
		}
		bars := imp.Bars()
		what := "unedited"
		switch edit {
		case 1:
			moved := false
			for _, b := range bars {
				for _, e := range b.Events {
					if !moved && len(e.Message) > 0 && e.Message[0] >= 0x80 && e.Message[0] < 0xF0 && e.Pos < 200 {
						e.Pos += 2
						moved = true
					}
				}
			}
			what = "event-moved"
			if !moved {
				continue
			}
		case 2:
			imp.Ticks = smf.MetricTicks(96)
			what = "resolution-changed"
		case 3:
			if len(bars) < 2 {
				continue
			}
			bars[0].TimeSig = [2]uint8{5, 8}
			what = "first-bar-signature-changed"
		}
		ctx.Eval()
		ctx.Add("imported_songs_exported", 1)
		want, end := expectedOf(imp)
		inside := true
		for _, w := range want {
			if w.tick > end {
				inside = false
			}
		}
		if !inside {
			// the importer produced a song in which an event ends after the last
			// bar: outside C20's domain ("any duration that ends within the song")
			ctx.Add("imported_songs_outside_domain", 1)
			continue
		}
		var g0, g1 smf.SMF
		c = engine.Catch(func() { g0 = imp.ToSMF0(); g1 = imp.ToSMF1() })
		if c.Panicked {
			report(c.Sig+":imported:"+what, s, "export of an imported song panicked: "+c.Value)
			return
		}
		for name, file := range map[string]smf.SMF{"SMF0": g0, "SMF1": g1} {
			got, ends, closed := collect(file)
			if !closed {
				report("layout:imported:unterminated-track:"+what, s, "a track lacks its end-of-track")
				return
			}
			w := append([]placed(nil), want...)
			if d := diffPlaced(w, got); d != "" {
				report("layout:imported:"+d+":"+what, s, fmt.Sprintf("%s of the imported and edited song (%s): got %v want %v", name, what, render(got), render(w)))
				return
			}
			for ti, e := range ends {
				if e != end {
					report("layout:imported:end-of-track:"+what, s, fmt.Sprintf("%s track %d ends at %d, the last bar ends at %d", name, ti, e, end))
					return
				}
			}
		}
	}
}

// edited: the song that has just been exported is edited in place through its
// public fields (a bar's signature, the resolution, an event's position, one
// more bar) and exported again after every edit, in both orders of the two
// exports: each export must follow the bar model of the song as it is now -
// nothing may be remembered from an earlier export.
func edited(s song, sq *sequencer.Song) {
	for edit := 0; edit < 7; edit++ {
		what := ""
		bars := sq.Bars()
		switch edit {
		case 4:
			// a tempo event is put into the last bar (meta events in bars go to the
			// first track of the multi-track export, next to the signatures)
			// (positions inside the bar: an event behind the end of the song is outside the domain)
			inBar := func(b *sequencer.Bar, pos int) uint8 {
				l := 128 // a bar without a signature of its own inherits one; 4/4 at least is safe only if known
				if b.TimeSig != [2]uint8{0, 0} {
					l = int(b.TimeSig[0]) * 32 / int(b.TimeSig[1])
				} else {
					l = 1
				}
				if pos >= l {
					pos = l - 1
				}
				if pos < 0 {
					pos = 0
				}
				return uint8(pos)
			}
			last := bars[len(bars)-1]
			last.Events = append(last.Events, &sequencer.Event{TrackNo: 0, Pos: inBar(last, 3), Message: smf.MetaTempo(133)})
			if len(bars) >= 2 {
				bars[0].Events = append(bars[0].Events, &sequencer.Event{TrackNo: 0, Pos: inBar(bars[0], 5), Message: smf.MetaText("x")})
			}
			what = "meta-events-in-bars"
		case 5:
			// the numbers of the first two bars are exchanged by hand
			if len(bars) < 2 || bars[0].TimeSig == bars[1].TimeSig && len(bars[0].Events) == 0 && len(bars[1].Events) == 0 {
				continue
			}
			bars[0].Number, bars[1].Number = bars[1].Number, bars[0].Number
			what = "bar-numbers-exchanged"
		case 6:
			// numbers that keep the order but are not 0..n-1: counted from 1, with a hole
			if len(bars) < 2 {
				continue
			}
			sorted := append(sequencer.Bars(nil), bars...)
			sort.SliceStable(sorted, func(i, j int) bool { return sorted[i].Number < sorted[j].Number })
			for i, b := range sorted {
				b.Number = uint(1 + 2*i)
			}
			what = "bar-numbers-sparse"
		case 0:
			if len(bars) < 2 {
				continue
			}
			old := bars[0].TimeSig
			bars[0].TimeSig = [2]uint8{old[0] + 1, old[1]}
			if int(old[0]+1)*32/int(old[1]) > 255 {
				bars[0].TimeSig = [2]uint8{1, old[1]}
			}
			what = "first-bar-signature-changed"
		case 1:
			if sq.Ticks == smf.MetricTicks(96) {
				sq.Ticks = smf.MetricTicks(960)
			} else {
				sq.Ticks = smf.MetricTicks(96)
			}
			what = "resolution-changed"
		case 2:
			sq.AddBar(sequencer.Bar{TimeSig: [2]uint8{7, 8}})
			what = "bar-added"
		case 3:
			moved := false
			for _, b := range bars {
				for _, e := range b.Events {
					if !moved && e.Pos > 0 {
						e.Pos--
						moved = true
					}
				}
			}
			if !moved {
				continue
			}
			what = "event-moved"
		}
		ctx.Eval()
		ctx.Add("edited_songs_exported", 1)
		want, end := expectedOf(sq)
		inside := true
		for _, w := range want {
			if w.tick > end {
				inside = false
			}
		}
		if !inside {
			ctx.Add("edited_songs_outside_domain", 1)
			continue
		}
		var g0, g1 smf.SMF
		c := engine.Catch(func() {
			if edit%2 == 0 {
				g0 = sq.ToSMF0()
				g1 = sq.ToSMF1()
			} else {
				g1 = sq.ToSMF1()
				g0 = sq.ToSMF0()
			}
		})
		if c.Panicked {
			report(c.Sig+":edited:"+what, s, "export of an edited song panicked: "+c.Value)
			return
		}
		for _, nf := range []struct {
			name string
			file smf.SMF
		}{{"SMF0", g0}, {"SMF1", g1}} {
			got, ends, closed := collect(nf.file)
			if !closed {
				report("layout:edited:unterminated-track:"+what, s, "a track lacks its end-of-track")
				return
			}
			w := append([]placed(nil), want...)
			if d := diffPlaced(w, got); d != "" {
				report("layout:edited:"+d+":"+what, s, fmt.Sprintf("%s of the song exported, edited (%s, edit step %d of the chain) and exported again: got %v want %v", nf.name, what, edit, render(got), render(w)))
				return
			}
			for ti, e := range ends {
				if e != end {
					report("layout:edited:end-of-track:"+what, s, fmt.Sprintf("%s track %d ends at %d, the last bar ends at %d", nf.name, ti, e, end))
					return
				}
			}
		}
	}
}

func render(p []placed) string {
	s := ""
	for i, x := range p {
		if i > 0 {
			s += " "
		}
		s += fmt.Sprintf("%d:%X", x.tick, x.msg)
	}
	return s
}

func allSigs() []sig {
	out := []sig{{0, 0}, {0, 4}, {0, 8}}
	// denominators that are not powers of two count as well: the length is
	// numerator x 32 / denominator (whole thirty-seconds)
	for _, d := range []uint8{4, 8, 2, 16, 32, 1, 3, 6, 12, 5} {
		for n := uint8(1); n <= 24; n++ {
			if int(n)*32/int(d) <= 255 {
				out = append(out, sig{n, d})
			}
		}
	}
	return out
}

func barLen(sg sig) int { return int(sg.n) * 32 / int(sg.d) }

// 100 and 90 are not multiples of 8: the 32nd-note grid is then the library's
// rounded Ticks32th(), for bars as well as for events
var resolutions = []uint16{960, 8, 96, 32760, 100, 90}

// signatureSpace: every signature in every bar position, one note per bar
// lasting to the end of its bar.
func signatureSpace(first int) {
	sigs := allSigs()
	sub := []sig{{0, 0}, {4, 4}, {3, 4}, {6, 8}, {9, 8}, {12, 8}, {7, 8}, {24, 32}, {7, 1}, {15, 2}, {8, 8}, {1, 32}}
	mk := func(ss []sig, res uint16) {
		s := song{res: res, sigs: ss}
		cur := sig{4, 4}
		for i, x := range ss {
			if x != (sig{0, 0}) {
				cur = x
			}
			s.evs = append(s.evs, ev{bar: i, track: i % 2, pos: 0, dur: barLen(cur), note: true, key: uint8(60 + i)})
		}
		judge(s)
	}
	a := sigs[first]
	for _, res := range resolutions {
		mk([]sig{a}, res)
		for _, b := range sigs {
			mk([]sig{a, b}, res)
			third := sub
			if ctx.Thorough() {
				third = sigs
			}
			if res == 960 || ctx.Thorough() {
				for _, c := range third {
					mk([]sig{a, b, c}, res)
				}
			}
		}
	}
}

// eventSpace: event placements for a few signature sequences.
func eventSpace(si int, onlyRes uint16) {
	seqs := [][]sig{
		{{4, 4}},
		{{3, 4}, {0, 0}},
		{{6, 8}, {9, 8}, {12, 8}},
		{{7, 8}, {4, 4}},
		{{0, 0}, {5, 4}, {0, 0}},
		{{2, 2}, {24, 32}},
		{{7, 1}, {0, 0}}, // two bars of 224 thirty-seconds: position + duration can exceed 255
	}
	ss := seqs[si]
	// bar lengths under the model
	lens := make([]int, len(ss))
	cur := sig{4, 4}
	total := 0
	for i, x := range ss {
		if x != (sig{0, 0}) {
			cur = x
		}
		lens[i] = barLen(cur)
		total += lens[i]
	}
	var opts []ev
	before := 0
	for b := range ss {
		for _, tr := range []int{0, 1, 7} {
			poss := []int{0, 1, lens[b] - 1}
			if lens[b] > 128 {
				poss = append(poss, 100)
			}
			for _, pos := range poss {
				toEndBar := lens[b] - pos
				toEndSong := total - before - pos
				durs := []int{0, 1, toEndBar, toEndBar + 1, toEndSong, 255, 200}
				for di, d := range durs {
					if d > 255 || d > toEndSong || d < 0 {
						continue
					}
					opts = append(opts, ev{bar: b, track: tr, pos: pos, dur: d, note: true, key: uint8(40 + len(opts)%60)})
					if di == 0 {
						opts = append(opts, ev{bar: b, track: tr, pos: pos, dur: 3, note: false, key: uint8(len(opts) % 100)})
					}
				}
			}
		}
		before += lens[b]
	}
	// the same voice doubled on two tracks: same channel, same key, ending on the same tick
	for _, res := range resolutions {
		if res != onlyRes {
			continue
		}
		for _, p := range [][4]int{{0, 4, 2, 2}, {0, 2, 0, 2}, {1, 3, 0, 4}} {
			judge(song{res: res, sigs: ss, evs: []ev{
				{bar: 0, track: 0, pos: p[0], dur: p[1], note: true, key: 64, ch0: true},
				{bar: 0, track: 1, pos: p[2], dur: p[3], note: true, key: 64, ch0: true}}})
		}
	}
	// all eight tracks at once (and a track number beyond the named ones)
	for _, res := range resolutions {
		if res != onlyRes {
			continue
		}
		var evs []ev
		for tr := 0; tr < 8; tr++ {
			evs = append(evs, ev{bar: tr % len(ss), track: tr, pos: tr % 3, dur: 1 + tr%2, note: true, key: uint8(50 + tr)})
		}
		judge(song{res: res, sigs: ss, evs: evs})
		judge(song{res: res, sigs: ss, evs: evs[3:]})
	}
	// the second bar repeats the first one (same *Event values, same backing
	// array) and adds events of its own, later positions first
	if len(ss) >= 2 && lens[0] == lens[1] {
		for _, res := range resolutions {
			if res != onlyRes {
				continue
			}
			for i := range opts {
				if opts[i].bar != 0 || opts[i].dur > total-lens[0]-opts[i].pos {
					continue
				}
				d := opts[i]
				d.bar, d.dup = 1, true
				judge(song{res: res, sigs: ss, shared: true, evs: []ev{opts[i], d}})
				for j := range opts {
					if opts[j].bar != 1 || (i+j)%3 != 0 {
						continue
					}
					judge(song{res: res, sigs: ss, shared: true, evs: []ev{opts[i], d, opts[j]}})
					for k := j + 1; k < len(opts); k += 5 {
						if opts[k].bar == 1 && opts[k].pos < opts[j].pos {
							judge(song{res: res, sigs: ss, shared: true, evs: []ev{opts[i], d, opts[j], opts[k]}})
						}
					}
					ctx.Add("shared_bar_songs", 1)
				}
			}
		}
	}
	for _, res := range resolutions {
		if res != onlyRes {
			continue
		}
		judge(song{res: res, sigs: ss})
		for i := range opts {
			judge(song{res: res, sigs: ss, evs: []ev{opts[i]}})
			for j := i + 1; j < len(opts); j++ {
				judge(song{res: res, sigs: ss, evs: []ev{opts[i], opts[j]}})
				if res == 960 && (i+j)%7 == 0 || ctx.Thorough() && (i+j)%2 == 0 {
					for k := j + 1; k < len(opts); k += 3 {
						judge(song{res: res, sigs: ss, evs: []ev{opts[i], opts[j], opts[k]}})
					}
				}
			}
		}
	}
}

// longSongs: more than 65535 thirty-second notes (2100 bars of 4/4, 350 bars
// of 24/4, 300 bars of 7/1) with events in the first, a middle and the last bar.
func longSongs() {
	for _, c := range []struct {
		sg   sig
		bars int
	}{{sig{4, 4}, 2100}, {sig{24, 4}, 350}, {sig{7, 1}, 300}, {sig{3, 8}, 5500}} {
		for _, res := range []uint16{960, 8} {
			s := song{res: res}
			for b := 0; b < c.bars; b++ {
				if b == 0 {
					s.sigs = append(s.sigs, c.sg)
				} else if b == c.bars/2 {
					s.sigs = append(s.sigs, sig{c.sg.n, c.sg.d}) // same signature restated
				} else {
					s.sigs = append(s.sigs, sig{0, 0})
				}
			}
			for i, b := range []int{0, c.bars / 2, c.bars - 1} {
				s.evs = append(s.evs, ev{bar: b, track: i % 2, pos: 1, dur: 2, note: true, key: uint8(60 + i)})
			}
			judge(s)
			ctx.Add("long_songs", 1)
		}
	}
}

func main() {
	ctx = engine.Start("C20", "exploration")
	disturb.Install(ctx)
	if ctx.ReplayPath != "" {
		if cp.Replay(ctx, ctx.LoadReplay(), "export", cc.Export()) {
			ctx.Finish("replay")
		}
		m := ctx.LoadReplay()
		s := song{res: uint16(m["resolution"].(float64))}
		for _, x := range m["raw_sigs"].([]interface{}) {
			p := x.([]interface{})
			s.sigs = append(s.sigs, sig{uint8(p[0].(float64)), uint8(p[1].(float64))})
		}
		if l, ok := m["raw_evs"].([]interface{}); ok {
			for _, x := range l {
				p := x.([]interface{})
				s.evs = append(s.evs, ev{bar: int(p[0].(float64)), track: int(p[1].(float64)), pos: int(p[2].(float64)), dur: int(p[3].(float64)), note: p[4].(float64) == 1, key: uint8(p[5].(float64)), ch0: int(p[6].(float64))&1 == 1, dup: int(p[6].(float64))&2 == 2})
			}
		}
		s.shared, _ = m["second_bar_repeats_first"].(bool)
		judge(s)
		ctx.Finish("replay")
	}
	ctx.Assume("domain: numerators 1..24 over denominators 1,2,3,4,5,6,8,12,16,32 (and the empty bars 0/4, 0/8) whose bar fits in 255 thirty-second notes; resolutions divisible by 8; durations end within the song; the order of simultaneous events is not judged (multisets per tick)")
	n := len(allSigs())
	ctx.Jobs("concurrent", 1, func(int) {
		cp.Litmus(ctx)
		cp.Check(ctx, "export", cc.Export())
	})
	ctx.Jobs("signatures", n, func(j int) { signatureSpace(j) })
	ctx.Jobs("events", 7*len(resolutions), func(j int) { eventSpace(j/len(resolutions), resolutions[j%len(resolutions)]) })
	if !ctx.IsChild() {
		ctx.RacePairs("export")
	}
	ctx.Jobs("long-songs", 1, func(int) { longSongs() })
	ctx.Set("signatures", n)
	ctx.Sample(map[string]interface{}{"song": "bars 6/8, 9/8, 12/8; note on track 7 at the last 32nd of bar 2 lasting across the bar line", "resolution": 96})
	ctx.Guard(ctx.NontrivialCount() > 1000, "too few multi-bar songs with events")
	ctx.Finish("songs of 1..3 bars: every signature (numerator 1..24 x denominator {1,2,4,8,16,32}, bar <= 255 thirty-seconds, plus 'inherit') in bar 1 and 2, a 12-signature subset (thorough: all) in bar 3, 4 resolutions; event placements (tracks {0,1,7} x positions {0,1,last} x durations {0,1,to end of bar,across the bar line,to end of song}, notes and non-notes) in singles, pairs and a subset of triples over 6 signature sequences; ToSMF0 and ToSMF1 against a bar model and the strict parser; non-trivial = multi-bar songs with events")
}
