// Package conccases holds the families of library calls that the two-thread
// pair exploration (package concpairs) runs against each other: calls that
// share no argument must not disturb each other. Each family is used by the
// check of the property it belongs to.
package conccases

import (
	"bytes"
	"fmt"
	"strings"

	"gitlab.com/gomidi/midi/v2"
	"gitlab.com/gomidi/midi/v2/drivers/midicat"
	cp "gitlab.com/gomidi/midi/v2/internal/verifh/concpairs"
	"gitlab.com/gomidi/midi/v2/mmc"
	"gitlab.com/gomidi/midi/v2/sequencer"
	"gitlab.com/gomidi/midi/v2/smf"
	"gitlab.com/gomidi/midi/v2/sysex"
)

func hexs(b []byte) string { return fmt.Sprintf("% X", b) }

// files: three small SMF values with different content (running status,
// meta, sysex, long deltas, two tracks).
func values() []func() *smf.SMF {
	a := func() *smf.SMF {
		s := smf.New()
		s.TimeFormat = smf.MetricTicks(96)
		var t smf.Track
		t.Add(0, midi.NoteOn(0, 60, 100))
		t.Add(200, midi.NoteOn(0, 62, 90))
		t.Add(16384, midi.NoteOff(0, 60))
		t.Add(1, smf.MetaText("hello"))
		t.Close(3)
		s.Add(t)
		return s
	}
	b := func() *smf.SMF {
		s := smf.NewSMF1()
		s.TimeFormat = smf.MetricTicks(480)
		var t0, t1 smf.Track
		t0.Add(0, smf.MetaTempo(133))
		t0.Add(300000, smf.MetaTempo(61))
		t0.Close(0)
		t1.Add(129, midi.ControlChange(3, 7, 127))
		t1.Add(0, midi.ControlChange(3, 8, 1))
		t1.Add(2097152, midi.SysEx([]byte{1, 2, 3, 4, 5}))
		t1.Add(5, midi.Pitchbend(3, -100))
		t1.Close(128)
		s.Add(t0)
		s.Add(t1)
		return s
	}
	c := func() *smf.SMF {
		s := smf.New()
		s.TimeFormat = smf.SMPTE25(40)
		var t smf.Track
		t.Add(127, midi.ProgramChange(9, 1))
		t.Add(128, midi.ProgramChange(9, 2))
		t.Add(0, smf.MetaSequencerData(bytes.Repeat([]byte{0x42}, 200)))
		t.Close(0)
		s.Add(t)
		return s
	}
	return []func() *smf.SMF{a, b, c}
}

func renderSMF(s *smf.SMF) string {
	var sb strings.Builder
	fmt.Fprintf(&sb, "fmt%d %v", s.Format(), s.TimeFormat)
	for _, t := range s.Tracks {
		sb.WriteString(" |")
		for _, e := range t {
			fmt.Fprintf(&sb, " %d:%X", e.Delta, []byte(e.Message))
		}
	}
	return sb.String()
}

// SMFWrite: WriteTo of unrelated values into unrelated buffers (C01, C03).
func SMFWrite() []cp.Case {
	var cs []cp.Case
	for i, mk := range values() {
		mk := mk
		for _, nors := range []bool{false, true} {
			nors := nors
			cs = append(cs, cp.Case{Name: fmt.Sprintf("WriteTo/value%d,no-running-status=%v", i, nors), Run: func() string {
				s := mk()
				s.NoRunningStatus = nors
				var buf bytes.Buffer
				n, err := s.WriteTo(&buf)
				return fmt.Sprintf("%d %v %s", n, err, hexs(buf.Bytes()))
			}})
		}
	}
	return cs
}

// SMFRead: ReadFrom of unrelated files from memory (C02, C05, C09).
func SMFRead() []cp.Case {
	var cs []cp.Case
	for i, mk := range values() {
		var buf bytes.Buffer
		mk().WriteTo(&buf)
		data := buf.Bytes()
		cs = append(cs, cp.Case{Name: fmt.Sprintf("ReadFrom/file%d", i), Run: func() string {
			s, err := smf.ReadFrom(bytes.NewReader(data))
			if err != nil {
				return "error " + err.Error()
			}
			return renderSMF(s)
		}})
		cut := data[:len(data)-5]
		cs = append(cs, cp.Case{Name: fmt.Sprintf("ReadFrom/file%d-truncated", i), Run: func() string {
			s, err := smf.ReadFrom(bytes.NewReader(cut))
			if err != nil {
				return "error"
			}
			return renderSMF(s)
		}})
	}
	return cs
}

// Ctors: channel-voice and system-common constructors with their accessors (C07).
func Ctors() []cp.Case {
	var cs []cp.Case
	add := func(name string, f func() string) { cs = append(cs, cp.Case{Name: name, Run: f}) }
	for _, a := range [][3]uint8{{1, 60, 100}, {14, 127, 1}} {
		a := a
		add(fmt.Sprintf("NoteOn/%v", a), func() string {
			m := midi.NoteOn(a[0], a[1], a[2])
			var c, k, v uint8
			ok := m.GetNoteOn(&c, &k, &v)
			return fmt.Sprintf("%s %v %d %d %d", hexs(m), ok, c, k, v)
		})
		add(fmt.Sprintf("ControlChange/%v", a), func() string {
			m := midi.ControlChange(a[0], a[1], a[2])
			var c, k, v uint8
			ok := m.GetControlChange(&c, &k, &v)
			return fmt.Sprintf("%s %v %d %d %d", hexs(m), ok, c, k, v)
		})
		add(fmt.Sprintf("PolyAfterTouch/%v", a), func() string {
			m := midi.PolyAfterTouch(a[0], a[1], a[2])
			var c, k, v uint8
			ok := m.GetPolyAfterTouch(&c, &k, &v)
			return fmt.Sprintf("%s %v %d %d %d", hexs(m), ok, c, k, v)
		})
		add(fmt.Sprintf("ProgramChange/%v", a), func() string {
			m := midi.ProgramChange(a[0], a[1])
			var c, p uint8
			ok := m.GetProgramChange(&c, &p)
			return fmt.Sprintf("%s %v %d %d", hexs(m), ok, c, p)
		})
	}
	for _, v := range []int16{-8192, 5000} {
		v := v
		add(fmt.Sprintf("Pitchbend/%d", v), func() string {
			m := midi.Pitchbend(2, v)
			var c uint8
			var rel int16
			var abs uint16
			ok := m.GetPitchBend(&c, &rel, &abs)
			return fmt.Sprintf("%s %v %d %d %d", hexs(m), ok, c, rel, abs)
		})
	}
	for _, v := range []uint16{4000, 16383} {
		v := v
		add(fmt.Sprintf("SPP/%d", v), func() string {
			m := midi.SPP(v)
			var g uint16
			ok := m.GetSPP(&g)
			return fmt.Sprintf("%s %v %d", hexs(m), ok, g)
		})
	}
	for _, n := range []int{3, 40} {
		n := n
		add(fmt.Sprintf("SysEx/%d", n), func() string {
			p := bytes.Repeat([]byte{byte(n)}, n)
			m := midi.SysEx(p)
			var g []byte
			ok := m.GetSysEx(&g)
			return fmt.Sprintf("%s %v %s", hexs(m), ok, hexs(g))
		})
	}
	return cs
}

// Classify: type, category, string form of unrelated byte strings (C08).
func Classify() []cp.Case {
	var cs []cp.Case
	for _, b := range [][]byte{{0x90, 60, 100}, {0xF0, 1, 2, 0xF7}, {0xF8}, {0xF2, 1, 2}, {0xFF, 0x51, 3, 7, 0xA1, 0x20}, {0x42}, {0xFF, 0x58, 4, 3, 2, 24, 8}} {
		b := b
		cs = append(cs, cp.Case{Name: fmt.Sprintf("midi.Message/%X", b), Run: func() string {
			m := midi.Message(b)
			return fmt.Sprintf("%s %q %v %v %v", m.Type(), m.String(), m.Is(midi.ChannelMsg), m.IsPlayable(), m.IsOneOf(midi.RealTimeMsg, midi.SysExMsg))
		}})
		cs = append(cs, cp.Case{Name: fmt.Sprintf("smf.Message/%X", b), Run: func() string {
			m := smf.Message(b)
			return fmt.Sprintf("%s %q %v %v %v", m.Type(), m.String(), m.IsMeta(), m.IsPlayable(), m.Is(smf.MetaMsg))
		}})
	}
	return cs
}

// Sysex: manufacturer sysex build/parse/checksum and machine control (C18).
func Sysex() []cp.Case {
	var cs []cp.Case
	for i, v := range []sysex.Manufacturer{
		{ManufacturerID: 0x41, DeviceID: 0x10, ModelID: 0x42, Address: [3]byte{0x40, 0x00, 0x7F}, SendingData: []byte{1, 2, 3}},
		{ManufacturerID: 0x41, DeviceID: 0x11, ModelID: 0x6A, Address: [3]byte{0x01, 0x02, 0x03}, NumReqBytes: [3]byte{0, 1, 2}, InfoRequest: true},
		{ManufacturerID: 0x43, DeviceID: 0x7F, ModelID: 0x01, Address: [3]byte{0x7F, 0x7F, 0x7F}, SendingData: bytes.Repeat([]byte{0x55}, 64)},
	} {
		v := v
		cs = append(cs, cp.Case{Name: fmt.Sprintf("sysex.Manufacturer/%d", i), Run: func() string {
			b := v.SysEx()
			p, err := sysex.Parse(b)
			if err != nil {
				return hexs(b) + " error " + err.Error()
			}
			return fmt.Sprintf("%s sum=%d %+v", hexs(b), v.Checksum(), *p)
		}})
	}
	for i, g := range []mmc.GoTo{{DeviceID: 1, Hour: 1, Minute: 2, Second: 3, Frame: 4, SubFrame: 5}, {DeviceID: 127, Hour: 23, Minute: 59, Second: 58, Frame: 29, SubFrame: 99}} {
		g := g
		cs = append(cs, cp.Case{Name: fmt.Sprintf("mmc.GoTo/%d", i), Run: func() string {
			b := g.SysEx()
			var back mmc.GoTo
			err := back.Parse(b)
			return fmt.Sprintf("%s %v %+v", hexs(b), err, back)
		}})
	}
	for i, m := range []mmc.Message{{DeviceID: 3, Command: mmc.PlayCmd}, {DeviceID: 100, Command: mmc.StopCmd}} {
		m := m
		cs = append(cs, cp.Case{Name: fmt.Sprintf("mmc.Message/%d", i), Run: func() string {
			b := m.SysEx()
			var back mmc.Message
			err := back.Parse(b)
			return fmt.Sprintf("%s %v %+v %s", hexs(b), err, back, m.String())
		}})
	}
	return cs
}

// Midicat: decoding unrelated line streams (C19).
func Midicat() []cp.Case {
	var cs []cp.Case
	for i, st := range []string{"12 903C40\n0 80\n", "-5 F0010203F7\n2147483647 C005\n", "7 9\nxx\n"} {
		st := st
		cs = append(cs, cp.Case{Name: fmt.Sprintf("ReadAndConvert/stream%d", i), Run: func() string {
			rd := strings.NewReader(st)
			var sb strings.Builder
			for k := 0; k < 4; k++ {
				out, ts, err := midicat.ReadAndConvert(rd)
				fmt.Fprintf(&sb, "[%X %d %v]", out, ts, err != nil)
			}
			return sb.String()
		}})
	}
	return cs
}

// TimeAt: tick-to-time conversion on unrelated tempo maps (C11); Convert:
// format 0 to format 1 of unrelated files (C16).
func TimeAt() []cp.Case {
	var cs []cp.Case
	for i, mk := range values() {
		var buf bytes.Buffer
		mk().WriteTo(&buf)
		data := buf.Bytes()
		if i == 2 {
			continue // SMPTE: no tempo map
		}
		cs = append(cs, cp.Case{Name: fmt.Sprintf("TimeAt/file%d", i), Run: func() string {
			s, err := smf.ReadFrom(bytes.NewReader(data))
			if err != nil {
				return "error"
			}
			out := fmt.Sprint(s.TimeAt(0), s.TimeAt(480), s.TimeAt(300001), s.TimeAt(1<<22))
			smf.ReadTracksFrom(bytes.NewReader(data)).Do(func(te smf.TrackEvent) { out += fmt.Sprintf(" %d@%d", te.AbsTicks, te.AbsMicroSeconds) })
			mt := smf.MetricTicks(96 + i)
			return out + fmt.Sprint(" ", mt.Ticks(120, mt.Duration(120, 12345)))
		}})
	}
	return cs
}

func Convert() []cp.Case {
	var cs []cp.Case
	for i := 0; i < 2; i++ {
		i := i
		cs = append(cs, cp.Case{Name: fmt.Sprintf("ConvertToSMF1/file%d", i), Run: func() string {
			s := smf.New()
			s.TimeFormat = smf.MetricTicks(96)
			var t smf.Track
			for k := 0; k < 6; k++ {
				t.Add(uint32(k*(i+1)), midi.NoteOn(uint8((k*(i+2))%5), uint8(60+k), 100))
				if k%2 == i {
					t.Add(3, smf.MetaLyric(fmt.Sprint("w", k)))
				}
			}
			t.Close(uint32(7 + i))
			s.Add(t)
			err := s.ConvertToSMF1()
			return fmt.Sprintf("%v %s", err, renderSMF(s))
		}})
	}
	return cs
}

// Export: sequencer export of unrelated songs (C20).
func Export() []cp.Case {
	var cs []cp.Case
	for i := 0; i < 2; i++ {
		i := i
		cs = append(cs, cp.Case{Name: fmt.Sprintf("Song.ToSMF0+ToSMF1/song%d", i), Run: func() string {
			sq := sequencer.New()
			sq.Ticks = smf.MetricTicks(960 - 480*uint16(i))
			for b := 0; b < 3; b++ {
				bar := sequencer.Bar{TimeSig: [2]uint8{uint8(3 + b + i), 4}}
				bar.Events = append(bar.Events, &sequencer.Event{TrackNo: b % 2, Pos: uint8(4 * b), Duration: uint8(2 + i), Message: smf.Message(midi.NoteOn(uint8(i), uint8(60+b), 100))})
				sq.AddBar(bar)
			}
			f0 := sq.ToSMF0()
			f1 := sq.ToSMF1()
			return renderSMF(&f0) + " || " + renderSMF(&f1)
		}})
	}
	return cs
}

// Meta: every constructor family with two argument tuples, rendered with
// what the matching accessor returns. Two such calls in two threads must not
// disturb each other (no shared scratch state), for every schedule with at
// most two preemptions at the instrumented accesses to package-level state.
func Meta() []cp.Case {
	var cs []cp.Case
	add := func(name string, f func() string) { cs = append(cs, cp.Case{Name: name, Run: f}) }
	for _, v := range []uint16{0x0102, 0xA1B2} {
		v := v
		add(fmt.Sprintf("MetaSequenceNo/%d", v), func() string {
			m := smf.MetaSequenceNo(v)
			var g uint16
			ok := m.GetMetaSeqNumber(&g)
			return fmt.Sprintf("% X %v %d", []byte(m), ok, g)
		})
	}
	for _, v := range []uint8{3, 14} {
		v := v
		add(fmt.Sprintf("MetaChannel/%d", v), func() string {
			m := smf.MetaChannel(v)
			var g uint8
			ok := m.GetMetaChannel(&g)
			return fmt.Sprintf("% X %v %d", []byte(m), ok, g)
		})
		add(fmt.Sprintf("MetaPort/%d", v), func() string {
			m := smf.MetaPort(v)
			var g uint8
			ok := m.GetMetaPort(&g)
			return fmt.Sprintf("% X %v %d", []byte(m), ok, g)
		})
	}
	for _, n := range []int{5, 200} {
		n := n
		add(fmt.Sprintf("MetaText/%d", n), func() string {
			m := smf.MetaText(string(content(n, n%3)))
			var g string
			ok := m.GetMetaText(&g)
			return fmt.Sprintf("% X %v %q", []byte(m), ok, g)
		})
		add(fmt.Sprintf("MetaLyric/%d", n), func() string {
			m := smf.MetaLyric(string(content(n, 1+n%3)))
			var g string
			ok := m.GetMetaLyric(&g)
			return fmt.Sprintf("% X %v %q", []byte(m), ok, g)
		})
		add(fmt.Sprintf("MetaSequencerData/%d", n), func() string {
			m := smf.MetaSequencerData(content(n, 2))
			var g []byte
			ok := m.GetMetaSeqData(&g)
			return fmt.Sprintf("% X %v % X", []byte(m), ok, g)
		})
	}
	for _, a := range [][5]byte{{1, 2, 3, 4, 5}, {23, 59, 58, 29, 99}} {
		a := a
		add(fmt.Sprintf("MetaSMPTE/%v", a), func() string {
			m := smf.MetaSMPTE(a[0], a[1], a[2], a[3], a[4])
			var g [5]uint8
			ok := m.GetMetaSMPTEOffsetMsg(&g[0], &g[1], &g[2], &g[3], &g[4])
			return fmt.Sprintf("% X %v %v", []byte(m), ok, g)
		})
	}
	for _, a := range [][4]uint8{{3, 4, 24, 8}, {7, 16, 12, 4}} {
		a := a
		add(fmt.Sprintf("MetaTimeSig/%v", a), func() string {
			m := smf.MetaTimeSig(a[0], a[1], a[2], a[3])
			var g [4]uint8
			ok := m.GetMetaTimeSig(&g[0], &g[1], &g[2], &g[3])
			var n, d uint8
			ok2 := m.GetMetaMeter(&n, &d)
			return fmt.Sprintf("% X %v %v %v %d/%d", []byte(m), ok, g, ok2, n, d)
		})
	}
	for _, a := range []struct {
		key, num  uint8
		maj, flat bool
	}{{2, 2, true, false}, {8, 4, false, true}} {
		a := a
		add(fmt.Sprintf("MetaKey/%v", a), func() string {
			m := smf.MetaKey(a.key, a.maj, a.num, a.flat)
			var k, n uint8
			var mj, fl bool
			ok := m.GetMetaKeySig(&k, &n, &mj, &fl)
			var kk smf.Key
			ok2 := m.GetMetaKey(&kk)
			return fmt.Sprintf("% X %v %d %d %v %v %v %s | %s", []byte(m), ok, k, n, mj, fl, ok2, kk.String(), m.String())
		})
	}
	for _, bpm := range []float64{120, 61.5} {
		bpm := bpm
		add(fmt.Sprintf("MetaTempo/%v", bpm), func() string {
			m := smf.MetaTempo(bpm)
			var g float64
			ok := m.GetMetaTempo(&g)
			return fmt.Sprintf("% X %v %.6f", []byte(m), ok, g)
		})
	}
	add("named-keys/DMaj+BbMin", func() string {
		return fmt.Sprintf("% X % X", []byte(smf.DMaj()), []byte(smf.BbMin()))
	})
	return cs
}

// content: n bytes of one of four simple patterns.
func content(n, pat int) []byte {
	b := make([]byte, n)
	for i := range b {
		switch pat {
		case 0:
			b[i] = 0
		case 1:
			b[i] = 0xFF
		case 2:
			b[i] = byte(i)
		default:
			b[i] = "text"[i%4]
		}
	}
	return b
}
