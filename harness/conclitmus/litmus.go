// Package conclitmus is a deliberately broken piece of code in the style of
// a "hoisted scratch buffer": Encode builds its result in package-level state.
// It is instrumented by the same rewriter as the library (INSTRUMENT:
// globals-harness conclitmus); the pair exploration MUST find the schedule in
// which two concurrent calls disturb each other, and MUST NOT report the
// variant that uses a local buffer. A failure is a harness defect (exit 2).
package conclitmus

import "sync"

var scratch [4]byte

var kept struct {
	sync.Mutex
	buf []byte
}

// fill puts v's bytes into the kept buffer under its lock and returns the
// buffer: the caller reads it after the lock has been released.
func fill(v uint32) []byte {
	kept.Lock()
	defer kept.Unlock()
	b := append(kept.buf[:0], byte(v>>24), byte(v>>16), byte(v>>8), byte(v))
	kept.buf = b
	return b
}

// EncodeReturned copies the bytes out of the buffer that fill hands back.
func EncodeReturned(v uint32) []byte {
	var out []byte
	for _, x := range fill(v) {
		out = append(out, x)
	}
	return out
}

// Encode writes v's four bytes into the shared scratch buffer and returns a copy.
func Encode(v uint32) []byte {
	scratch[0] = byte(v >> 24)
	scratch[1] = byte(v >> 16)
	scratch[2] = byte(v >> 8)
	scratch[3] = byte(v)
	return append([]byte(nil), scratch[:]...)
}

// EncodeAlias is Encode with the shared buffer reached through a local name.
func EncodeAlias(v uint32) []byte {
	b := scratch[:]
	b[0] = byte(v >> 24)
	b[1] = byte(v >> 16)
	b[2] = byte(v >> 8)
	b[3] = byte(v)
	return append([]byte(nil), b...)
}

// EncodeLocal is the correct variant.
func EncodeLocal(v uint32) []byte {
	var b [4]byte
	b[0] = byte(v >> 24)
	b[1] = byte(v >> 16)
	b[2] = byte(v >> 8)
	b[3] = byte(v)
	return append([]byte(nil), b[:]...)
}
