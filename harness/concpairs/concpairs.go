// Package concpairs decides "calls that share no argument do not disturb each
// other" for families of library calls: every unordered pair of cases is run
// as two threads under the cooperative scheduler (vsync), all schedules with
// at most two preemptions, switch points in front of every statement that
// touches mutable package-level state (source instrumentation "globals" of
// tools/rewrite, generated from the current tree). Each thread's result must
// be the result of the same call run alone.
//
// On a tree without mutable package-level state in the instrumented packages
// there are no switch points inside the calls and every pair has exactly the
// two serial schedules; the machinery is kept honest by the litmus pair
// (package conclitmus), which must be reported.
package concpairs

import (
	"encoding/hex"
	"fmt"
	"strings"

	"gitlab.com/gomidi/midi/v2/internal/verifh/conclitmus"
	"gitlab.com/gomidi/midi/v2/internal/verifh/engine"
	vs "gitlab.com/gomidi/midi/v2/internal/verifh/vsync"
)

// Case is one call with fixed arguments; Run returns a rendering of everything
// the call returned.
type Case struct {
	Name string // "<function>/<arguments>"
	Run  func() string
}

const maxExecPerPair = 200000

// Litmus checks the machinery itself; call once per process that uses Check.
func Litmus(ctx *engine.Ctx) {
	enc := func(f func(uint32) []byte, v uint32) func() string {
		return func() string { return hex.EncodeToString(f(v)) }
	}
	a, b := enc(conclitmus.Encode, 0x01020304), enc(conclitmus.Encode, 0xA1A2A3A4)
	r := vs.Concurrent2(2, a, b, a(), b(), maxExecPerPair)
	ctx.Guard(r.Bad && r.Accesses > 0, "concurrency litmus: the shared scratch buffer of conclitmus.Encode was not detected (executions %d, access points %d): the globals instrumentation is not in effect", r.Executions, r.Accesses)
	a, b = enc(conclitmus.EncodeAlias, 0x01020304), enc(conclitmus.EncodeAlias, 0xA1A2A3A4)
	r = vs.Concurrent2(2, a, b, a(), b(), maxExecPerPair)
	ctx.Guard(r.Bad && r.Accesses > 0, "concurrency litmus: the shared scratch buffer reached through a local alias (conclitmus.EncodeAlias) was not detected (executions %d, access points %d)", r.Executions, r.Accesses)
	a, b = enc(conclitmus.EncodeReturned, 0x01020304), enc(conclitmus.EncodeReturned, 0xA1A2A3A4)
	r = vs.Concurrent2(2, a, b, a(), b(), maxExecPerPair)
	ctx.Guard(r.Bad && r.Accesses > 0, "concurrency litmus: the shared buffer handed back by a helper and read after its lock is released (conclitmus.EncodeReturned) was not detected (executions %d, access points %d)", r.Executions, r.Accesses)
	a, b = enc(conclitmus.EncodeLocal, 0x01020304), enc(conclitmus.EncodeLocal, 0xA1A2A3A4)
	r = vs.Concurrent2(2, a, b, a(), b(), maxExecPerPair)
	ctx.Guard(!r.Bad && r.HardError == "", "concurrency litmus: the correct variant was reported: %s %s", r.What, r.HardError)
	if r2 := vs.Concurrent2(2, a, b, a(), b(), maxExecPerPair); r2.Executions != r.Executions {
		ctx.Guard(false, "concurrency litmus: exploration is not reproducible (%d vs %d executions)", r.Executions, r2.Executions)
	}
}

// Check explores every unordered pair of cases (including a case with itself).
func Check(ctx *engine.Ctx, family string, cases []Case) {
	ctx.DisturbOff()
	defer ctx.DisturbOn()
	alone := make([]string, len(cases))
	for i, c := range cases {
		alone[i] = c.Run()
		if again := c.Run(); again != alone[i] {
			sig := "concurrent:not-even-repeatable:" + family + ":" + fn(c.Name)
			if ctx.SigCount(sig) < 3 {
				ctx.Violation(sig, map[string]interface{}{"kind": "concurrent", "family": family, "a": c.Name, "b": c.Name,
					"what": fmt.Sprintf("the same call run twice in sequence gives %s and then %s", alone[i], again)})
			}
		}
	}
	for i := range cases {
		for j := i; j < len(cases); j++ {
			r := vs.Concurrent2(2, cases[i].Run, cases[j].Run, alone[i], alone[j], maxExecPerPair)
			ctx.Eval()
			ctx.Add("concurrent_pairs", 1)
			ctx.Add("concurrent_schedules", r.Executions)
			ctx.Add("concurrent_access_points", int64(r.Accesses))
			ctx.Max("max:concurrent_schedule_length", int64(r.MaxPoints))
			if r.Accesses > 0 {
				ctx.NontrivialN(1)
			}
			if r.Capped {
				ctx.NotExhaustive(fmt.Sprintf("pair %s | %s: more than %d schedules within two preemptions", cases[i].Name, cases[j].Name, maxExecPerPair))
			}
			if r.HardError != "" {
				ctx.Guard(false, "pair %s | %s: schedule replay diverged (%s): nondeterminism outside the scheduler", cases[i].Name, cases[j].Name, r.HardError)
			}
			if r.Bad {
				sig := "concurrent:" + family + ":" + fn(cases[i].Name) + "+" + fn(cases[j].Name)
				if ctx.SigCount(sig) < 3 {
					ctx.Violation(sig, map[string]interface{}{"kind": "concurrent", "family": family, "a": cases[i].Name, "b": cases[j].Name,
						"choices": r.Choices, "what": "two calls running at the same time disturb each other: " + r.What})
				}
			}
		}
	}
}

// Replay re-runs the pair named in a replay file (the whole pair exploration:
// it is small) and reports.
func Replay(ctx *engine.Ctx, m map[string]interface{}, family string, cases []Case) bool {
	if m["kind"] != "concurrent" || m["family"] != family {
		return false
	}
	var sel []Case
	for _, c := range cases {
		if c.Name == m["a"] || c.Name == m["b"] {
			sel = append(sel, c)
		}
	}
	if len(sel) == 0 {
		fmt.Println("REPLAY: the cases named in the file do not exist any more")
		return true
	}
	Check(ctx, family, sel)
	return true
}

func fn(name string) string {
	if i := strings.Index(name, "/"); i >= 0 {
		return name[:i]
	}
	return name
}
