// Package disturb holds library operations that are run between the cases of
// the checks on pure functions and codecs (engine.Ctx.Eval): each works on
// objects of its own, and each is chosen to leave something behind if the
// library keeps scratch memory, pools or flags between calls - a file that
// fails inside a long payload, inside a chunk length, with huge lengths; a
// write that fails; a line of the text protocol cut inside its hex part; a
// sysex left open on a reader; constructors and helpers with extreme
// arguments. Whatever the case that follows computes must not depend on it.
package disturb

import (
	"bytes"
	"errors"
	"io"
	"strings"

	"gitlab.com/gomidi/midi/v2"
	"gitlab.com/gomidi/midi/v2/drivers"
	"gitlab.com/gomidi/midi/v2/drivers/midicat"
	"gitlab.com/gomidi/midi/v2/internal/verifh/engine"
	"gitlab.com/gomidi/midi/v2/mmc"
	"gitlab.com/gomidi/midi/v2/smf"
	"gitlab.com/gomidi/midi/v2/sysex"
)

type op struct {
	name string
	f    func()
}

func hdr(format, ntrks, div uint16) []byte {
	return []byte{'M', 'T', 'h', 'd', 0, 0, 0, 6, byte(format >> 8), byte(format), byte(ntrks >> 8), byte(ntrks), byte(div >> 8), byte(div)}
}

func chunk(typ string, body []byte) []byte {
	n := len(body)
	return append([]byte{typ[0], typ[1], typ[2], typ[3], byte(n >> 24), byte(n >> 16), byte(n >> 8), byte(n)}, body...)
}

func read(b []byte) func() {
	return func() { smf.ReadFrom(bytes.NewReader(b)) }
}

func fill(n int, seed byte) []byte {
	b := make([]byte, n)
	for i := range b {
		b[i] = (seed + byte(i*13)) | 0x01
		b[i] &= 0x7F
	}
	return b
}

type failWriter struct{ left int }

func (w *failWriter) Write(p []byte) (int, error) {
	if len(p) > w.left {
		n := w.left
		w.left = 0
		return n, errors.New("disturb: destination full")
	}
	w.left -= len(p)
	return len(p), nil
}

var ops []op

func init() {
	long := append([]byte{0x00, 0xF0, 0xA7, 0x10}, fill(5000, 0x21)...) // sysex declaring 5008 bytes, 5000 present
	text := append([]byte{0x00, 0xFF, 0x01, 0xC6, 0x28}, fill(9000, 0x33)...)
	valid := append(hdr(1, 2, 480), chunk("MTrk", []byte{0x00, 0xFF, 0x51, 0x03, 0x07, 0xA1, 0x20, 0x00, 0xFF, 0x2F, 0x00})...)
	valid = append(valid, chunk("MTrk", []byte{0x00, 0x91, 0x3C, 0x40, 0x60, 0x3C, 0x00, 0x00, 0xFF, 0x2F, 0x00})...)
	ops = []op{
		{"read a file that ends inside a 5000-byte sysex", read(append(hdr(0, 1, 96), chunk("MTrk", long)...))},
		{"read a file that ends inside a 9000-byte text", read(append(hdr(0, 1, 96), chunk("MTrk", text[:6000])...))},
		{"read a file whose unknown chunk declares FF FF FF FF bytes", read(append(append(hdr(0, 1, 96), 'X', 'X', 'X', 'X', 0xFF, 0xFF, 0xFF, 0xFF), 0x7F, 0x7F, 0x7F))},
		{"read a file whose track chunk declares 7F FF FF FF bytes", read(append(append(hdr(0, 1, 96), 'M', 'T', 'r', 'k', 0x7F, 0xFF, 0xFF, 0xFF), 0x00, 0x9F, 0x7F, 0x7F))},
		{"read a file cut inside a chunk length", read(append(hdr(0, 1, 96), 'M', 'T', 'r', 'k', 0x7F, 0x7F))},
		{"read a file cut inside the header", read(hdr(0x7F7F, 0x7F7F, 0x7F7F)[:11])},
		{"read a file cut inside a delta time", read(append(hdr(0, 1, 96), chunk("MTrk", []byte{0xFF, 0xFF})...))},
		{"read a file cut inside a channel message", read(append(hdr(0, 1, 96), chunk("MTrk", []byte{0x7F, 0x9F, 0x7F})...))},
		{"read a file with a tempo of all ones and a huge meta length", read(append(hdr(0, 1, 96), chunk("MTrk", []byte{0x00, 0xFF, 0x51, 0x03, 0xFF, 0xFF, 0xFF, 0x00, 0xFF, 0x7F, 0xFF, 0xFF, 0xFF, 0x7F, 0x01})...))},
		{"read a valid two-track file", read(valid)},
		{"read a valid file and ask for times", func() {
			if s, err := smf.ReadFrom(bytes.NewReader(valid)); err == nil {
				s.TimeAt(1000)
				s.ConvertToSMF1()
			}
		}},
		{"write a file to a destination that fails in the header", func() {
			s := smf.New()
			var t smf.Track
			t.Add(0x0FFFFFFF, midi.NoteOn(15, 127, 127))
			t.Close(0x0FFFFFFF)
			s.Add(t)
			s.WriteTo(&failWriter{left: 9})
		}},
		{"write a file with a long sysex to a destination that fails in the track", func() {
			s := smf.NewSMF1()
			s.TimeFormat = smf.TimeCode{FramesPerSecond: 29, SubFrames: 0x7F}
			var t smf.Track
			t.Add(0x7F, smf.Message(append([]byte{0xF0}, append(fill(6000, 0x55), 0xF7)...)))
			t.Add(0x3FFF, smf.MetaText(string(fill(200, 0x41))))
			t.Close(0)
			s.Add(t)
			s.WriteTo(&failWriter{left: 3000})
		}},
		{"write a file completely", func() {
			s := smf.New()
			var t smf.Track
			t.Add(1, midi.ControlChange(3, 7, 100))
			t.Add(2, midi.ControlChange(3, 10, 64))
			t.Close(3)
			s.Add(t)
			s.WriteTo(io.Discard)
		}},
		{"decode a line of the text protocol that ends inside its hex part", func() { midicat.ReadAndConvert(strings.NewReader("2147483647 B07B7")) }},
		{"decode a line of the text protocol with a bad time stamp and a long tail", func() {
			midicat.ReadAndConvert(strings.NewReader("x7 " + strings.Repeat("7F", 700) + "\n"))
		}},
		{"decode a valid line of the text protocol", func() { midicat.ReadAndConvert(strings.NewReader("-5 F07E7F0901F7\n")) }},
		{"leave a sysex open on a reader of its own", func() {
			rd := drivers.NewReader(drivers.ListenConfig{SysEx: true, TimeCode: true, ActiveSense: true, SysExBufferSize: 64}, func([]byte, int32) {})
			rd.EachMessage([]byte{0x9F, 0x7F, 0xF0, 0x7F, 0x7F, 0x7F, 0x7F, 0x7F, 0x7F, 0x7F, 0x7F, 0x7F}, 77)
		}},
		{"feed a reader of its own a cut channel message and real-time bytes", func() {
			rd := drivers.NewReader(drivers.ListenConfig{}, func([]byte, int32) {})
			rd.EachMessage([]byte{0xF2, 0x7F, 0xFF, 0xEF, 0x7F, 0xF8}, 1<<31-1)
		}},
		{"build and parse a Roland data set with a long dense payload", func() {
			v := sysex.Manufacturer{ManufacturerID: 0x7F, DeviceID: 0x7F, ModelID: 0x7F, Address: [3]byte{0x7F, 0x7F, 0x7F}, SendingData: fill(3000, 0x7F)}
			b := v.SysEx()
			sysex.Parse(b)
			if len(b) > 10 {
				sysex.Parse(b[:len(b)/2])
			}
		}},
		{"build and parse machine control messages", func() {
			g := mmc.GoTo{DeviceID: 0x7F, Hour: 23, Minute: 59, Second: 59, Frame: 29, SubFrame: 99}
			b := g.SysEx()
			var g2 mmc.GoTo
			g2.Parse(b)
			var m mmc.Message
			m.Parse([]byte{0xF0, 0x7F, 0x7F, 0x07, 0x7F, 0x7F, 0x7F, 0x7F, 0xF7})
		}},
		{"constructors with the largest arguments", func() {
			_ = midi.Pitchbend(255, 32767)
			_ = midi.SPP(65535)
			_ = midi.NoteOffVelocity(255, 255, 255)
			_ = midi.MTC(255)
			_ = smf.MetaTempo(0.0001)
			_ = smf.MetaSMPTE(255, 255, 255, 255, 255)
			_ = smf.MetaSequencerData(fill(300, 0x7F))
			_ = smf.MetaMeter(255, 128)
			_ = smf.MetaLyric(string(fill(20000, 0x7B)))
		}},
		{"accessors on the messages of other kinds", func() {
			var a, b, c uint8
			var bpm float64
			var s string
			var rel int16
			var abs uint16
			m := smf.Message{0xFF, 0x51, 0x03, 0x7F, 0x7F, 0x7F}
			m.GetMetaTempo(&bpm)
			smf.Message{0xFF, 0x58, 0x04, 0x7F, 0x07, 0x7F, 0x7F}.GetMetaMeter(&a, &b)
			smf.Message(append([]byte{0xFF, 0x05, 0x81, 0x48}, fill(200, 0x7B)...)).GetMetaLyric(&s)
			midi.Message{0xEF, 0x7F, 0x7F}.GetPitchBend(&a, &rel, &abs)
			midi.Message{0xF2, 0x7F, 0x7F}.GetSPP(&abs)
			midi.Message{0x9F, 0x7F, 0x7F}.GetNoteOn(&a, &b, &c)
			_ = midi.Message(append([]byte{0xF0, 0x7F, 0x7F, 0x01, 0x01}, 0x7F, 0x7F, 0x7F, 0x7F, 0xF7)).String()
		}},
	}
}

// N is the number of disturbances.
func N() int { return len(ops) }

// Do runs disturbance k (modulo N); a panic inside it is swallowed (what the
// operation itself does is the business of the check it belongs to).
func Do(k int64) {
	o := ops[int(k%int64(len(ops)))]
	engine.Catch(o.f)
}

// Name names disturbance k.
func Name(k int64) string { return ops[int(k%int64(len(ops)))].name }

// Install switches the disturbances of ctx on.
func Install(ctx *engine.Ctx) {
	ctx.Disturb = Do
	ctx.DisturbName = Name
}
