package engine

import (
	"crypto/sha256"
	"sync"
	"sync/atomic"
)

// BFS is an explicit-state breadth-first search over operation histories of a
// real object. Live objects are never cloned: a node is its (shortest)
// operation path; a successor is "fresh instance + replay path + one more
// operation", all done by Run.
type BFS struct {
	NumOps    int
	MaxDepth  int // number of operations; 0 = unbounded (fixpoint)
	MaxStates int // safety cap; 0 = none
	// MaxTransitions: second safety cap, checked inside a level (a search that
	// does not converge because a change made the state space unbounded must
	// not run for hours): 0 = none. Hitting it makes the search Capped.
	MaxTransitions int64

	// Run executes path on a fresh instance (checking whatever invariants the
	// property demands on the way, at least for the last operation) and returns
	// the canonical key of the reached state. ok=false means the last operation
	// is not enabled in the state before it (no transition).
	Run func(path []uint16) (key string, ok bool)

	// Expand, if set, replaces the per-operation calls of Run: it generates all
	// successors of the state reached by path (typically: replay path once on a
	// fresh instance, then one value-copy + one operation per successor) and
	// calls emit for every enabled operation.
	Expand func(path []uint16, emit func(op uint16, key string))

	// Stop, if set, is asked after every level; returning true ends the search
	// (used to stop exploring once a violation has been recorded: on a tree that
	// breaks the property the state space may no longer be small or finite).
	Stop func() bool

	// Start, if set, is the initial frontier (paths whose states are taken as
	// already reached) instead of the empty path: used to shard a search over
	// processes by its first operation(s).
	Start [][]uint16

	// results
	States      int64
	Transitions int64
	Depth       int
	Fixpoint    bool // frontier became empty before MaxDepth/MaxStates stopped the search
	Capped      bool
	LevelSizes  []int
}

type hkey [16]byte

func hashKey(s string) hkey {
	h := sha256.Sum256([]byte(s))
	var k hkey
	copy(k[:], h[:16])
	return k
}

const shards = 64

type seenSet struct {
	mu [shards]sync.Mutex
	m  [shards]map[hkey]struct{}
}

func newSeen() *seenSet {
	s := &seenSet{}
	for i := range s.m {
		s.m[i] = map[hkey]struct{}{}
	}
	return s
}

func (s *seenSet) add(k hkey) bool {
	i := int(k[0]) % shards
	s.mu[i].Lock()
	_, had := s.m[i][k]
	if !had {
		s.m[i][k] = struct{}{}
	}
	s.mu[i].Unlock()
	return !had
}

// Explore runs the search from the empty path. InitKey is the key of the
// initial state.
func (b *BFS) Explore(initKey string) {
	seen := newSeen()
	seen.add(hashKey(initKey))
	b.States = 1
	frontier := [][]uint16{{}}
	if b.Start != nil {
		frontier = b.Start
	}
	var trans atomic.Int64
	var states atomic.Int64
	states.Store(1)
	depth := 0
	for len(frontier) > 0 {
		if b.MaxDepth > 0 && depth >= b.MaxDepth {
			break
		}
		if b.MaxStates > 0 && states.Load() >= int64(b.MaxStates) {
			b.Capped = true
			break
		}
		b.LevelSizes = append(b.LevelSizes, len(frontier))
		var mu sync.Mutex
		var next [][]uint16
		ParallelFor(len(frontier), func(i int) {
			if b.MaxTransitions > 0 && trans.Load() >= b.MaxTransitions {
				return
			}
			p := frontier[i]
			var local [][]uint16
			path := make([]uint16, len(p)+1)
			copy(path, p)
			emit := func(op uint16, key string) {
				trans.Add(1)
				if seen.add(hashKey(key)) {
					states.Add(1)
					np := make([]uint16, len(path))
					copy(np, path)
					np[len(p)] = op
					local = append(local, np)
				}
			}
			if b.Expand != nil {
				b.Expand(p, emit)
			} else {
				for op := 0; op < b.NumOps; op++ {
					path[len(p)] = uint16(op)
					key, ok := b.Run(path)
					if ok {
						emit(uint16(op), key)
					}
				}
			}
			if len(local) > 0 {
				mu.Lock()
				next = append(next, local...)
				mu.Unlock()
			}
		})
		frontier = next
		depth++
		if b.MaxTransitions > 0 && trans.Load() >= b.MaxTransitions {
			b.Capped = true
			break
		}
		if b.Stop != nil && b.Stop() {
			b.Capped = true
			break
		}
	}
	b.Depth = depth
	b.Fixpoint = len(frontier) == 0 && !b.Capped
	b.States = states.Load()
	b.Transitions = trans.Load()
}
