// Package engine is the shared runtime of all property harnesses: tiers,
// violation bookkeeping (signatures, replay files, known findings), evidence
// output, panic capture, parallel enumeration helpers.
package engine

import (
	"context"
	"crypto/sha1"
	"encoding/hex"
	"encoding/json"
	"fmt"
	"os"
	"os/exec"
	"path/filepath"
	"runtime"
	"runtime/debug"
	"runtime/pprof"
	"sort"
	"strconv"
	"strings"
	"sync"
	"sync/atomic"
	"time"
)

// Ctx is one run of one property check.
type Ctx struct {
	ID    string
	Tier  string // quick | thorough
	Seed  int64
	Level string
	Dir   string // /verif

	ReplayPath string // non-empty: replay mode

	start time.Time

	mu         sync.Mutex
	viol       map[string]*violation // by signature
	violOrder  []string
	known      map[string]string // signature -> text
	knownSeen  map[string]bool
	Evals      atomic.Int64
	nontrivial sync.Map // key -> struct{}
	ntCount    atomic.Int64
	samples    []interface{}
	extra      map[string]interface{}
	assume     []string
	notExh     []string
	guards     []string

	// Disturb(k) runs the k-th disturbance (modulo their number); DisturbName
	// names it for violation details.
	Disturb       func(k int64)
	DisturbName   func(k int64) string
	DisturbEvery  int64
	disturbOff    atomic.Int32
	lastDisturb   atomic.Int64
	replayDisturb int64
}

type violation struct {
	Sig    string
	Count  int64
	Replay string
	Detail map[string]interface{}
	size   int
}

// Start reads the environment set up by ./run.
func Start(id, level string) *Ctx {
	c := &Ctx{ID: id, Level: level, start: time.Now(), replayDisturb: -1, DisturbEvery: 997}
	c.lastDisturb.Store(-1)
	c.Tier = os.Getenv("VERIF_TIER")
	if c.Tier != "thorough" {
		c.Tier = "quick"
	}
	c.Seed, _ = strconv.ParseInt(os.Getenv("VERIF_SEED"), 10, 64)
	c.Dir = os.Getenv("VERIF_DIR")
	if c.Dir == "" {
		c.Dir = "/verif"
	}
	c.viol = map[string]*violation{}
	c.known = map[string]string{}
	c.knownSeen = map[string]bool{}
	c.extra = map[string]interface{}{}
	for i := 1; i < len(os.Args); i++ {
		if os.Args[i] == "--replay" && i+1 < len(os.Args) {
			c.ReplayPath = os.Args[i+1]
		}
	}
	debug.SetGCPercent(400)
	c.loadKnown()
	if pf := os.Getenv("VERIF_CPUPROFILE"); pf != "" {
		if f, err := os.Create(pf); err == nil {
			pprof.StartCPUProfile(f)
		}
	}
	return c
}

func (c *Ctx) Thorough() bool { return c.Tier == "thorough" }

// Pick returns q in the quick tier and t in the thorough tier.
func (c *Ctx) Pick(q, t int) int {
	if c.Thorough() {
		return t
	}
	return q
}

func (c *Ctx) loadKnown() {
	b, err := os.ReadFile(filepath.Join(c.Dir, "KNOWN_FINDINGS.txt"))
	if err != nil {
		return
	}
	for _, ln := range strings.Split(string(b), "\n") {
		ln = strings.TrimSpace(ln)
		if !strings.HasPrefix(ln, "known:") {
			continue
		}
		f := strings.Fields(ln[len("known:"):])
		var prop, sig string
		var rest []string
		for _, w := range f {
			switch {
			case strings.HasPrefix(w, "property=") && prop == "":
				prop = w[len("property="):]
			case strings.HasPrefix(w, "signature=") && sig == "":
				sig = w[len("signature="):]
			default:
				rest = append(rest, w)
			}
		}
		if prop == c.ID && sig != "" {
			c.known[sig] = strings.Join(rest, " ")
		}
	}
}

// Violation records one violating case. sig is the refactoring-stable signature
// (DESIGN.md appendix D); detail must contain everything needed to replay the
// case ("kind" selects the replayer). The smallest case per signature is kept.
func (c *Ctx) Violation(sig string, detail map[string]interface{}) {
	sig = strings.ReplaceAll(sig, " ", "_")
	c.mu.Lock()
	defer c.mu.Unlock()
	if txt, ok := c.known[sig]; ok {
		if !c.knownSeen[sig] {
			c.knownSeen[sig] = true
			if !c.IsChild() {
				fmt.Printf("KNOWN-FINDING: property=%s signature=%s %s\n", c.ID, sig, txt)
			}
		}
		return
	}
	if c.Disturb != nil && c.ReplayPath == "" {
		if k := c.lastDisturb.Load(); k >= 0 {
			// (kept so that a replay can put the same operation in front of the case)
			detail["last_disturbance"] = k
			if c.DisturbName != nil {
				detail["last_disturbance_name"] = c.DisturbName(k)
			}
		}
	}
	sz := 0
	if b, err := json.Marshal(detail); err == nil {
		sz = len(b)
	}
	v, ok := c.viol[sig]
	if !ok {
		v = &violation{Sig: sig, Detail: detail, size: sz}
		c.viol[sig] = v
		c.violOrder = append(c.violOrder, sig)
	} else if sz < v.size {
		v.Detail, v.size = detail, sz
	}
	v.Count++
}

// ViolationCount returns the number of distinct unknown signatures so far.
func (c *Ctx) ViolationCount() int {
	c.mu.Lock()
	defer c.mu.Unlock()
	return len(c.viol)
}

// SigSeen tells whether a signature already has a recorded example (lets hot
// loops skip building details).
func (c *Ctx) SigCount(sig string) int64 {
	sig = strings.ReplaceAll(sig, " ", "_")
	c.mu.Lock()
	defer c.mu.Unlock()
	if _, ok := c.known[sig]; ok {
		return 1 << 30
	}
	if v, ok := c.viol[sig]; ok {
		return v.Count
	}
	return 0
}

// Eval counts one evaluated case. With a disturbance installed (package
// disturb) every DisturbEvery-th call first runs one of a rotating list of
// unrelated library operations on objects of their own - broken files read,
// writes that fail, lines cut short, sysex left open: whatever these leave
// behind in the library must not change the case that follows.
func (c *Ctx) Eval() {
	n := c.Evals.Add(1)
	if c.Disturb == nil || c.disturbOff.Load() != 0 {
		return
	}
	if c.replayDisturb >= 0 {
		c.Disturb(c.replayDisturb)
		return
	}
	if c.ReplayPath == "" && n%c.DisturbEvery == 0 {
		k := n / c.DisturbEvery
		c.lastDisturb.Store(k)
		c.Disturb(k)
	}
}

// DisturbOff / DisturbOn bracket a stretch without disturbances.
func (c *Ctx) DisturbOff() { c.disturbOff.Add(1) }
func (c *Ctx) DisturbOn()  { c.disturbOff.Add(-1) }

// PauseDisturb runs f without disturbances (explorations under a controlled
// scheduler own every step of their threads).
func (c *Ctx) PauseDisturb(f func()) {
	c.disturbOff.Add(1)
	defer c.disturbOff.Add(-1)
	f()
}

// Nontrivial registers a distinct non-trivial case by key.
func (c *Ctx) Nontrivial(key string) {
	if _, loaded := c.nontrivial.LoadOrStore(key, struct{}{}); !loaded {
		c.ntCount.Add(1)
	}
}

// NontrivialN adds n distinct non-trivial cases that the caller counted itself
// (per-worker dedup).
func (c *Ctx) NontrivialN(n int64) { c.ntCount.Add(n) }

func (c *Ctx) NontrivialCount() int64 { return c.ntCount.Load() }

// Sample keeps an actual case for the evidence file (first 12 kept).
func (c *Ctx) Sample(s interface{}) {
	c.mu.Lock()
	defer c.mu.Unlock()
	if len(c.samples) < 12 {
		c.samples = append(c.samples, s)
	}
}

func (c *Ctx) SampleCount() int {
	c.mu.Lock()
	defer c.mu.Unlock()
	return len(c.samples)
}

// Set stores an extra coverage key.
func (c *Ctx) Set(key string, v interface{}) {
	c.mu.Lock()
	defer c.mu.Unlock()
	c.extra[key] = v
}

// Add adds to an integer coverage key.
func (c *Ctx) Add(key string, n int64) {
	c.mu.Lock()
	defer c.mu.Unlock()
	cur, _ := c.extra[key].(int64)
	c.extra[key] = cur + n
}

// Max raises an integer coverage key (keys starting with "max:" are merged by
// maximum across worker processes).
func (c *Ctx) Max(key string, n int64) {
	c.mu.Lock()
	defer c.mu.Unlock()
	cur, _ := c.extra[key].(int64)
	if n > cur {
		c.extra[key] = n
	}
}

// GetInt reads an integer coverage key back.
func (c *Ctx) GetInt(key string) int64 {
	c.mu.Lock()
	defer c.mu.Unlock()
	v, _ := c.extra[key].(int64)
	return v
}

func (c *Ctx) Assume(s string) { c.assume = append(c.assume, s) }

// NotExhaustive marks the run as not having completed its stated space.
func (c *Ctx) NotExhaustive(reason string) {
	c.mu.Lock()
	defer c.mu.Unlock()
	c.notExh = append(c.notExh, reason)
}

// Guard is a vacuity guard: a failed guard is a harness defect (exit 2).
func (c *Ctx) Guard(ok bool, format string, a ...interface{}) {
	if !ok {
		c.mu.Lock()
		c.guards = append(c.guards, fmt.Sprintf(format, a...))
		c.mu.Unlock()
	}
}

// Finish writes the evidence file, prints the verdict lines and exits.
func (c *Ctx) Finish(rule string) {
	pprof.StopCPUProfile()
	c.mu.Lock()
	defer c.mu.Unlock()
	wall := time.Since(c.start).Seconds()

	// replay files + VIOLATION lines
	sort.Strings(c.violOrder)
	for _, sig := range c.violOrder {
		v := c.viol[sig]
		v.Detail["signature"] = sig
		v.Detail["property"] = c.ID
		v.Detail["count_in_run"] = v.Count
		b, _ := json.MarshalIndent(v.Detail, "", " ")
		h := sha1.Sum([]byte(sig))
		name := fmt.Sprintf("%s-%s.json", c.ID, hex.EncodeToString(h[:5]))
		path := filepath.Join(c.Dir, "replays", name)
		os.MkdirAll(filepath.Dir(path), 0o755)
		os.WriteFile(path, b, 0o644)
		v.Replay = path
		fmt.Printf("VIOLATION property=%s replay=%s signature=%s cases=%d\n", c.ID, path, sig, v.Count)
	}

	cov := map[string]interface{}{}
	for k, v := range c.extra {
		cov[k] = v
	}
	cov["evaluations"] = c.Evals.Load()
	cov["distinct_nontrivial"] = c.ntCount.Load()
	cov["rule"] = rule
	if len(c.samples) == 0 {
		c.samples = append(c.samples, "no sample recorded")
	}
	cov["samples"] = c.samples
	if _, ok := cov["exhaustive"]; !ok {
		cov["exhaustive"] = len(c.notExh) == 0
	}
	if len(c.notExh) > 0 {
		cov["exhaustive"] = false
		cov["not_exhaustive_because"] = c.notExh
	}
	var knownSeen []string
	for s := range c.knownSeen {
		knownSeen = append(knownSeen, s)
	}
	sort.Strings(knownSeen)
	if len(knownSeen) > 0 {
		cov["known_findings_reproduced"] = knownSeen
	}
	if len(c.violOrder) > 0 {
		cov["violation_signatures"] = c.violOrder
	}
	ev := map[string]interface{}{
		"property_id": c.ID,
		"tier":        c.Tier,
		"seed":        c.Seed,
		"level":       c.Level,
		"coverage":    cov,
		"assumptions": c.assume,
		"wall_s":      float64(int(wall*1000)) / 1000,
		"violations":  len(c.violOrder),
	}
	if c.assume == nil {
		ev["assumptions"] = []string{}
	}
	if c.ReplayPath == "" {
		b, _ := json.MarshalIndent(ev, "", " ")
		p := filepath.Join(c.Dir, "evidence", c.ID+".json")
		if d := os.Getenv("VERIF_EVIDENCE_DIR"); d != "" {
			// runs against a deliberately changed tree (tools/seedtest.py) keep their evidence apart
			p = filepath.Join(d, c.ID+".json")
		}
		os.MkdirAll(filepath.Dir(p), 0o755)
		if err := os.WriteFile(p, append(b, '\n'), 0o644); err != nil {
			fmt.Fprintln(os.Stderr, "cannot write evidence:", err)
			os.Exit(2)
		}
	}
	fmt.Printf("SUMMARY property=%s tier=%s evaluations=%d distinct_nontrivial=%d violations=%d known=%d exhaustive=%v wall=%.1fs\n",
		c.ID, c.Tier, c.Evals.Load(), c.ntCount.Load(), len(c.violOrder), len(knownSeen), cov["exhaustive"], wall)
	if len(c.violOrder) > 0 {
		os.Exit(1)
	}
	if len(c.guards) > 0 {
		for _, g := range c.guards {
			fmt.Fprintln(os.Stderr, "VACUITY-GUARD failed (harness defect, not a verdict):", g)
		}
		os.Exit(2)
	}
	os.Exit(0)
}

// LoadReplay reads the replay file given with --replay.
func (c *Ctx) LoadReplay() map[string]interface{} {
	b, err := os.ReadFile(c.ReplayPath)
	if err != nil {
		fmt.Fprintln(os.Stderr, "cannot read replay:", err)
		os.Exit(2)
	}
	var m map[string]interface{}
	if err := json.Unmarshal(b, &m); err != nil {
		fmt.Fprintln(os.Stderr, "bad replay file:", err)
		os.Exit(2)
	}
	if k, ok := m["last_disturbance"].(float64); ok {
		// the case was found with this operation before it: every case of the
		// replay is preceded by it
		c.replayDisturb = int64(k)
	}
	return m
}

// ---------------------------------------------------------------------------
// panic capture

// Caught describes a recovered panic.
type Caught struct {
	Panicked bool
	Value    string
	Sig      string // panic:<innermost library function>:<class>
	Stack    string
}

const modPrefix = "gitlab.com/gomidi/midi/v2"

// Catch runs f and converts a panic into a signature naming the innermost
// function of the library (not of the harness) on the stack.
func Catch(f func()) (res Caught) {
	defer func() {
		if r := recover(); r != nil {
			buf := make([]byte, 16384)
			buf = buf[:runtime.Stack(buf, false)]
			res.Panicked = true
			res.Value = fmt.Sprint(r)
			res.Stack = string(buf)
			res.Sig = "panic:" + innermostLib(res.Stack) + ":" + panicClass(res.Value)
		}
	}()
	f()
	return
}

func panicClass(v string) string {
	switch {
	case strings.Contains(v, "index out of range"), strings.Contains(v, "slice bounds out of range"):
		return "index"
	case strings.Contains(v, "nil pointer dereference"), strings.Contains(v, "nil map"):
		return "nil-deref"
	case strings.Contains(v, "interface conversion"):
		return "type-assert"
	case strings.Contains(v, "makeslice"), strings.Contains(v, "out of memory"):
		return "alloc"
	case strings.Contains(v, "divide by zero"):
		return "div0"
	case strings.HasPrefix(v, "runtime error"):
		return "runtime"
	default:
		w := strings.Fields(v)
		if len(w) > 3 {
			w = w[:3]
		}
		s := strings.Join(w, "-")
		s = strings.Map(func(r rune) rune {
			if r >= 'a' && r <= 'z' || r >= 'A' && r <= 'Z' || r == '-' {
				return r
			}
			return -1
		}, s)
		return "explicit(" + s + ")"
	}
}

func innermostLib(stack string) string {
	lines := strings.Split(stack, "\n")
	seenPanic := false
	for _, ln := range lines {
		if strings.HasPrefix(ln, "panic(") || strings.HasPrefix(ln, "runtime.gopanic") {
			seenPanic = true
			continue
		}
		if !seenPanic || strings.HasPrefix(ln, "\t") {
			continue
		}
		if strings.HasPrefix(ln, modPrefix) && !strings.Contains(ln, "/internal/verifh/") {
			fn := ln
			if i := strings.LastIndex(fn, "("); i > 0 {
				fn = fn[:i]
			}
			fn = strings.TrimPrefix(fn, modPrefix)
			fn = strings.TrimPrefix(fn, "/")
			fn = strings.TrimPrefix(fn, ".")
			// drop closure suffixes and generic noise
			fn = strings.TrimSuffix(fn, "...")
			return fn
		}
	}
	return "harness"
}

// ---------------------------------------------------------------------------
// parallel helpers

// Workers is the number of parallel workers.
func Workers() int {
	n := runtime.NumCPU()
	if v := os.Getenv("VERIF_WORKERS"); v != "" {
		if k, err := strconv.Atoi(v); err == nil && k > 0 {
			n = k
		}
	}
	return n
}

// ParallelFor runs f(i) for i in [0,n) on Workers() goroutines (dynamic
// scheduling, chunk size 1). f must only share state through Ctx.
func ParallelFor(n int, f func(i int)) {
	var next atomic.Int64
	var wg sync.WaitGroup
	w := Workers()
	if w > n {
		w = n
	}
	for k := 0; k < w; k++ {
		wg.Add(1)
		go func() {
			defer wg.Done()
			for {
				i := int(next.Add(1) - 1)
				if i >= n {
					return
				}
				f(i)
			}
		}()
	}
	wg.Wait()
}

// Hex renders bytes as upper-case hex with spaces.
func Hex(b []byte) string {
	const d = "0123456789ABCDEF"
	out := make([]byte, 0, len(b)*3)
	for i, x := range b {
		if i > 0 {
			out = append(out, ' ')
		}
		out = append(out, d[x>>4], d[x&15])
	}
	return string(out)
}

// UnHex parses the output of Hex.
func UnHex(s string) []byte {
	s = strings.ReplaceAll(s, " ", "")
	b, _ := hex.DecodeString(s)
	return b
}

// Odometer enumerates all tuples in [0,radix[0]) x ... ; returns false when done.
func Odometer(idx []int, radix []int) bool {
	for i := len(idx) - 1; i >= 0; i-- {
		idx[i]++
		if idx[i] < radix[i] {
			return true
		}
		idx[i] = 0
	}
	return false
}

// ---------------------------------------------------------------------------
// process-level sharding
//
// Jobs runs body(0..n-1), each in its own single-threaded child process (the
// same binary re-executed with VERIF_JOB set), at most Workers() at a time, and
// merges the children's partial results into c. This gives near-linear
// scaling for allocation-heavy library code (no shared allocator/GC) and
// isolates the parent from fatal errors (stack overflow, out of memory,
// deadlock) inside the library: a crashed child becomes a violation
// "fatal:<jobs name>" carrying the job number and the tail of its stderr.
//
// In a child, everything in main outside the matching Jobs body runs too and
// must therefore be cheap and free of side effects; c.IsChild() guards the
// rest. The child exits at the end of its body.

type partial struct {
	Evals      int64
	Nontrivial int64
	Extra      map[string]int64
	Viol       []*violation
	Samples    []interface{}
	NotExh     []string
	Guards     []string
	KnownSeen  []string
}

func (c *Ctx) IsChild() bool { return os.Getenv("VERIF_JOB") != "" }

func (c *Ctx) Jobs(name string, n int, body func(job int)) {
	c.JobsW(name, n, 1, body)
}

// JobsW is Jobs with workersPerJob in-process workers in every child (for
// searches whose state set must be shared and whose code allocates little).
func (c *Ctx) JobsW(name string, n int, workersPerJob int, body func(job int)) {
	if jb := os.Getenv("VERIF_JOB"); jb != "" {
		i := strings.LastIndex(jb, ":")
		if i < 0 || jb[:i] != name {
			return
		}
		j, _ := strconv.Atoi(jb[i+1:])
		body(j)
		pprof.StopCPUProfile()
		c.writePartial(os.Getenv("VERIF_PARTIAL"))
		os.Exit(0)
	}
	if os.Getenv("VERIF_INLINE") != "" || c.ReplayPath != "" {
		for j := 0; j < n; j++ {
			body(j)
		}
		return
	}
	work := os.Getenv("VERIF_WORK")
	if work == "" {
		work = os.TempDir()
	}
	var wg sync.WaitGroup
	par := Workers() / workersPerJob
	if par < 1 {
		par = 1
	}
	sem := make(chan struct{}, par)
	var mergeMu sync.Mutex
	for j := 0; j < n; j++ {
		wg.Add(1)
		sem <- struct{}{}
		go func(j int) {
			defer wg.Done()
			defer func() { <-sem }()
			pf := filepath.Join(work, fmt.Sprintf("partial-%s-%d.json", name, j))
			os.Remove(pf)
			var stderr, stdout strings.Builder
			var err error
			for attempt := 0; ; attempt++ {
				stderr.Reset()
				stdout.Reset()
				os.Remove(pf)
				// no worker runs for ever: thirty minutes in the quick tier (its
				// workers need a minute at most on the unchanged tree), eight hours in
				// the thorough one
				limit := 30 * time.Minute
				if c.Thorough() {
					limit = 8 * time.Hour
				}
				jobCtx, cancel := context.WithTimeout(context.Background(), limit)
				cmd := exec.CommandContext(jobCtx, os.Args[0], os.Args[1:]...)
				defer cancel()
				cmd.Env = append(os.Environ(), fmt.Sprintf("VERIF_JOB=%s:%d", name, j), "VERIF_PARTIAL="+pf,
					fmt.Sprintf("VERIF_WORKERS=%d", workersPerJob), fmt.Sprintf("GOMAXPROCS=%d", workersPerJob+1), "VERIF_CPUPROFILE=")
				cmd.Stderr = &stderr
				cmd.Stdout = &stdout
				err = cmd.Run()
				if err == nil {
					break
				}
				if jobCtx.Err() != nil {
					mergeMu.Lock()
					c.Violation("fatal:"+name+":no-end", map[string]interface{}{"kind": "job", "jobs": name, "job": j,
						"what": fmt.Sprintf("worker %s:%d had not come to an end after %v and was stopped (on the unchanged tree it needs a minute at most)", name, j, limit)})
					mergeMu.Unlock()
					return
				}
				// a worker that could not be started, or could not get a thread
				// (process table full, out of descriptors), says nothing about
				// the code under test: wait and try again
				_, exited := err.(*exec.ExitError)
				se := stderr.String()
				env := !exited || strings.Contains(se, "failed to create new OS thread") || strings.Contains(se, "resource temporarily unavailable") || strings.Contains(se, "too many open files")
				if !env {
					break
				}
				if attempt >= 4 {
					mergeMu.Lock()
					c.NotExhaustive(fmt.Sprintf("worker %s:%d could not run on this machine (%v); its share of the space is missing", name, j, err))
					mergeMu.Unlock()
					fmt.Fprintf(os.Stderr, "worker %s:%d could not run: %v\n", name, j, err)
					return
				}
				time.Sleep(time.Duration(3*(attempt+1)) * time.Second)
			}
			mergeMu.Lock()
			defer mergeMu.Unlock()
			if s := stdout.String(); s != "" {
				fmt.Print(s)
			}
			if err != nil {
				tail := stderr.String()
				if len(tail) > 3000 {
					tail = tail[:1500] + "\n...\n" + tail[len(tail)-1500:]
				}
				first := tail
				if i := strings.Index(first, "\n"); i > 0 {
					first = first[:i]
				}
				c.Violation("fatal:"+name+":"+fatalClass(tail), map[string]interface{}{
					"kind": "job", "jobs": name, "job": j, "error": err.Error(), "stderr": tail,
					"what": "worker process died: " + first,
				})
				return
			}
			c.mergePartial(pf)
			os.Remove(pf)
		}(j)
	}
	wg.Wait()
}

func fatalClass(stderr string) string {
	switch {
	case strings.Contains(stderr, "stack overflow"):
		return "stack-overflow"
	case strings.Contains(stderr, "out of memory"), strings.Contains(stderr, "cannot allocate"):
		return "out-of-memory"
	case strings.Contains(stderr, "all goroutines are asleep"):
		return "deadlock"
	case strings.Contains(stderr, "concurrent map"):
		return "concurrent-map"
	case strings.Contains(stderr, "panic:"):
		return "panic"
	}
	return "exit"
}

func (c *Ctx) writePartial(path string) {
	c.mu.Lock()
	defer c.mu.Unlock()
	p := partial{Evals: c.Evals.Load(), Nontrivial: c.ntCount.Load(), Extra: map[string]int64{}, Samples: c.samples, NotExh: c.notExh, Guards: c.guards}
	for k, v := range c.extra {
		if n, ok := v.(int64); ok {
			p.Extra[k] = n
		}
	}
	for _, sig := range c.violOrder {
		p.Viol = append(p.Viol, c.viol[sig])
	}
	for s := range c.knownSeen {
		p.KnownSeen = append(p.KnownSeen, s)
	}
	b, _ := json.Marshal(p)
	if err := os.WriteFile(path, b, 0o644); err != nil {
		fmt.Fprintln(os.Stderr, "cannot write partial:", err)
		os.Exit(2)
	}
}

func (c *Ctx) mergePartial(path string) {
	b, err := os.ReadFile(path)
	if err != nil {
		c.Guard(false, "missing partial result %s", path)
		return
	}
	var p partial
	if err := json.Unmarshal(b, &p); err != nil {
		c.Guard(false, "bad partial result %s: %v", path, err)
		return
	}
	c.Evals.Add(p.Evals)
	c.ntCount.Add(p.Nontrivial)
	c.mu.Lock()
	for k, v := range p.Extra {
		cur, _ := c.extra[k].(int64)
		if strings.HasPrefix(k, "max:") {
			if v > cur {
				c.extra[k] = v
			}
			continue
		}
		c.extra[k] = cur + v
	}
	for _, s := range p.Samples {
		if len(c.samples) < 12 {
			c.samples = append(c.samples, s)
		}
	}
	c.notExh = append(c.notExh, p.NotExh...)
	c.guards = append(c.guards, p.Guards...)
	c.mu.Unlock()
	for _, s := range p.KnownSeen {
		c.mu.Lock()
		if !c.knownSeen[s] {
			c.knownSeen[s] = true
			fmt.Printf("KNOWN-FINDING: property=%s signature=%s %s\n", c.ID, s, c.known[s])
		}
		c.mu.Unlock()
	}
	for _, v := range p.Viol {
		c.mu.Lock()
		sz := 0
		if bb, err := json.Marshal(v.Detail); err == nil {
			sz = len(bb)
		}
		cur, ok := c.viol[v.Sig]
		if !ok {
			v.size = sz
			c.viol[v.Sig] = v
			c.violOrder = append(c.violOrder, v.Sig)
		} else {
			cur.Count += v.Count
			if sz < cur.size {
				cur.Detail, cur.size = v.Detail, sz
			}
		}
		c.mu.Unlock()
	}
}

// Stable detects results that alias a shared scratch buffer: Next(b) reports
// whether the slice handed in by the previous call still has the content it
// had then, and remembers b (and a private copy of it) for the next call.
type Stable struct {
	prev, copyOf []byte
}

func (s *Stable) Next(b []byte) (intact bool, was, now []byte) {
	intact = string(s.prev) == string(s.copyOf)
	was, now = s.copyOf, s.prev
	s.prev = b
	s.copyOf = append([]byte(nil), b...)
	return
}

// Spare returns a copy of data that sits in front of `extra` bytes of spare
// capacity filled with a sentinel, and a function that reports whether the
// spare capacity (or the data itself) was written to. A callee that appends to
// an argument it does not own writes into memory the caller may be using
// (consecutive sub-slices of one buffer).
func Spare(data []byte, extra int) (arg []byte, touched func() string) {
	buf := make([]byte, len(data)+extra)
	copy(buf, data)
	for i := len(data); i < len(buf); i++ {
		buf[i] = 0xEE
	}
	orig := append([]byte(nil), data...)
	arg = buf[:len(data)]
	return arg, func() string {
		for i := len(data); i < len(buf); i++ {
			if buf[i] != 0xEE {
				return fmt.Sprintf("byte %d behind the argument (inside its capacity) was overwritten with %02X", i-len(data), buf[i])
			}
		}
		if string(buf[:len(data)]) != string(orig) {
			return "the argument itself was modified"
		}
		return ""
	}
}

// Owned checks that what a constructor returns belongs to the caller: the
// first result is overwritten in place, the constructor is called again, and
// the second result must be what the first one was (a constructor that hands
// out entries of a shared table, or a cached value, fails). Returns "" or a
// description.
func Owned(f func() []byte) string {
	r1 := f()
	want := append([]byte(nil), r1...)
	for i := range r1 {
		r1[i] ^= 0xA5
	}
	r2 := f()
	if string(r2) != string(want) {
		return fmt.Sprintf("after the first result (% X) was overwritten in place, the same call returns % X", want, r2)
	}
	return ""
}

// Disjoint checks that results handed out by the library do not reach into
// one another: the spare capacity behind every result (what an append by its
// owner would use) is overwritten, after which every result must still hold
// what it held. Results cut from a shared block without a capacity limit
// fail. Returns "" or a description.
func Disjoint(rs [][]byte) string {
	copies := make([][]byte, len(rs))
	for i, r := range rs {
		copies[i] = append([]byte(nil), r...)
	}
	for _, r := range rs {
		full := r[:cap(r)]
		for k := len(r); k < len(full); k++ {
			full[k] = 0xEE
		}
	}
	for i, r := range rs {
		if string(r) != string(copies[i]) {
			return fmt.Sprintf("result %d (% X) changed to % X when the spare capacity behind the other results was written (an append by their owner)", i, clipB(copies[i]), clipB(r))
		}
	}
	return ""
}

func clipB(b []byte) []byte {
	if len(b) > 24 {
		return b[:24]
	}
	return b
}
