package engine

import "sync"

// Interleave2 runs two computations as cooperative threads that can be
// switched at the yield points they announce themselves (typically inside
// the Read or Write method of the io.Reader / io.Writer they were given, after
// the bytes were copied and before the call returns - the instant at which a
// preemption separates "stored" from "used"). It enumerates every schedule
// with at most two switches: A runs up to its i-th yield, B runs up to its
// j-th yield (or to its end), A finishes, B finishes - for all i, j - and the
// mirror image. Exactly one thread runs at any time, so the enumeration is
// deterministic; data that the two computations share behind the caller's
// back (a scratch buffer hoisted to package scope, a pooled object) shows up
// as a result that differs from the sequential one.
//
// run(k) must start both computations afresh for schedule k and return their
// results as comparable strings; it receives the two yield functions.
type Interleaver struct {
	mu      sync.Mutex
	turn    [2]chan struct{}
	count   [2]int
	switchA int // thread 0 hands over at its switchA-th yield (-1: never)
	switchB int // thread 1 hands back at its switchB-th yield (-1: runs to its end)
	done    [2]bool
	first   int
}

func (iv *Interleaver) yield(id int) {
	iv.count[id]++
	other := 1 - id
	sw := iv.switchA
	if id != iv.first {
		sw = iv.switchB
	}
	if iv.count[id] == sw && !iv.done[other] {
		iv.turn[other] <- struct{}{}
		<-iv.turn[id]
	}
}

// Run executes one schedule: thread `first` starts; a and b are the bodies.
func (iv *Interleaver) Run(first, switchFirst, switchSecond int, a, b func(yield func())) {
	iv.turn = [2]chan struct{}{make(chan struct{}, 1), make(chan struct{}, 1)}
	iv.count = [2]int{}
	iv.done = [2]bool{}
	iv.first = first
	iv.switchA, iv.switchB = switchFirst, switchSecond
	var wg sync.WaitGroup
	body := [2]func(yield func()){a, b}
	for id := 0; id < 2; id++ {
		id := id
		wg.Add(1)
		go func() {
			defer wg.Done()
			<-iv.turn[id]
			func() {
				defer func() { recover() }() // a panic is the computation's own result (reported by the caller)
				body[id](func() { iv.yield(id) })
			}()
			iv.done[id] = true
			// hand the baton to the other thread if it is still waiting
			select {
			case iv.turn[1-id] <- struct{}{}:
			default:
			}
		}()
	}
	iv.turn[first] <- struct{}{}
	wg.Wait()
}

// Yields returns how many yield points each thread passed in the last run.
func (iv *Interleaver) Yields() (int, int) { return iv.count[0], iv.count[1] }

// AllSchedules runs bodies a and b under every schedule with at most two
// switches (thread `first` runs until its i-th yield point, the other until its
// j-th or to its end, then the first one finishes) and calls judge after each.
// The yield points are whatever the bodies pass to their yield function
// (normally every Read or Write call of a wrapped reader/writer).
func (iv *Interleaver) AllSchedules(a, b func(yield func()), judge func(first, i, j int)) (schedules int) {
	iv.Run(0, -1, -1, a, b)
	ya, yb := iv.Yields()
	for first := 0; first < 2; first++ {
		n1, n2 := ya, yb
		if first == 1 {
			n1, n2 = yb, ya
		}
		for i := 1; i <= n1; i++ {
			for j := -1; j <= n2; j++ {
				if j == 0 {
					continue
				}
				iv.Run(first, i, j, a, b)
				schedules++
				judge(first, i, j)
			}
		}
	}
	return schedules
}
