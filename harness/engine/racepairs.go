package engine

import (
	"fmt"
	"os"
	"os/exec"
	"regexp"
	"strconv"
	"strings"
	"sync"
)

// RacePairs runs every unordered pair of calls of a family in two real
// goroutines of a fresh process each, under the Go race detector (binary
// built by harness/RACEPREP from the unmodified tree, see
// harness/racepairs). Data race reports, fatal errors of the runtime
// (concurrent map access) and results that differ from the call run alone
// become violations. Sampled schedules - a complement to the exhaustive pair
// exploration, recorded in the evidence as race_pass with exhaustive=false.
func (c *Ctx) RacePairs(family string) {
	bin := os.Getenv("VERIF_RACEPAIRS_BIN")
	if bin == "" {
		c.Guard(false, "race-pair harness not built (PREP did not run)")
		return
	}
	out, err := exec.Command(bin, family, "count").Output()
	n, cerr := strconv.Atoi(strings.TrimSpace(string(out)))
	if err != nil || cerr != nil || n == 0 {
		c.NotExhaustive(fmt.Sprintf("race pairs of %s could not run on this machine (%v %v)", family, err, cerr))
		return
	}
	type pr struct{ i, j int }
	var pairs []pr
	for i := 0; i < n; i++ {
		for j := i; j < n; j++ {
			pairs = append(pairs, pr{i, j})
		}
	}
	var mu sync.Mutex
	var wg sync.WaitGroup
	sem := make(chan struct{}, Workers())
	races, ran := 0, 0
	re := regexp.MustCompile(`gitlab\.com/gomidi/midi/v2[\w/]*\.((?:\(\*?\w+\)\.)?\w+)`)
	for _, p := range pairs {
		wg.Add(1)
		sem <- struct{}{}
		go func(p pr) {
			defer wg.Done()
			defer func() { <-sem }()
			var text string
			var err error
			for attempt := 0; attempt < 3; attempt++ {
				cmd := exec.Command(bin, family, strconv.Itoa(p.i), strconv.Itoa(p.j))
				cmd.Env = append(os.Environ(), "GORACE=halt_on_error=0 exitcode=0", "GOMAXPROCS=4", "VERIF_JOB=")
				var b []byte
				b, err = cmd.CombinedOutput()
				text = string(b)
				if _, exited := err.(*exec.ExitError); err == nil || exited {
					break
				}
			}
			mu.Lock()
			defer mu.Unlock()
			ran++
			detail := func(what string) map[string]interface{} {
				return map[string]interface{}{"kind": "race-pair", "family": family, "a": p.i, "b": p.j, "what": what}
			}
			switch {
			case strings.Contains(text, "WARNING: DATA RACE"):
				races++
				first := text[strings.Index(text, "WARNING: DATA RACE"):]
				if k := strings.Index(first[10:], "=================="); k > 0 {
					first = first[:k+10]
				}
				var names []string
				seen := map[string]bool{}
				for _, m := range re.FindAllStringSubmatch(first, -1) {
					if !seen[m[1]] && !strings.Contains(m[0], "/verifh/") && len(names) < 2 {
						seen[m[1]] = true
						names = append(names, m[1])
					}
				}
				if len(first) > 2500 {
					first = first[:2500]
				}
				sig := "race:" + family + ":" + strings.Join(names, "+")
				if c.SigCount(sig) < 3 {
					c.Violation(sig, detail("data race reported by the Go race detector while two calls ran in two goroutines:\n"+first))
				}
			case strings.Contains(text, "fatal error:"):
				line := text[strings.Index(text, "fatal error:"):]
				if k := strings.Index(line, "\n"); k > 0 {
					line = line[:k]
				}
				c.Violation("race:"+family+":fatal:"+strings.ReplaceAll(strings.TrimPrefix(line, "fatal error: "), " ", "-"), detail("two calls in two goroutines: "+line))
			case strings.Contains(text, "RACEPAIRS-MISMATCH"):
				line := text[strings.Index(text, "RACEPAIRS-MISMATCH"):]
				if k := strings.Index(line, "\n"); k > 0 {
					line = line[:k]
				}
				c.Violation("race:"+family+":result-differs", detail(line))
			case strings.Contains(text, "panic:") && strings.Contains(text, "goroutine "):
				line := text[strings.Index(text, "panic:"):]
				if k := strings.Index(line, "\n"); k > 0 {
					line = line[:k]
				}
				c.Violation("race:"+family+":panic", detail("two calls in two goroutines: "+line))
			case !strings.Contains(text, "RACEPAIRS-DONE"):
				c.NotExhaustive(fmt.Sprintf("race pair %s %d/%d did not run to its end on this machine (%v)", family, p.i, p.j, err))
			}
		}(p)
	}
	wg.Wait()
	c.Add("race_pairs_run", int64(ran))
	c.Set("race_pass", map[string]interface{}{"exhaustive": false, "family": family, "pairs": len(pairs), "reports": races,
		"note": "every pair of calls of the family in two real goroutines of a fresh process under the Go race detector: sampled schedules, a complement to the exhaustive pair exploration"})
}
