// Package faultio provides the environment answers the fault-enumeration
// checks decide: fragmenting readers, failing readers, failing writers.
package faultio

import (
	"errors"
	"io"
)

// FragReader delivers data cut at the given offsets (sorted, strictly inside
// the data): no Read result ever spans a cut. Every call returns at least one
// byte or an error. With EOFWithData the final fragment is returned together
// with io.EOF.
type FragReader struct {
	Data        []byte
	Cuts        []int
	EOFWithData bool
	// FinalErr, if set, is what the last fragment arrives with (and what later
	// calls return) instead of io.EOF: an error that is not EOF, or wraps it
	FinalErr   error
	MaxPerCall int // 0 = unlimited (only cuts fragment)
	// ZeroAt >= 0: the first Read call that starts at this offset returns
	// (0, nil) - "nothing happened", which the io.Reader contract allows and
	// callers must not take for end of file; ZeroEvery: every other call does.
	Half        bool // every call delivers half of what was asked for (rounded up), as iotest.HalfReader does
	ZeroAt      int  // offset+1; 0 = never
	ZeroEvery   bool
	zeroDone    bool
	Zeros       int
	pos         int
	Calls       int
	SplitFields int // number of reads that returned fewer bytes than requested (short reads)
}

func (f *FragReader) Read(p []byte) (int, error) {
	f.Calls++
	if len(p) == 0 {
		return 0, nil
	}
	if f.pos >= len(f.Data) {
		if f.FinalErr != nil {
			return 0, f.FinalErr
		}
		return 0, io.EOF
	}
	if (f.ZeroEvery && f.Calls%2 == 1) || (f.ZeroAt > 0 && !f.zeroDone && f.pos == f.ZeroAt-1) {
		// ZeroAt is stored as offset+1 so that the zero value means "never"
		f.zeroDone = true
		f.Zeros++
		return 0, nil
	}
	end := len(f.Data)
	for _, c := range f.Cuts {
		if c > f.pos {
			end = c
			break
		}
	}
	n := end - f.pos
	if f.MaxPerCall > 0 && n > f.MaxPerCall {
		n = f.MaxPerCall
	}
	if n > len(p) {
		n = len(p)
	}
	if f.Half && n > (len(p)+1)/2 {
		n = (len(p) + 1) / 2
	}
	if n < len(p) && f.pos+n < len(f.Data) {
		f.SplitFields++
	}
	copy(p, f.Data[f.pos:f.pos+n])
	f.pos += n
	if f.pos >= len(f.Data) && f.EOFWithData {
		if f.FinalErr != nil {
			return n, f.FinalErr
		}
		return n, io.EOF
	}
	return n, nil
}

// ErrInjected is the injected non-EOF failure.
var ErrInjected = errors.New("faultio: injected I/O error")

// FailReader delivers Data[:At] normally and then fails with a sticky non-EOF
// error (returned alone, never together with data). With ShortBefore, the read
// that reaches At returns the bytes before it (a short read), otherwise a read
// that would cross At delivers up to At as well (same thing for a byte source).
type FailReader struct {
	Data     []byte
	At       int
	Err      error // the error to fail with (default ErrInjected)
	Once     bool  // the error is reported once; later calls say io.EOF (a connection after a reset)
	Resume   bool  // the error is reported once; later calls go on delivering the data (a transient failure)
	WithData bool  // the error comes together with the last bytes in front of At (n > 0 and err != nil in one call)
	pos      int
	Returned int // how many times the error was returned to the caller
}

func (f *FailReader) Read(p []byte) (int, error) {
	if len(p) == 0 {
		return 0, nil
	}
	limit := f.At
	if limit > len(f.Data) {
		limit = len(f.Data)
	}
	if f.Resume && f.Returned > 0 {
		limit = len(f.Data)
		if f.pos >= limit {
			return 0, io.EOF
		}
	}
	if f.pos >= limit {
		if f.pos >= len(f.Data) && f.At >= len(f.Data) {
			return 0, io.EOF
		}
		if f.Once && f.Returned > 0 {
			return 0, io.EOF
		}
		f.Returned++
		if f.Err != nil {
			return 0, f.Err
		}
		return 0, ErrInjected
	}
	n := limit - f.pos
	if n > len(p) {
		n = len(p)
	}
	copy(p, f.Data[f.pos:f.pos+n])
	f.pos += n
	if f.WithData && f.pos == limit && f.At < len(f.Data) && f.Returned == 0 {
		f.Returned++
		if f.Err != nil {
			return n, f.Err
		}
		return n, ErrInjected
	}
	return n, nil
}

// FailWriter accepts exactly At bytes. Mode "short": the call that crosses At
// accepts the bytes up to At and returns the error (short write + error); every
// later call fails. Mode "call": the first call that starts at or after At
// fails completely; calls starting before At are accepted in full.
type FailWriter struct {
	At      int
	Mode    string
	Err     error // the error to fail with (default ErrInjected)
	Got     []byte
	Fired   int
	Calls   int
	started int
}

func (w *FailWriter) err() error {
	if w.Err != nil {
		return w.Err
	}
	return ErrInjected
}

func (w *FailWriter) Write(p []byte) (int, error) {
	w.Calls++
	switch w.Mode {
	case "once":
		// transient failure: exactly the At-th call (1-based) is rejected, every
		// other call is accepted in full
		if w.Calls == w.At {
			w.Fired++
			return 0, w.err()
		}
		w.Got = append(w.Got, p...)
		return len(p), nil
	case "once-short":
		// transient short write: the At-th call accepts half of its bytes and fails
		if w.Calls == w.At {
			w.Fired++
			w.Got = append(w.Got, p[:len(p)/2]...)
			return len(p) / 2, w.err()
		}
		w.Got = append(w.Got, p...)
		return len(p), nil
	case "once-full":
		// the At-th call takes all its bytes and reports an error all the same
		// (a quota checked after the write, a tee whose second sink failed)
		w.Got = append(w.Got, p...)
		if w.Calls == w.At {
			w.Fired++
			return len(p), w.err()
		}
		return len(p), nil
	case "full":
		// sticky variant: from the call that crosses At on, every call takes its
		// bytes and reports the error
		w.Got = append(w.Got, p...)
		if len(w.Got) > w.At {
			w.Fired++
			return len(p), w.err()
		}
		return len(p), nil
	case "short":
		if len(w.Got) >= w.At {
			w.Fired++
			return 0, w.err()
		}
		room := w.At - len(w.Got)
		if len(p) <= room {
			w.Got = append(w.Got, p...)
			return len(p), nil
		}
		w.Got = append(w.Got, p[:room]...)
		w.Fired++
		return room, w.err()
	default: // "call"
		if len(w.Got) >= w.At {
			w.Fired++
			return 0, w.err()
		}
		w.Got = append(w.Got, p...)
		return len(p), nil
	}
}

// YieldReader / YieldWriter announce a possible thread switch inside every
// Read / Write call, after the bytes have been copied and before the call
// returns (see engine.Interleaver).
type YieldReader struct {
	R     io.Reader
	Yield func()
}

func (y *YieldReader) Read(p []byte) (int, error) {
	n, err := y.R.Read(p)
	y.Yield()
	return n, err
}

type YieldWriter struct {
	W     io.Writer
	Yield func()
}

func (y *YieldWriter) Write(p []byte) (int, error) {
	n, err := y.W.Write(p)
	y.Yield()
	return n, err
}
