package livespace

import (
	"bytes"
	"fmt"

	"gitlab.com/gomidi/midi/v2/internal/verifh/refmidi"
)

// Classes is the byte-class alphabet of the product searches: two data values,
// one status per channel-voice kind plus a second channel, F0..F7 each, and
// five real-time bytes (one undefined).
var Classes = []byte{
	0x01, 0x7F,
	0x90, 0x80, 0xA0, 0xB0, 0xC0, 0xD0, 0xE0, 0x91,
	0xF0, 0xF7, 0xF1, 0xF2, 0xF3, 0xF6, 0xF4, 0xF5,
	0xF8, 0xFA, 0xFE, 0xFF, 0xFD,
}

func dontCare(m []byte) bool { return len(m) == 1 && (m[0] == 0xF9 || m[0] == 0xFD) }

// Compare judges the deliveries for one byte (or one stream) against the
// reference deliveries. Returns "" or the kind of divergence.
func Compare(got []Delivered, want []refmidi.Delivery) string {
	var g, w [][]byte
	for _, d := range got {
		if !dontCare(d.Msg) {
			g = append(g, d.Msg)
		}
	}
	for _, d := range want {
		if !d.DontCare && !dontCare(d.Msg) {
			w = append(w, d.Msg)
		}
	}
	for i := 0; i < len(g) && i < len(w); i++ {
		if !bytes.Equal(g[i], w[i]) {
			if len(g[i]) == 0 {
				return "empty-message"
			}
			return "wrong-bytes"
		}
	}
	switch {
	case len(g) < len(w):
		return "missing"
	case len(g) > len(w):
		if len(g[len(w)]) == 0 {
			return "empty-message"
		}
		return "extra"
	}
	return ""
}

// WellFormed checks a delivered message: non-empty, status first, only data
// bytes after it (sysex: terminated by F7), length as the status prescribes.
func WellFormed(m []byte) string {
	if len(m) == 0 {
		return "empty"
	}
	s := m[0]
	if s < 0x80 {
		return "no-status"
	}
	if s >= 0xF8 {
		if len(m) != 1 {
			return "realtime-length"
		}
		return ""
	}
	if s == 0xF0 {
		if m[len(m)-1] != 0xF7 {
			return "sysex-unterminated"
		}
		for _, b := range m[1 : len(m)-1] {
			if b >= 0x80 {
				return "sysex-status-inside"
			}
		}
		return ""
	}
	n := refmidi.DataLen(s)
	if n < 0 {
		return "undefined-status"
	}
	if len(m) != 1+n {
		return "length"
	}
	for _, b := range m[1:] {
		if b >= 0x80 {
			return "status-as-data"
		}
	}
	return ""
}

func RenderDeliveries(got []Delivered) string {
	s := ""
	for i, d := range got {
		if i > 0 {
			s += " | "
		}
		s += fmt.Sprintf("% X@%d", d.Msg, d.TS)
	}
	return s
}

func RenderRef(want []refmidi.Delivery) string {
	s := ""
	for i, d := range want {
		if i > 0 {
			s += " | "
		}
		s += fmt.Sprintf("% X", d.Msg)
	}
	return s
}
