// Package livespace wraps the in-memory loopback driver (testdrv) for the live
// decoding checks: a listener on a fresh port pair, byte-wise sending with
// panic capture, and a generic reflection dump of the decoder's private state
// (used as part of the state key in the product searches, so that reaching a
// fixpoint covers streams of every length).
package livespace

import (
	"fmt"
	"reflect"
	"strings"

	"gitlab.com/gomidi/midi/v2"
	"gitlab.com/gomidi/midi/v2/drivers"
	"gitlab.com/gomidi/midi/v2/drivers/testdrv"
	"gitlab.com/gomidi/midi/v2/internal/verifh/engine"
)

// Delivered is one callback invocation.
type Delivered struct {
	Msg []byte
	TS  int32
}

// Loop is a listener on a fresh loopback.
type Loop struct {
	Drv  *testdrv.Driver
	In   drivers.In
	Out  drivers.Out
	Got  []Delivered
	Stop func()
	Err  error

	kept     []midi.Message
	keptCopy [][]byte
}

// Options selects listen options.
type Options struct {
	SysEx, TimeCode, ActiveSense bool
	BufSize                      uint32
	Reversed                     bool   // pass the options in the opposite order (the result must not depend on it)
	Earlier                      uint32 // a buffer size option given before the one that counts (the later option wins)
	Repeat                       int    // every class option is given Repeat more times (defaults and user options concatenated): switching a class on is idempotent
}

func (o Options) List() []midi.Option {
	var l []midi.Option
	for r := 0; r <= o.Repeat; r++ {
		if o.SysEx {
			l = append(l, midi.UseSysEx())
		}
		if o.TimeCode {
			l = append(l, midi.UseTimeCode())
		}
		if o.ActiveSense {
			l = append(l, midi.UseActiveSense())
		}
	}
	if o.BufSize != 0 && o.Earlier == 0 {
		l = append(l, midi.SysExBufferSize(o.BufSize))
	}
	if o.Reversed {
		// every other listener also has an error handler (an option that must
		// not change what is delivered)
		l = append(l, midi.HandleError(func(error) {}))
		for i, j := 0, len(l)-1; i < j; i, j = i+1, j-1 {
			l[i], l[j] = l[j], l[i]
		}
	}
	if o.Earlier != 0 {
		// two buffer sizes in one list (defaults followed by the user's choice):
		// the later one is the configured size, also when it is 0 (the default)
		l = append(l, midi.SysExBufferSize(o.Earlier), midi.SysExBufferSize(o.BufSize))
	}
	return l
}

func (o Options) String() string {
	return fmt.Sprintf("sysex=%v timecode=%v activesense=%v buf=%d", o.SysEx, o.TimeCode, o.ActiveSense, o.BufSize)
}

// All enables every option.
func All(buf uint32) Options {
	return Options{SysEx: true, TimeCode: true, ActiveSense: true, BufSize: buf}
}

// NewLoop opens a fresh port pair and starts listening through midi.ListenTo.
func NewLoop(o Options) *Loop {
	l := &Loop{}
	l.Drv = testdrv.New("verif")
	ins, _ := l.Drv.Ins()
	outs, _ := l.Drv.Outs()
	l.In, l.Out = ins[0], outs[0]
	// the options come out of a slice of the caller's with room behind them (a
	// prefix of a longer list): what lies behind the prefix is the caller's
	opts := o.List()
	arena := make([]midi.Option, len(opts), len(opts)+2)
	copy(arena, opts)
	behind := arena[: len(opts)+1 : len(opts)+1]
	behind[len(opts)] = midi.UseSysEx()
	before := reflect.ValueOf(behind[len(opts)]).Pointer()
	defer func() {
		if reflect.ValueOf(behind[len(opts)]).Pointer() != before && OnViolation != nil {
			OnViolation("listen:writes-into-the-callers-option-slice", "ListenTo(in, f, list[:k]...) changed list[k]: the option behind the ones that were passed is another function now")
		}
	}()
	l.Stop, l.Err = midi.ListenTo(l.In, func(m midi.Message, ts int32) {
		l.Got = append(l.Got, Delivered{Msg: append([]byte(nil), m...), TS: ts})
		// a receiver may keep the message it was handed: remember the very slice
		l.kept = append(l.kept, m)
		l.keptCopy = append(l.keptCopy, append([]byte(nil), m...))
		if len(l.kept) > 64 {
			l.kept, l.keptCopy = l.kept[32:], l.keptCopy[32:]
		}
	}, arena...)
	if l.Err == nil {
		l.Err = l.Out.Open()
	}
	return l
}

// OnViolation, if set by the check, receives what the wrapper itself finds.
var OnViolation func(sig, what string)

// Overwritten reports a message that was handed to the listener earlier and
// whose bytes have changed since (a buffer shared between deliveries).
func (l *Loop) Overwritten() (was, now []byte, yes bool) {
	for i := range l.kept {
		if string(l.kept[i]) != string(l.keptCopy[i]) {
			return l.keptCopy[i], l.kept[i], true
		}
	}
	return nil, nil, false
}

// Relisten stops the current listener and listens again on the same port with
// other options (second use of the same port object).
func (l *Loop) Relisten(o Options) {
	if l.Stop != nil {
		l.Stop()
	}
	l.Got = nil
	l.Stop, l.Err = midi.ListenTo(l.In, func(m midi.Message, ts int32) {
		l.Got = append(l.Got, Delivered{Msg: append([]byte(nil), m...), TS: ts})
	}, o.List()...)
}

// Send sends one chunk; a panic inside the library is captured.
func (l *Loop) Send(b []byte) (err error, c engine.Caught) {
	// the sender's own buffer: handed to Send, and used for something else as
	// soon as Send has returned (what every driver with a read buffer does);
	// what the listener was handed and kept must not change with it
	// (Overwritten)
	buf := append([]byte(nil), b...)
	c = engine.Catch(func() { err = l.Out.Send(buf) })
	if !c.Panicked && string(buf) != string(b) {
		// the bytes belong to the sender (who may send the same buffer again):
		// reported through the same channel as a panic, with its own signature
		c = engine.Caught{Panicked: true, Sig: "send:modifies-the-senders-bytes", Value: fmt.Sprintf("Send changed its argument from % X to % X", b, buf)}
	}
	for i := range buf {
		buf[i] = 0x55
	}
	return
}

// Take returns and clears the deliveries so far.
func (l *Loop) Take() []Delivered {
	g := l.Got
	l.Got = nil
	return g
}

var readerType = reflect.TypeOf((*drivers.Reader)(nil))

// ReaderState dumps every non-func field of the *drivers.Reader the driver
// holds (found by type, not by name).
func (l *Loop) ReaderState() string {
	v := reflect.ValueOf(l.Drv).Elem()
	for i := 0; i < v.NumField(); i++ {
		if v.Field(i).Type() == readerType {
			var b strings.Builder
			Dump(&b, v.Field(i), map[uintptr]bool{})
			return b.String()
		}
	}
	return "no-reader-field"
}

// DriverState dumps the whole driver (ports included), skipping time stamps
// and functions; pointer cycles are cut.
func (l *Loop) DriverState() string {
	var b strings.Builder
	Dump(&b, reflect.ValueOf(l.Drv), map[uintptr]bool{})
	return b.String()
}

// Dump writes a canonical rendering of v. Works on unexported fields.
func Dump(b *strings.Builder, v reflect.Value, seen map[uintptr]bool) {
	switch v.Kind() {
	case reflect.Bool:
		fmt.Fprintf(b, "%v", v.Bool())
	case reflect.Int, reflect.Int8, reflect.Int16, reflect.Int32, reflect.Int64:
		fmt.Fprintf(b, "%d", v.Int())
	case reflect.Uint, reflect.Uint8, reflect.Uint16, reflect.Uint32, reflect.Uint64, reflect.Uintptr:
		fmt.Fprintf(b, "%d", v.Uint())
	case reflect.String:
		fmt.Fprintf(b, "%q", v.String())
	case reflect.Float32, reflect.Float64:
		fmt.Fprintf(b, "%g", v.Float())
	case reflect.Slice:
		if v.IsNil() {
			b.WriteString("nil")
			return
		}
		if v.Type().Elem().Kind() == reflect.Uint8 {
			fmt.Fprintf(b, "x%x", v.Bytes())
			return
		}
		b.WriteByte('[')
		for i := 0; i < v.Len(); i++ {
			Dump(b, v.Index(i), seen)
			b.WriteByte(',')
		}
		b.WriteByte(']')
	case reflect.Array:
		b.WriteByte('[')
		for i := 0; i < v.Len(); i++ {
			Dump(b, v.Index(i), seen)
			b.WriteByte(',')
		}
		b.WriteByte(']')
	case reflect.Ptr:
		if v.IsNil() {
			b.WriteString("nil")
			return
		}
		p := v.Pointer()
		if seen[p] {
			b.WriteString("^")
			return
		}
		seen[p] = true
		b.WriteByte('&')
		Dump(b, v.Elem(), seen)
	case reflect.Interface:
		if v.IsNil() {
			b.WriteString("nil")
			return
		}
		Dump(b, v.Elem(), seen)
	case reflect.Struct:
		if v.Type().String() == "time.Time" {
			b.WriteString("T")
			return
		}
		b.WriteByte('{')
		for i := 0; i < v.NumField(); i++ {
			f := v.Field(i)
			if f.Kind() == reflect.Func || f.Kind() == reflect.Chan {
				continue
			}
			b.WriteString(v.Type().Field(i).Name)
			b.WriteByte(':')
			Dump(b, f, seen)
			b.WriteByte(' ')
		}
		b.WriteByte('}')
	case reflect.Map:
		fmt.Fprintf(b, "map(%d)", v.Len())
	default:
		b.WriteString("?")
	}
}
