package livespace

import "fmt"

// SMsg is a message of the bounded sender space.
type SMsg struct {
	Name  string
	Bytes []byte
}

func (m SMsg) IsChannel() bool  { return m.Bytes[0] >= 0x80 && m.Bytes[0] < 0xF0 }
func (m SMsg) IsRealtime() bool { return m.Bytes[0] >= 0xF8 }

// SenderAlphabet: 7 channel kinds, a second note-on with the same status, a
// second channel, MTC, SPP with LSB != MSB, song select, tune request, a
// minimal sysex and one of exactly buffer size, two real-time kinds.
func SenderAlphabet(buf int) []SMsg {
	big := []byte{0xF0}
	for i := 0; i < buf-2; i++ {
		big = append(big, byte(0x10+i))
	}
	big = append(big, 0xF7)
	return []SMsg{
		{"NoteOn0a", []byte{0x90, 0x3C, 0x40}},
		{"NoteOn0b", []byte{0x90, 0x3E, 0x00}},
		{"Prog0", []byte{0xC0, 0x05}},
		{"SysExMin", []byte{0xF0, 0xF7}},
		{"Start", []byte{0xFA}},
		{"SPP", []byte{0xF2, 0x01, 0x7F}},
		{"NoteOff0", []byte{0x80, 0x3C, 0x10}},
		{"NoteOn1", []byte{0x91, 0x3C, 0x40}},
		{"Poly0", []byte{0xA0, 0x3C, 0x11}},
		{"CC0", []byte{0xB0, 0x07, 0x7F}},
		{"After0", []byte{0xD0, 0x22}},
		{"Bend0", []byte{0xE0, 0x00, 0x40}},
		{"MTC", []byte{0xF1, 0x23}},
		{"SongSel", []byte{0xF3, 0x02}},
		{"Tune", []byte{0xF6}},
		{"SysExFull", big},
		{"Clock", []byte{0xF8}},
		{"ActiveSense", []byte{0xFE}},
	}
}

// WireByte is one byte on the wire with the index of the message it belongs
// to (-1: inserted real-time byte) and whether it completes that message.
type WireByte struct {
	B        byte
	Msg      int
	Complete bool
	First    bool
}

// Serialize puts a message sequence on the wire; elide[i] asks to omit the
// status byte of message i (honoured only where running status is legal:
// channel message, same status as the last completed channel message, no
// F0..F7 in between). Returns nil if an elision is requested where illegal.
func Serialize(seq []SMsg, elide uint) []WireByte {
	var out []WireByte
	var run byte
	for i, m := range seq {
		b := m.Bytes
		start := 0
		if elide&(1<<uint(i)) != 0 {
			if !m.IsChannel() || run != b[0] {
				return nil
			}
			start = 1
		}
		for k := start; k < len(b); k++ {
			out = append(out, WireByte{B: b[k], Msg: i, Complete: k == len(b)-1, First: k == start})
		}
		switch {
		case m.IsChannel():
			run = b[0]
		case m.IsRealtime():
		default:
			run = 0
		}
	}
	return out
}

// Expect is an expected delivery.
type Expect struct {
	Msg        []byte
	TSLo, TSHi int32
}

// Expected computes the deliveries for a wire stream cut into chunks with the
// given accumulated time stamps per chunk.
func Expected(seq []SMsg, wire []WireByte, chunks []int, stamps []int32) []Expect {
	var out []Expect
	first := map[int]int32{}
	pos := 0
	for ci, n := range chunks {
		for k := 0; k < n; k++ {
			w := wire[pos]
			pos++
			if w.Msg < 0 {
				out = append(out, Expect{[]byte{w.B}, stamps[ci], stamps[ci]})
				continue
			}
			if w.First {
				first[w.Msg] = stamps[ci]
			}
			if w.Complete {
				lo := stamps[ci]
				if seq[w.Msg].Bytes[0] == 0xF0 {
					lo = first[w.Msg]
				}
				out = append(out, Expect{seq[w.Msg].Bytes, lo, stamps[ci]})
			}
		}
	}
	return out
}

// Match compares deliveries with expectations; returns "" or the kind of
// difference.
func Match(got []Delivered, want []Expect) string {
	for i := 0; i < len(got) && i < len(want); i++ {
		if string(got[i].Msg) != string(want[i].Msg) {
			if len(got[i].Msg) == 0 {
				return "empty-message"
			}
			return "wrong-bytes"
		}
		if got[i].TS < want[i].TSLo || got[i].TS > want[i].TSHi {
			return "timestamp"
		}
	}
	switch {
	case len(got) < len(want):
		return "missing"
	case len(got) > len(want):
		return "extra"
	}
	return ""
}

func RenderExpect(w []Expect) string {
	s := ""
	for i, e := range w {
		if i > 0 {
			s += " | "
		}
		if e.TSLo == e.TSHi {
			s += fmt.Sprintf("% X@%d", e.Msg, e.TSLo)
		} else {
			s += fmt.Sprintf("% X@%d..%d", e.Msg, e.TSLo, e.TSHi)
		}
	}
	return s
}

// SerializeLong puts a sequence of any length on the wire; with elide the
// status byte is omitted wherever running status allows it.
func SerializeLong(seq []SMsg, elide bool) []WireByte {
	out := make([]WireByte, 0, 3*len(seq))
	var run byte
	for i, m := range seq {
		b := m.Bytes
		start := 0
		if elide && m.IsChannel() && run == b[0] {
			start = 1
		}
		for k := start; k < len(b); k++ {
			out = append(out, WireByte{B: b[k], Msg: i, Complete: k == len(b)-1, First: k == start})
		}
		switch {
		case m.IsChannel():
			run = b[0]
		case m.IsRealtime():
		default:
			run = 0
		}
	}
	return out
}
