// midicatstub is the stand-in for the midicat helper binary used by the race
// pass of C17: same command line surface as far as the driver uses it.
package main

import (
	"bufio"
	"fmt"
	"os"
	"strings"
	"time"
)

func main() {
	args := strings.Join(os.Args[1:], " ")
	switch {
	case strings.HasPrefix(args, "version"):
		fmt.Print("0.6.8")
	case strings.HasPrefix(args, "ins"):
		fmt.Print(`{"0":"stub-in","1":"stub-in-b"}`)
	case strings.HasPrefix(args, "outs"):
		fmt.Print(`{"0":"stub-out"}`)
	case strings.HasPrefix(args, "in "):
		w := bufio.NewWriter(os.Stdout)
		for i := 0; ; i++ {
			if _, err := fmt.Fprintf(w, "%d %X\n", i, []byte{0x90, byte(i & 0x7F), 0x40}); err != nil {
				return
			}
			if w.Flush() != nil {
				return
			}
			time.Sleep(300 * time.Microsecond)
		}
	case strings.HasPrefix(args, "out "):
		r := bufio.NewReader(os.Stdin)
		for {
			if _, err := r.ReadString('\n'); err != nil {
				return
			}
		}
	default:
		os.Exit(2)
	}
}
