package main

import (
	"bytes"
	"fmt"
	"os"

	"gitlab.com/gomidi/midi/v2/internal/verifh/engine"
	"gitlab.com/gomidi/midi/v2/smf"
)

func main() {
	for _, h := range os.Args[1:] {
		data := engine.UnHex(h)
		c := engine.Catch(func() {
			s, err := smf.ReadFrom(bytes.NewReader(data))
			fmt.Printf("err=%v\n", err)
			if s != nil {
				fmt.Printf("format=%d tf=%v tracks=%d\n", s.Format(), s.TimeFormat, len(s.Tracks))
				for i, t := range s.Tracks {
					for _, e := range t {
						fmt.Printf("  trk%d %d: % X\n", i, e.Delta, []byte(e.Message))
					}
				}
			}
		})
		if c.Panicked {
			fmt.Println("PANIC", c.Sig, c.Value)
		}
	}
}
