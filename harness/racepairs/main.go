// racepairs: free-running complement to the pair exploration of package
// concpairs. The cooperative scheduler sees interference through results; an
// unsynchronised access that happens to give the right result (a lazily
// filled table written under a read lock, a counter) is invisible to it,
// because its hand-offs are happens-before edges. This program, built with
// -race from the unmodified tree, runs ONE pair of calls of a family in two
// real goroutines of a fresh process (so that whatever the library sets up
// on first use is set up by both at once) and prints what the pair returned;
// the race detector reports on stderr. Sampled schedules: exhaustive=false.
//
//	racepairs <family> <i> <j>     one pair
//	racepairs <family> count       number of cases
package main

import (
	"bytes"
	"fmt"
	"os"
	"strconv"
	"sync"

	cc "gitlab.com/gomidi/midi/v2/internal/verifh/conccases"
	cp "gitlab.com/gomidi/midi/v2/internal/verifh/concpairs"
	"gitlab.com/gomidi/midi/v2/internal/verifh/refsmf"
	"gitlab.com/gomidi/midi/v2/smf"
)

// rareFiles: valid files with meta events of type bytes nobody assigns, a
// different set per file (what a reader learns about a type it has not seen
// before it learns in both goroutines at once).
func rareFiles() []cp.Case {
	var cs []cp.Case
	for f := 0; f < 4; f++ {
		var body []byte
		for k := 0; k < 6; k++ {
			typ := byte(0x0A + (f*6+k)%0x15)
			if k%2 == 1 {
				typ = byte(0x60 + (f*6+k)%0x1F)
			}
			body = append(body, byte(k), 0xFF, typ, 0x02, byte(f), byte(k))
			body = append(body, 0x01, 0x90|byte(f), byte(0x30+k), 0x40)
		}
		body = append(body, 0x00, 0xFF, 0x2F, 0x00)
		data := append(refsmf.Header(0, 1, 96), refsmf.Chunk("MTrk", body)...)
		cs = append(cs, cp.Case{Name: fmt.Sprintf("ReadFrom/rare-meta-types-%d", f), Run: func() string {
			s, err := smf.ReadFrom(bytes.NewReader(data))
			if err != nil {
				return "error " + err.Error()
			}
			out := ""
			for _, t := range s.Tracks {
				for _, e := range t {
					out += fmt.Sprintf("%d:%X %s|", e.Delta, []byte(e.Message), e.Message.Type().String())
				}
			}
			return out
		}})
	}
	return cs
}

func family(name string) []cp.Case {
	switch name {
	case "smf-read":
		return append(cc.SMFRead(), rareFiles()...)
	case "smf-write":
		return cc.SMFWrite()
	case "constructors":
		return cc.Ctors()
	case "classify":
		return cc.Classify()
	case "sysex":
		return cc.Sysex()
	case "midicat":
		return cc.Midicat()
	case "timeat":
		return cc.TimeAt()
	case "convert":
		return cc.Convert()
	case "export":
		return cc.Export()
	case "meta":
		return cc.Meta()
	}
	return nil
}

func main() {
	if len(os.Args) < 3 {
		fmt.Println("usage: racepairs <family> <i> <j> | racepairs <family> count")
		os.Exit(2)
	}
	cases := family(os.Args[1])
	if cases == nil {
		fmt.Println("RACEPAIRS-UNKNOWN-FAMILY", os.Args[1])
		os.Exit(2)
	}
	if os.Args[2] == "count" {
		fmt.Println(len(cases))
		return
	}
	i, _ := strconv.Atoi(os.Args[2])
	j, _ := strconv.Atoi(os.Args[3])
	const reps = 3
	var got [2][reps]string
	var start, done sync.WaitGroup
	start.Add(1)
	for k, idx := range []int{i, j} {
		done.Add(1)
		go func(k, idx int) {
			defer done.Done()
			start.Wait()
			for r := 0; r < reps; r++ {
				got[k][r] = cases[idx].Run()
			}
		}(k, idx)
	}
	start.Done()
	done.Wait()
	// what each call gives alone, afterwards
	for k, idx := range []int{i, j} {
		want := cases[idx].Run()
		for r := 0; r < reps; r++ {
			if got[k][r] != want {
				g, w := got[k][r], want
				if len(g) > 200 {
					g = g[:200]
				}
				if len(w) > 200 {
					w = w[:200]
				}
				fmt.Printf("RACEPAIRS-MISMATCH %s | %s: %s returned %q next to the other call, %q alone\n", cases[i].Name, cases[j].Name, cases[idx].Name, g, w)
				break
			}
		}
	}
	fmt.Printf("RACEPAIRS-DONE %s %d %d\n", os.Args[1], i, j)
}
