// Package refmidi is the reference MIDI 1.0 receiver (DESIGN.md appendix A):
// a byte-at-a-time automaton with running status, real-time bypass, "a new
// status abandons an incomplete message", "data without status is ignored",
// "undefined status is skipped" and a bounded sysex buffer. Plus the wire
// tables (data byte counts) and a sender-legality automaton.
package refmidi

import "fmt"

// DataLen returns the number of data bytes a status takes (-1: none defined).
func DataLen(s byte) int {
	switch {
	case s >= 0x80 && s <= 0xBF, s >= 0xE0 && s <= 0xEF:
		return 2
	case s >= 0xC0 && s <= 0xDF:
		return 1
	case s == 0xF1, s == 0xF3:
		return 1
	case s == 0xF2:
		return 2
	case s == 0xF6:
		return 0
	}
	return -1
}

// Receiver is the automaton state.
type Receiver struct {
	BufSize int  // sysex buffer size (counts F0 and F7)
	SysexOn bool // sysex messages are delivered

	Run  byte // running status (0 = none)
	Cur  byte // status of the message being assembled (0 = none)
	Got  []byte
	InSx bool
	Sx   []byte
	Over bool
}

// Delivery is one delivered message; DontCare marks deliveries whose presence
// is not judged (undefined real-time bytes F9 / FD).
type Delivery struct {
	Msg      []byte
	DontCare bool
}

// Feed processes one byte and returns what is delivered for it.
func (r *Receiver) Feed(b byte) []Delivery {
	switch {
	case b >= 0xF8:
		return []Delivery{{Msg: []byte{b}, DontCare: b == 0xF9 || b == 0xFD}}
	case b == 0xF0:
		r.Cur, r.Got, r.Run = 0, nil, 0
		r.InSx, r.Sx, r.Over = true, []byte{0xF0}, false
		return nil
	case b == 0xF7:
		if r.InSx {
			var out []Delivery
			if r.SysexOn && !r.Over && len(r.Sx)+1 <= r.BufSize {
				out = []Delivery{{Msg: append(append([]byte{}, r.Sx...), 0xF7)}}
			}
			r.InSx, r.Sx, r.Over = false, nil, false
			return out
		}
		r.Cur, r.Got, r.Run = 0, nil, 0
		return nil
	case b >= 0xF1 && b <= 0xF6:
		r.InSx, r.Sx, r.Over = false, nil, false
		r.Cur, r.Got, r.Run = 0, nil, 0
		switch b {
		case 0xF6:
			return []Delivery{{Msg: []byte{0xF6}}}
		case 0xF1, 0xF2, 0xF3:
			r.Cur = b
		}
		return nil
	case b >= 0x80:
		r.InSx, r.Sx, r.Over = false, nil, false
		r.Run, r.Cur, r.Got = b, b, nil
		return nil
	}
	// data byte
	if r.InSx {
		if r.SysexOn {
			if !r.Over && len(r.Sx)+1 < r.BufSize {
				r.Sx = append(r.Sx, b)
			} else {
				r.Over = true
			}
		}
		return nil
	}
	if r.Cur == 0 {
		if r.Run == 0 {
			return nil
		}
		r.Cur, r.Got = r.Run, nil
	}
	r.Got = append(r.Got, b)
	if len(r.Got) == DataLen(r.Cur) {
		msg := append([]byte{r.Cur}, r.Got...)
		r.Got = nil
		if r.Cur < 0xF0 {
			r.Cur = 0 // next data byte starts a running-status message
		} else {
			r.Cur = 0
		}
		return []Delivery{{Msg: msg}}
	}
	return nil
}

// Key renders the state canonically.
func (r *Receiver) Key() string {
	return fmt.Sprintf("run%02X cur%02X got%x insx%v sx%x over%v", r.Run, r.Cur, r.Got, r.InSx, r.Sx, r.Over)
}

// StateClass is a coarse class for signatures.
func (r *Receiver) StateClass() string {
	switch {
	case r.InSx:
		return "in-sysex"
	case r.Cur >= 0xF0:
		return "in-sys-common"
	case r.Cur != 0:
		return "in-channel-msg"
	case r.Run != 0:
		return "running-status"
	}
	return "idle"
}

// ByteClass names the class of a byte for signatures.
func ByteClass(b byte) string {
	switch {
	case b < 0x80:
		return "data"
	case b < 0xF0:
		return "channel-status"
	case b == 0xF0:
		return "F0"
	case b == 0xF7:
		return "F7"
	case b == 0xF4, b == 0xF5:
		return "undefined-sys-common"
	case b < 0xF8:
		return "sys-common"
	case b == 0xF9, b == 0xFD:
		return "undefined-realtime"
	}
	return "realtime"
}

// Sender tracks whether the next byte is legal for a well-behaved sender:
// data only inside a message (or sysex) or as running status directly after a
// completed channel message with no F0..F7 since; real-time anywhere (the
// undefined F9/FD never); F7 only to close an open sysex; a status byte only
// when no message is open; F4/F5 never; sysex at most MaxSysex bytes in total.
type Sender struct {
	MaxSysex int
	InSysex  bool
	SxLen    int
	Pending  int  // data bytes the open message still needs
	Cur      byte // status of the open message
	Run      byte // running status available to the sender
}

func NewSender(maxSysex int) *Sender { return &Sender{MaxSysex: maxSysex} }

func (s *Sender) Clone() *Sender { c := *s; return &c }

// Legal reports whether b may be sent now; if legal it advances.
func (s *Sender) Legal(b byte) bool {
	if b >= 0xF8 {
		return b != 0xF9 && b != 0xFD
	}
	if s.InSysex {
		switch {
		case b < 0x80:
			if s.SxLen+2 > s.MaxSysex {
				return false
			}
			s.SxLen++
			return true
		case b == 0xF7:
			s.InSysex, s.SxLen = false, 0
			return true
		}
		return false
	}
	if s.Pending > 0 {
		if b >= 0x80 {
			return false
		}
		s.Pending--
		if s.Pending == 0 {
			if s.Cur < 0xF0 {
				s.Run = s.Cur
			}
			s.Cur = 0
		}
		return true
	}
	switch {
	case b < 0x80:
		if s.Run == 0 {
			return false
		}
		s.Cur = s.Run
		s.Pending = DataLen(s.Run) - 1
		if s.Pending == 0 {
			s.Cur = 0
		}
		return true
	case b == 0xF0:
		if s.MaxSysex < 2 {
			return false
		}
		s.InSysex, s.SxLen, s.Run = true, 1, 0
		return true
	case b == 0xF7, b == 0xF4, b == 0xF5:
		return false
	case b == 0xF6:
		s.Run = 0
		return true
	case b >= 0xF1:
		s.Run, s.Cur, s.Pending = 0, b, DataLen(b)
		return true
	}
	s.Cur, s.Pending = b, DataLen(b)
	return true
}

// Idle reports whether no message is open (a stream may end here).
func (s *Sender) Idle() bool { return !s.InSysex && s.Pending == 0 }

func (s *Sender) Key() string {
	return fmt.Sprintf("sx%v/%d pend%d cur%02X run%02X", s.InSysex, s.SxLen, s.Pending, s.Cur, s.Run)
}
