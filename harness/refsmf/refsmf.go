// Package refsmf is an independent reference for the Standard MIDI File 1.0
// byte format, written from the specification (DESIGN.md appendix B), not from
// the library: a tolerant decoder, a strict validator and a plain encoder.
package refsmf

import (
	"bytes"
	"encoding/binary"
	"errors"
	"fmt"
)

// Event is one track event in canonical form: channel messages with explicit
// status; meta as FF type VLQc(len) payload; sysex/escape as lead byte followed
// by the payload (no length field).
type Event struct {
	Delta uint32
	Msg   []byte
}

// File is the abstract content of an SMF.
type File struct {
	Format   uint16
	NTrks    uint16 // as declared in the header
	Division uint16 // raw division word
	Tracks   [][]Event
}

var EOT = []byte{0xFF, 0x2F, 0x00}

func IsEOT(m []byte) bool { return bytes.Equal(m, EOT) }

// VLQ returns the canonical (shortest) variable-length encoding.
func VLQ(n uint32) []byte {
	out := []byte{byte(n & 0x7F)}
	n >>= 7
	for n > 0 {
		out = append([]byte{byte(n&0x7F) | 0x80}, out...)
		n >>= 7
	}
	return out
}

// VLQPadded returns an encoding of exactly width bytes (non-minimal allowed).
func VLQPadded(n uint32, width int) []byte {
	out := make([]byte, width)
	for i := width - 1; i >= 0; i-- {
		out[i] = byte(n & 0x7F)
		if i != width-1 {
			out[i] |= 0x80
		}
		n >>= 7
	}
	return out
}

// Meta builds the canonical meta message.
func Meta(typ byte, payload []byte) []byte {
	m := []byte{0xFF, typ}
	m = append(m, VLQ(uint32(len(payload)))...)
	return append(m, payload...)
}

// DataLen returns the number of data bytes of a channel status.
func DataLen(status byte) int {
	switch status & 0xF0 {
	case 0xC0, 0xD0:
		return 1
	}
	return 2
}

type Mode int

const (
	Tolerant Mode = iota // spec decoder: padded VLQs, alien chunks skipped
	Strict               // writer-output validator
)

var ErrTrunc = errors.New("refsmf: unexpected end of data")

type cursor struct {
	b   []byte
	pos int
}

func (c *cursor) need(n int) bool { return c.pos+n <= len(c.b) }
func (c *cursor) byte1() (byte, error) {
	if !c.need(1) {
		return 0, ErrTrunc
	}
	v := c.b[c.pos]
	c.pos++
	return v, nil
}
func (c *cursor) take(n int) ([]byte, error) {
	if n < 0 || !c.need(n) {
		return nil, ErrTrunc
	}
	v := c.b[c.pos : c.pos+n]
	c.pos += n
	return v, nil
}
func (c *cursor) vlq(strict bool) (uint32, error) {
	var v uint32
	for i := 0; i < 4; i++ {
		b, err := c.byte1()
		if err != nil {
			return 0, err
		}
		if strict && i == 0 && b == 0x80 {
			return 0, errors.New("refsmf: non-canonical VLQ (leading 0x80)")
		}
		v = v<<7 | uint32(b&0x7F)
		if b&0x80 == 0 {
			return v, nil
		}
	}
	return 0, errors.New("refsmf: VLQ longer than four bytes")
}

// Parse decodes a complete file.
func Parse(data []byte, mode Mode) (*File, error) {
	strict := mode == Strict
	c := &cursor{b: data}
	hd, err := c.take(8)
	if err != nil {
		return nil, err
	}
	if string(hd[:4]) != "MThd" {
		return nil, errors.New("refsmf: no MThd")
	}
	if binary.BigEndian.Uint32(hd[4:]) != 6 {
		return nil, errors.New("refsmf: header length != 6")
	}
	h, err := c.take(6)
	if err != nil {
		return nil, err
	}
	f := &File{
		Format:   binary.BigEndian.Uint16(h[0:]),
		NTrks:    binary.BigEndian.Uint16(h[2:]),
		Division: binary.BigEndian.Uint16(h[4:]),
	}
	if f.Format > 2 {
		return nil, fmt.Errorf("refsmf: format %d", f.Format)
	}
	if strict {
		if f.Division&0x8000 == 0 {
			if f.Division == 0 {
				return nil, errors.New("refsmf: division 0")
			}
		} else {
			fps := -int(int8(f.Division >> 8))
			if fps != 24 && fps != 25 && fps != 29 && fps != 30 {
				return nil, fmt.Errorf("refsmf: SMPTE rate %d", fps)
			}
		}
		if f.Format == 0 && f.NTrks != 1 {
			return nil, fmt.Errorf("refsmf: format 0 with ntrks=%d", f.NTrks)
		}
	}
	for c.pos < len(c.b) {
		if !strict && len(f.Tracks) == int(f.NTrks) {
			// trailing alien chunks (or anything else) after the last declared
			// track are not part of the content
			break
		}
		ch, err := c.take(8)
		if err != nil {
			return nil, err
		}
		ln := int(binary.BigEndian.Uint32(ch[4:]))
		body, err := c.take(ln)
		if err != nil {
			return nil, err
		}
		if string(ch[:4]) != "MTrk" {
			if strict {
				return nil, fmt.Errorf("refsmf: alien chunk %q", ch[:4])
			}
			continue
		}
		tr, err := parseTrack(body, strict)
		if err != nil {
			return nil, fmt.Errorf("track %d: %w", len(f.Tracks), err)
		}
		f.Tracks = append(f.Tracks, tr)
	}
	if strict {
		if c.pos != len(c.b) {
			return nil, errors.New("refsmf: trailing bytes")
		}
	}
	if len(f.Tracks) != int(f.NTrks) {
		return nil, fmt.Errorf("refsmf: ntrks=%d but %d MTrk chunks", f.NTrks, len(f.Tracks))
	}
	return f, nil
}

func parseTrack(body []byte, strict bool) ([]Event, error) {
	c := &cursor{b: body}
	var evs []Event
	var run byte
	for c.pos < len(c.b) {
		if len(evs) > 0 && IsEOT(evs[len(evs)-1].Msg) {
			return nil, errors.New("refsmf: events after end-of-track")
		}
		d, err := c.vlq(strict)
		if err != nil {
			return nil, err
		}
		st, err := c.byte1()
		if err != nil {
			return nil, err
		}
		switch {
		case st == 0xFF:
			run = 0
			typ, err := c.byte1()
			if err != nil {
				return nil, err
			}
			if typ >= 0x80 {
				return nil, errors.New("refsmf: meta type >= 0x80")
			}
			ln, err := c.vlq(strict)
			if err != nil {
				return nil, err
			}
			p, err := c.take(int(ln))
			if err != nil {
				return nil, err
			}
			if typ == 0x2F && strict && ln != 0 {
				return nil, errors.New("refsmf: end-of-track with payload")
			}
			evs = append(evs, Event{d, Meta(typ, p)})
		case st == 0xF0 || st == 0xF7:
			run = 0
			ln, err := c.vlq(strict)
			if err != nil {
				return nil, err
			}
			p, err := c.take(int(ln))
			if err != nil {
				return nil, err
			}
			evs = append(evs, Event{d, append([]byte{st}, p...)})
		case st >= 0xF1:
			return nil, fmt.Errorf("refsmf: status %02X not allowed in a file", st)
		case st >= 0x80:
			run = st
			p, err := c.take(DataLen(st))
			if err != nil {
				return nil, err
			}
			for _, x := range p {
				if x >= 0x80 {
					return nil, errors.New("refsmf: status byte inside channel event")
				}
			}
			evs = append(evs, Event{d, append([]byte{st}, p...)})
		default:
			if run == 0 {
				return nil, errors.New("refsmf: data byte without running status")
			}
			c.pos--
			p, err := c.take(DataLen(run))
			if err != nil {
				return nil, err
			}
			for _, x := range p {
				if x >= 0x80 {
					return nil, errors.New("refsmf: status byte inside channel event")
				}
			}
			evs = append(evs, Event{d, append([]byte{run}, p...)})
		}
	}
	if len(evs) == 0 || !IsEOT(evs[len(evs)-1].Msg) {
		return nil, errors.New("refsmf: track does not end with end-of-track")
	}
	return evs, nil
}

// Encode writes the file the plain way (no running status, canonical VLQs).
func Encode(f *File) []byte {
	var out bytes.Buffer
	out.WriteString("MThd")
	binary.Write(&out, binary.BigEndian, uint32(6))
	binary.Write(&out, binary.BigEndian, f.Format)
	binary.Write(&out, binary.BigEndian, f.NTrks)
	binary.Write(&out, binary.BigEndian, f.Division)
	for _, tr := range f.Tracks {
		var body bytes.Buffer
		for _, ev := range tr {
			body.Write(VLQ(ev.Delta))
			body.Write(EventBytes(ev.Msg))
		}
		out.WriteString("MTrk")
		binary.Write(&out, binary.BigEndian, uint32(body.Len()))
		out.Write(body.Bytes())
	}
	return out.Bytes()
}

// EventBytes converts a canonical message to its file representation (sysex
// gets its length field).
func EventBytes(m []byte) []byte {
	if len(m) > 0 && (m[0] == 0xF0 || m[0] == 0xF7) {
		b := []byte{m[0]}
		b = append(b, VLQ(uint32(len(m)-1))...)
		return append(b, m[1:]...)
	}
	return m
}

// Chunk frames a chunk.
func Chunk(typ string, body []byte) []byte {
	b := []byte(typ)
	var l [4]byte
	binary.BigEndian.PutUint32(l[:], uint32(len(body)))
	b = append(b, l[:]...)
	return append(b, body...)
}

// Header builds an MThd chunk.
func Header(format, ntrks, division uint16) []byte {
	var h [6]byte
	binary.BigEndian.PutUint16(h[0:], format)
	binary.BigEndian.PutUint16(h[2:], ntrks)
	binary.BigEndian.PutUint16(h[4:], division)
	return Chunk("MThd", h[:])
}

// EqualEvents compares two event lists.
func EqualEvents(a, b []Event) bool {
	if len(a) != len(b) {
		return false
	}
	for i := range a {
		if a[i].Delta != b[i].Delta || !bytes.Equal(a[i].Msg, b[i].Msg) {
			return false
		}
	}
	return true
}

// FirstDiff names the first differing field kind between two event lists
// (signature feature, DESIGN.md appendix D).
func FirstDiff(want, got []Event) string {
	n := len(want)
	if len(got) < n {
		n = len(got)
	}
	for i := 0; i < n; i++ {
		if want[i].Delta != got[i].Delta {
			return "delta"
		}
		if !bytes.Equal(want[i].Msg, got[i].Msg) {
			w, g := want[i].Msg, got[i].Msg
			if len(w) == 0 || len(g) == 0 {
				return "empty-message"
			}
			if w[0] != g[0] {
				return "status"
			}
			return "payload:" + Kind(w)
		}
	}
	if len(want) != len(got) {
		if len(got) == len(want)-1 && len(want) > 0 && IsEOT(want[len(want)-1].Msg) {
			return "eot"
		}
		return "event-count"
	}
	return ""
}

// Kind classifies a canonical message.
func Kind(m []byte) string {
	if len(m) == 0 {
		return "empty"
	}
	switch {
	case m[0] == 0xFF:
		return "meta"
	case m[0] == 0xF0:
		return "sysex"
	case m[0] == 0xF7:
		return "escape"
	case m[0] >= 0x80 && m[0] < 0xF0:
		return "channel"
	}
	return "other"
}
