// Package smfgen is a grammar-driven generator of spec-valid SMF 1.0 byte
// streams. It produces, at byte level and without the library's writer, the
// file bytes *and* the abstract content they encode (DESIGN.md appendix B), so
// that generator, tolerant decoder and strict parser can cross-check each
// other before any of them judges the library.
package smfgen

import (
	"fmt"

	"gitlab.com/gomidi/midi/v2/internal/verifh/refsmf"
)

// Tok is an event token.
type Tok struct {
	Name    string
	Channel bool   // channel event
	Running bool   // emitted without status byte (legal only under equal running status)
	Status  byte   // channel status
	Data    []byte // channel data bytes
	Raw     []byte // file bytes of a meta/sysex event
	Canon   []byte // canonical message
}

func ch(name string, status byte, data ...byte) Tok {
	return Tok{Name: name, Channel: true, Status: status, Data: data, Canon: append([]byte{status}, data...)}
}

func run(name string, status byte, data ...byte) Tok {
	t := ch(name, status, data...)
	t.Running = true
	return t
}

func meta(name string, typ byte, payload []byte, lenWidth int) Tok {
	raw := []byte{0xFF, typ}
	if lenWidth == 0 {
		raw = append(raw, refsmf.VLQ(uint32(len(payload)))...)
	} else {
		raw = append(raw, refsmf.VLQPadded(uint32(len(payload)), lenWidth)...)
	}
	raw = append(raw, payload...)
	return Tok{Name: name, Raw: raw, Canon: refsmf.Meta(typ, payload)}
}

func sysex(name string, lead byte, payload []byte, lenWidth int) Tok {
	raw := []byte{lead}
	if lenWidth == 0 {
		raw = append(raw, refsmf.VLQ(uint32(len(payload)))...)
	} else {
		raw = append(raw, refsmf.VLQPadded(uint32(len(payload)), lenWidth)...)
	}
	raw = append(raw, payload...)
	return Tok{Name: name, Raw: raw, Canon: append([]byte{lead}, payload...)}
}

func fill(n int, seed byte) []byte {
	b := make([]byte, n)
	for i := range b {
		b[i] = (seed + byte(i)*3) & 0x7F
	}
	return b
}

// Tokens returns the full event alphabet, simplest first.
func Tokens() []Tok {
	return []Tok{
		ch("NoteOn0", 0x90, 0x3C, 0x64),
		run("NoteOn0~", 0x90, 0x3E, 0x50), // running status, two data bytes
		ch("Prog0", 0xC0, 0x05),
		run("Prog0~", 0xC0, 0x06), // running status, one data byte
		meta("Text3", 0x01, []byte("abc"), 0),
		sysex("SysEx", 0xF0, []byte{0x41, 0x10, 0xF7}, 0),
		ch("NoteOff0", 0x80, 0x3C, 0x40),
		ch("NoteOn1", 0x91, 0x3C, 0x64), // second channel: not the same running status
		ch("Poly0", 0xA0, 0x3C, 0x11),
		ch("CC0", 0xB0, 0x07, 0x7F),
		ch("After0", 0xD0, 0x22),
		ch("Bend0", 0xE0, 0x00, 0x40),
		run("NoteOff0~", 0x80, 0x2F, 0x00), // data bytes that look like an end-of-track tail
		meta("Text0", 0x01, nil, 0),
		meta("Text127", 0x01, fill(127, 1), 0),
		meta("Text128", 0x01, fill(128, 2), 0),     // two-byte length
		meta("TextPadded", 0x01, []byte("xyz"), 2), // non-minimal length 80 03... (81 would change the value)
		meta("Unknown60", 0x60, []byte{0x01, 0x02}, 0),
		meta("SeqSpecific", 0x7F, []byte{0x00, 0x00, 0x41}, 0),
		meta("Tempo", 0x51, []byte{0x07, 0xA1, 0x20}, 0),
		meta("SeqNo0", 0x00, nil, 0),
		meta("SeqNo2", 0x00, []byte{0x00, 0x01}, 0),
		sysex("SysExOpen", 0xF0, []byte{0x43, 0x12}, 0),        // F0 without terminating F7
		sysex("Continuation", 0xF7, []byte{0x01, 0xF7}, 0),     // F7 continuation closing a packet sequence
		sysex("EscapeRealtime", 0xF7, []byte{0xF8}, 0),         // escape wrapping a real-time byte
		sysex("EscapeSysCommon", 0xF7, []byte{0xF3, 0x01}, 0),  // escape wrapping song select
		sysex("SysExEmpty", 0xF0, nil, 0),                      // length 0
		sysex("SysEx200", 0xF0, append(fill(199, 5), 0xF7), 0), // payload > 127 bytes
		meta("ChannelPrefix", 0x20, []byte{0x05}, 0),
		meta("KeySig", 0x59, []byte{0xFD, 0x01}, 0), // payload bytes >= 0x80
		run("Poly0~", 0xA0, 0x3D, 0x12),
		run("CC0~", 0xB0, 0x0A, 0x40),
		run("After0~", 0xD0, 0x23),
		run("Bend0~", 0xE0, 0x7F, 0x3F),
		// events that are not the end of the track but end in its three bytes
		meta("SeqSpecificEOTTail", 0x7F, []byte{0x00, 0xFF, 0x2F, 0x00}, 0),
		meta("TextEOTTail", 0x01, []byte{'a', 0xFF, 0x2F, 0x00}, 0),
		sysex("EscapeEOTTail", 0xF7, []byte{0xFF, 0x2F, 0x00}, 0),
		ch("Bend15", 0xEF, 0x01, 0x02), // highest channel status
		run("Bend15~", 0xEF, 0x03, 0x04),
	}
}

// StatusSweep returns, for every channel status 0x80..0xEF, a track that uses
// it explicitly, then twice under running status; MetaSweep one track per meta
// type 0x00..0x7F (except end-of-track) with a short payload.
func StatusSweep() (bodies [][]byte, evs [][]refsmf.Event) {
	for st := 0x80; st <= 0xEF; st++ {
		n := refsmf.DataLen(byte(st))
		var body []byte
		var ev []refsmf.Event
		for rep := 0; rep < 3; rep++ {
			body = append(body, byte(rep)) // delta
			d := []byte{byte(0x10 + rep), byte(0x7F - rep)}[:n]
			if rep == 0 {
				body = append(body, byte(st))
			}
			body = append(body, d...)
			ev = append(ev, refsmf.Event{Delta: uint32(rep), Msg: append([]byte{byte(st)}, d...)})
		}
		body = append(body, 0x00, 0xFF, 0x2F, 0x00)
		ev = append(ev, refsmf.Event{Delta: 0, Msg: refsmf.EOT})
		bodies = append(bodies, body)
		evs = append(evs, ev)
	}
	return
}

func MetaSweep() (bodies [][]byte, evs [][]refsmf.Event) {
	for typ := 0; typ < 0x80; typ++ {
		if typ == 0x2F {
			continue
		}
		for _, pl := range [][]byte{nil, {0x01}, {0x07, 0xA1, 0x20}, {1, 2, 3, 4, 5},
			// contents that are odd for the meta type they may sit in (a tempo of
			// zero, a time signature of zeros, a key signature beyond seven sharps ...)
			{0, 0, 0}, {0xFF, 0xFF, 0xFF}, {0, 0}, {0x7F, 0x7F}, {0x09, 0x01}, {0xF9, 0x01}, {0, 0, 0, 0}, {0xFF, 0xFF, 0xFF, 0xFF}, {0, 0, 0, 0, 0}, {0}} {
			body := []byte{0x00, 0x90, 0x3C, 0x40, 0x05, 0xFF, byte(typ), byte(len(pl))}
			body = append(body, pl...)
			body = append(body, 0x00, 0x3E, 0x40) // data under running status after a meta event is NOT legal: use explicit status
			body = body[:len(body)-3]
			body = append(body, 0x00, 0x90, 0x3E, 0x40, 0x00, 0xFF, 0x2F, 0x00)
			ev := []refsmf.Event{{0, []byte{0x90, 0x3C, 0x40}}, {5, refsmf.Meta(byte(typ), pl)}, {0, []byte{0x90, 0x3E, 0x40}}, {0, refsmf.EOT}}
			bodies = append(bodies, body)
			evs = append(evs, ev)
		}
	}
	return
}

// ManyEvents returns tracks of n channel messages with individual data bytes
// (explicit status and running status alternate in blocks), n beyond any
// plausible block size of a decoder.
func ManyEvents() (bodies [][]byte, evs [][]refsmf.Event) {
	// two-byte messages in front of 70000 three-byte ones (0, 1, 2 of them: the
	// sizes of the messages read so far then pass every multiple of a power
	// of two exactly, for one of the three), and two-byte messages only
	for lead := 0; lead <= 3; lead++ {
		var body []byte
		var ev []refsmf.Event
		n := 70000
		for i := 0; i < n; i++ {
			two := i < lead || lead == 3
			st := byte(0x90)
			if two {
				st = 0xC0
			}
			k, v := byte(i%128), byte((i/128)%128)
			body = append(body, byte(i%2))
			if i == 0 || i == lead || i%7 == 3 {
				body = append(body, st)
			}
			if two {
				body = append(body, k)
				ev = append(ev, refsmf.Event{Delta: uint32(i % 2), Msg: []byte{st, k}})
			} else {
				body = append(body, k, v)
				ev = append(ev, refsmf.Event{Delta: uint32(i % 2), Msg: []byte{st, k, v}})
			}
		}
		body = append(body, 0x00, 0xFF, 0x2F, 0x00)
		ev = append(ev, refsmf.Event{Delta: 0, Msg: refsmf.EOT})
		bodies = append(bodies, body)
		evs = append(evs, ev)
	}
	for _, n := range []int{5000, 11000, 23000, 70000} {
		var body []byte
		var ev []refsmf.Event
		for i := 0; i < n; i++ {
			st := byte(0x90 + (i/1000)%3)
			k, v := byte(i%128), byte((i/128)%128)
			body = append(body, byte(i%2))
			if i%1000 == 0 || i%7 == 3 {
				body = append(body, st)
			}
			body = append(body, k, v)
			ev = append(ev, refsmf.Event{Delta: uint32(i % 2), Msg: []byte{st, k, v}})
		}
		body = append(body, 0x00, 0xFF, 0x2F, 0x00)
		ev = append(ev, refsmf.Event{Delta: 0, Msg: refsmf.EOT})
		bodies = append(bodies, body)
		evs = append(evs, ev)
	}
	return
}

// Bursts: n events on one tick behind an event that carries a delta, three
// bursts in a row (sizes 2..70 and around 128, 256, 1024), explicit status
// bytes on some of the events only.
func Bursts() (bodies [][]byte, evs [][]refsmf.Event) {
	var sizes []int
	for n := 2; n <= 70; n++ {
		sizes = append(sizes, n)
	}
	sizes = append(sizes, 127, 128, 129, 130, 255, 256, 257, 1023, 1024, 1025)
	for _, n := range sizes {
		for _, lead := range []uint32{0, 5} {
			var body []byte
			var ev []refsmf.Event
			var run byte
			k := 0
			for burst := 0; burst < 3; burst++ {
				for e := 0; e < n+burst; e++ {
					d := uint32(0)
					if e == 0 {
						d = lead + uint32(burst)*7
					}
					st := byte(0x90 + (k/5)%3)
					msg := []byte{st, byte(0x30 + k%64), byte(0x01 + k%100)}
					body = append(body, refsmf.VLQ(d)...)
					if st != run || k%7 == 3 {
						body = append(body, st)
					}
					run = st
					body = append(body, msg[1], msg[2])
					ev = append(ev, refsmf.Event{Delta: d, Msg: msg})
					k++
				}
			}
			body = append(body, 0x01, 0xFF, 0x2F, 0x00)
			ev = append(ev, refsmf.Event{Delta: 1, Msg: refsmf.EOT})
			bodies = append(bodies, body)
			evs = append(evs, ev)
		}
	}
	return
}

// MagicSpelling: track data in which deltas and data bytes under running
// status spell 'MTrk' / 'MThd' at every alignment of an event boundary.
func MagicSpelling() (bodies [][]byte, evs [][]refsmf.Event) {
	for _, magic := range []string{"MTrk", "MThd"} {
		b := []byte(magic)
		for align := 0; align < 3; align++ {
			x := []byte{0x01, 0x40, 0x41, 0x02, 0x42, 0x43, 0x03}
			copy(x[align:], b)
			body := []byte{0x00, 0x90, 0x3C, 0x40, x[0], x[1], x[2], x[3], x[4], x[5], x[6], 0x3D, 0x41, 0x01, 0x3C, 0x40, 0x02, 0xFF, 0x2F, 0x00}
			ev := []refsmf.Event{{0, []byte{0x90, 0x3C, 0x40}}, {uint32(x[0]), []byte{0x90, x[1], x[2]}}, {uint32(x[3]), []byte{0x90, x[4], x[5]}},
				{uint32(x[6]), []byte{0x90, 0x3D, 0x41}}, {1, []byte{0x90, 0x3C, 0x40}}, {2, refsmf.EOT}}
			bodies = append(bodies, body)
			evs = append(evs, ev)
		}
		for align := 0; align < 2; align++ {
			x := []byte{0x01, 0x05, 0x02, 0x06, 0x03, 0x07}
			copy(x[align:], b)
			body := []byte{0x00, 0xC0, 0x01, x[0], x[1], x[2], x[3], x[4], x[5], 0x01, 0x01, 0x02, 0xFF, 0x2F, 0x00}
			ev := []refsmf.Event{{0, []byte{0xC0, 0x01}}, {uint32(x[0]), []byte{0xC0, x[1]}}, {uint32(x[2]), []byte{0xC0, x[3]}}, {uint32(x[4]), []byte{0xC0, x[5]}},
				{1, []byte{0xC0, 0x01}}, {2, refsmf.EOT}}
			bodies = append(bodies, body)
			evs = append(evs, ev)
		}
	}
	return
}

// EOTEncodings returns files of two and three tracks in which one track's
// end-of-track event carries its zero length in a non-minimal form (FF 2F 80
// 00, FF 2F 80 80 00 ...): legal variable-length quantities, same content.
func EOTEncodings() (files [][]byte, exps []*refsmf.File, names []string) {
	ev := func(k int) ([]byte, []refsmf.Event) {
		return []byte{0x00, 0x90 + byte(k), 0x3C, 0x40, 0x05, 0x80 + byte(k), 0x3C, 0x00},
			[]refsmf.Event{{Delta: 0, Msg: []byte{0x90 + byte(k), 0x3C, 0x40}}, {Delta: 5, Msg: []byte{0x80 + byte(k), 0x3C, 0x00}}}
	}
	for _, ntr := range []int{1, 2, 3} {
		for which := 0; which < ntr; which++ {
			for pad := 1; pad <= 3; pad++ {
				f := refsmf.Header(1, uint16(ntr), 96)
				exp := &refsmf.File{Format: 1, NTrks: uint16(ntr), Division: 96}
				for t := 0; t < ntr; t++ {
					b, e := ev(t)
					b = append(b, 0x02, 0xFF, 0x2F)
					if t == which {
						for i := 0; i < pad; i++ {
							b = append(b, 0x80)
						}
					}
					b = append(b, 0x00)
					e = append(e, refsmf.Event{Delta: 2, Msg: refsmf.EOT})
					f = append(f, refsmf.Chunk("MTrk", b)...)
					exp.Tracks = append(exp.Tracks, e)
				}
				files = append(files, f)
				exps = append(exps, exp)
				names = append(names, fmt.Sprintf("%dtracks/track%d/eot-length-%d-bytes", ntr, which, pad+1))
			}
		}
	}
	return
}

// Delta is a delta-time encoding.
type Delta struct {
	Name string
	Val  uint32
	Enc  []byte
}

func Deltas() []Delta {
	return []Delta{
		{"0", 0, []byte{0x00}},
		{"128", 128, []byte{0x81, 0x00}},
		{"0pad", 0, []byte{0x80, 0x00}}, // non-minimal
		{"127", 127, []byte{0x7F}},
		{"max", 0x0FFFFFFF, []byte{0xFF, 0xFF, 0xFF, 0x7F}},
		{"1pad4", 1, []byte{0x80, 0x80, 0x80, 0x01}},
	}
}

type Timed struct {
	T *Tok
	D *Delta
}

func (t Timed) String() string { return t.D.Name + ":" + t.T.Name }

// Track encodes a token sequence followed by end-of-track. ok=false when a
// running-status token appears where no equal running status is in effect.
func Track(seq []Timed, eot *Delta) (body []byte, evs []refsmf.Event, ok bool) {
	var runSt byte
	for _, tt := range seq {
		body = append(body, tt.D.Enc...)
		t := tt.T
		if t.Channel {
			if t.Running {
				if runSt != t.Status {
					return nil, nil, false
				}
			} else {
				body = append(body, t.Status)
				runSt = t.Status
			}
			body = append(body, t.Data...)
		} else {
			body = append(body, t.Raw...)
			runSt = 0
		}
		evs = append(evs, refsmf.Event{Delta: tt.D.Val, Msg: t.Canon})
	}
	body = append(body, eot.Enc...)
	body = append(body, 0xFF, 0x2F, 0x00)
	evs = append(evs, refsmf.Event{Delta: eot.Val, Msg: refsmf.EOT})
	return body, evs, true
}

// Alien is a chunk of unknown type.
type Alien struct {
	Before int // inserted before track chunk index Before (== number of tracks: after the last)
	Type   string
	Body   []byte
}

// Shape is everything of a file except the enumerated token sequence.
type Shape struct {
	Name     string
	Format   uint16
	NTracks  int
	Division uint16
	SeqTrack int // which track carries the enumerated sequence
	Aliens   []Alien
}

var fillerBody = []byte{0x00, 0x99, 0x24, 0x7F, 0x0A, 0x24, 0x00, 0x00, 0xFF, 0x2F, 0x00}
var fillerEvents = []refsmf.Event{{0, []byte{0x99, 0x24, 0x7F}}, {10, []byte{0x99, 0x24, 0x00}}, {0, refsmf.EOT}}

// File assembles a file of the given shape.
func File(sh Shape, seqBody []byte, seqEvents []refsmf.Event) ([]byte, *refsmf.File) {
	out := refsmf.Header(sh.Format, uint16(sh.NTracks), sh.Division)
	exp := &refsmf.File{Format: sh.Format, NTrks: uint16(sh.NTracks), Division: sh.Division}
	for i := 0; i <= sh.NTracks; i++ {
		for _, a := range sh.Aliens {
			if a.Before == i {
				out = append(out, refsmf.Chunk(a.Type, a.Body)...)
			}
		}
		if i == sh.NTracks {
			break
		}
		if i == sh.SeqTrack {
			out = append(out, refsmf.Chunk("MTrk", seqBody)...)
			exp.Tracks = append(exp.Tracks, seqEvents)
		} else {
			out = append(out, refsmf.Chunk("MTrk", fillerBody)...)
			exp.Tracks = append(exp.Tracks, fillerEvents)
		}
	}
	return out, exp
}

// Divisions lists metric and SMPTE division words.
func Divisions() []uint16 {
	d := []uint16{96, 1, 32767, 960}
	for _, fps := range []int{24, 25, 29, 30} {
		for _, sub := range []uint16{4, 40, 100} {
			d = append(d, uint16(uint8(int8(-fps)))<<8|sub)
		}
	}
	return d
}

// AlienBodies: sizes 0, 1, 5 and a body that looks like track events.
func AlienBodies() [][]byte {
	return [][]byte{
		{},
		{0x7F},
		{0x00, 0xFF, 0x2F, 0x00, 0x01},
		{0x00, 0x90, 0x3C, 0x40, 0x00, 0xFF, 0x2F, 0x00, 'M', 'T', 'r', 'k', 0, 0, 0, 4},
	}
}

// Shapes enumerates file shapes: format x track count x position of the
// enumerated track x division x alien chunk placement.
func Shapes(allDivisions bool) []Shape {
	var out []Shape
	type ft struct {
		f uint16
		n int
	}
	fts := []ft{{0, 1}, {1, 1}, {1, 2}, {1, 3}, {2, 1}, {2, 2}, {2, 3}}
	divs := Divisions()
	if !allDivisions {
		divs = []uint16{96, 0xE728}
	}
	for _, x := range fts {
		for st := 0; st < x.n; st++ {
			for _, dv := range divs {
				// alien placements: none, one at each position (each body kind), one at every position
				placements := [][]Alien{nil}
				for pos := 0; pos <= x.n; pos++ {
					for bi, b := range AlienBodies() {
						typ := "XFIH"
						if bi%2 == 1 {
							typ = "MThd" // a second header-typed chunk is alien too
						}
						placements = append(placements, []Alien{{pos, typ, b}})
					}
				}
				var every []Alien
				for pos := 0; pos <= x.n; pos++ {
					every = append(every, Alien{pos, "junk", []byte{1, 2, 3}})
				}
				placements = append(placements, every, []Alien{{0, "aaaa", nil}, {0, "bbbb", []byte{9}}})
				for pi, pl := range placements {
					out = append(out, Shape{
						Name:   fmt.Sprintf("fmt%d/%dtrk/seq@%d/div%04X/alien%d", x.f, x.n, st, dv, pi),
						Format: x.f, NTracks: x.n, Division: dv, SeqTrack: st, Aliens: pl,
					})
				}
			}
		}
	}
	return out
}

// AlienTypes enumerates shapes whose unknown chunk carries a type that
// differs from "MTrk" (and from "MThd") in exactly one position, or only in
// case: at every position of a two-track file, with a body that looks like a
// track.
func AlienTypes() []Shape {
	var out []Shape
	var types []string
	for _, base := range []string{"MTrk", "MThd"} {
		for i := 0; i < 4; i++ {
			for _, c := range []byte{'X', 0x00, base[i] ^ 0x20, 0xFF} {
				b := []byte(base)
				if b[i] == c {
					continue
				}
				b[i] = c
				types = append(types, string(b))
			}
		}
	}
	types = append(types, "mtrk", "MTRK", "mthd", "krTM", "TrkM")
	body := []byte{0x00, 0x90, 0x3C, 0x40, 0x00, 0xFF, 0x2F, 0x00}
	for ti, typ := range types {
		for pos := 0; pos <= 2; pos++ {
			out = append(out, Shape{Name: fmt.Sprintf("fmt1/2trk/alien-type-%d@%d", ti, pos), Format: 1, NTracks: 2, Division: 96, SeqTrack: pos % 2,
				Aliens: []Alien{{pos, typ, body}}})
		}
	}
	return out
}

// AlienRuns enumerates shapes with two and three unknown chunks in a row (at
// every position of a two-track file) whose body sizes are every ordered pair
// over 0..5 and every ordered triple over 0..3: odd next to even, empty next
// to non-empty (a reader that treats the byte behind an odd-sized chunk
// specially, or remembers something from one unknown chunk to the next).
func AlienRuns() []Shape {
	var out []Shape
	body := func(n, k int) []byte {
		b := make([]byte, n)
		for i := range b {
			b[i] = "MTrk"[(i+k)%4]
		}
		return b
	}
	types := []string{"XFIH", "junk", "MThd"}
	for pos := 0; pos <= 2; pos++ {
		for a := 0; a <= 5; a++ {
			for b := 0; b <= 5; b++ {
				out = append(out, Shape{Name: fmt.Sprintf("fmt1/2trk/alien-run-%d-%d@%d", a, b, pos), Format: 1, NTracks: 2, Division: 96, SeqTrack: pos % 2,
					Aliens: []Alien{{pos, types[0], body(a, 0)}, {pos, types[1], body(b, 1)}}})
			}
		}
		for a := 0; a <= 3; a++ {
			for b := 0; b <= 3; b++ {
				for c := 0; c <= 3; c++ {
					out = append(out, Shape{Name: fmt.Sprintf("fmt1/2trk/alien-run-%d-%d-%d@%d", a, b, c, pos), Format: 1, NTracks: 2, Division: 96, SeqTrack: pos % 2,
						Aliens: []Alien{{pos, types[0], body(a, 0)}, {pos, types[2], body(b, 1)}, {pos, types[1], body(c, 2)}}})
				}
			}
		}
	}
	return out
}

// BaseShape is the plain single-track file.
func BaseShape() Shape {
	return Shape{Name: "fmt0/1trk/div0060", Format: 0, NTracks: 1, Division: 96}
}

// AlienPosition names where the first alien chunk of a shape sits.
func (s Shape) AlienPosition() string {
	if len(s.Aliens) == 0 {
		return "none"
	}
	first, last := false, false
	mid := false
	for _, a := range s.Aliens {
		switch {
		case a.Before == 0:
			first = true
		case a.Before == s.NTracks:
			last = true
		default:
			mid = true
		}
	}
	switch {
	case first:
		return "before-first-track"
	case mid:
		return "between-tracks"
	case last:
		return "after-last-track"
	}
	return "none"
}

// LongSweep: payloads around the 4096-byte block boundary and beyond, each
// followed by further events (so that a reader consuming too much is noticed).
func LongSweep() (bodies [][]byte, evs [][]refsmf.Event) {
	for _, n := range []int{4095, 4096, 4097, 5000, 8192, 12288, 20000} {
		for _, lead := range []byte{0xFF, 0xF0, 0xF7} {
			pl := fill(n, byte(n))
			body := []byte{0x00, 0x90, 0x3C, 0x40, 0x03}
			var msg []byte
			if lead == 0xFF {
				body = append(body, 0xFF, 0x01)
				body = append(body, refsmf.VLQ(uint32(n))...)
				msg = refsmf.Meta(0x01, pl)
			} else {
				body = append(body, lead)
				body = append(body, refsmf.VLQ(uint32(n))...)
				msg = append([]byte{lead}, pl...)
			}
			body = append(body, pl...)
			body = append(body, 0x02, 0x90, 0x3E, 0x41, 0x00, 0x3F, 0x42, 0x01, 0xFF, 0x2F, 0x00)
			ev := []refsmf.Event{{0, []byte{0x90, 0x3C, 0x40}}, {3, msg}, {2, []byte{0x90, 0x3E, 0x41}}, {0, []byte{0x90, 0x3F, 0x42}}, {1, refsmf.EOT}}
			bodies = append(bodies, body)
			evs = append(evs, ev)
		}
	}
	return
}
