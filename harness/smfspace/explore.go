package smfspace

import (
	"fmt"

	"gitlab.com/gomidi/midi/v2"
	"gitlab.com/gomidi/midi/v2/internal/verifh/refsmf"

	"gitlab.com/gomidi/midi/v2/internal/verifh/engine"
	"gitlab.com/gomidi/midi/v2/smf"
)

// Plan bounds one explicit-state search.
type Plan struct {
	Name        string
	Cfgs        []Cfg
	AlName      string
	Deltas      []uint32
	CloseDeltas []uint32
	Add2        bool // multi-message Add over a reduced pair set
	Keep        bool // SMF.Add while the track variable keeps being used
	Write       bool // a WriteTo in the middle of the history (at most MaxWrites per history)
	MaxWrites   int
	MaxEvents   int
	MaxTracks   int
}

func Alphabet(name string) []Msg {
	switch name {
	case "full":
		return FullAlphabet()
	case "small":
		return SmallAlphabet()
	case "tiny":
		return TinyAlphabet()
	case "c16":
		return ConvAlphabet()
	case "lookalike":
		return LookalikeAlphabet()
	}
	panic("unknown alphabet " + name)
}

// Ops lists the operation alphabet of a plan, simplest first.
func (p Plan) Ops() []Op {
	al := Alphabet(p.AlName)
	var ops []Op
	ops = append(ops, Op{Kind: OpSMFAdd})
	for _, d := range p.CloseDeltas {
		ops = append(ops, Op{Kind: OpClose, D: d})
	}
	for _, d := range p.Deltas {
		for m := range al {
			ops = append(ops, Op{Kind: OpAdd, D: d, M1: m})
		}
	}
	if p.Add2 {
		// pairs: same status (running status inside one call), channel+meta, meta+channel
		n := len(al)
		pairs := [][2]int{{0, 1 % n}, {0, n - 1}, {n - 1, 0}}
		for _, d := range p.Deltas[:min(2, len(p.Deltas))] {
			for _, pr := range pairs {
				ops = append(ops, Op{Kind: OpAdd2, D: d, M1: pr[0], M2: pr[1]})
			}
		}
	}
	if p.Keep {
		ops = append(ops, Op{Kind: OpSMFAddKeep})
	}
	if p.Write {
		ops = append(ops, Op{Kind: OpWrite})
	}
	return ops
}

// CheckFn is evaluated in every state whose file value just changed.
type CheckFn func(in *Inst, ops []Op, cfg Cfg, p *Plan)

// Build replays a history on a fresh instance.
func Build(cfg Cfg, al []Msg, ops []Op) *Inst {
	in := NewInst(cfg, al)
	for _, o := range ops {
		in.Apply(o)
	}
	return in
}

// RunPlanCfg explores all histories of the plan for one configuration and
// accumulates states / transitions / depth in ctx ("states", "transitions",
// "max:depth", and the same per plan).
func RunPlanCfg(ctx *engine.Ctx, p Plan, cfg Cfg, check CheckFn) {
	RunPlanCfgShard(ctx, p, cfg, -1, check)
}

// RunPlanCfgShard explores only the histories whose first operation is
// firstOp (all of them if firstOp < 0). The shards of one (plan, cfg) partition
// the histories; the state reached by the first operation alone is evaluated
// by the shard that owns it.
func RunPlanCfgShard(ctx *engine.Ctx, p Plan, cfg Cfg, firstOp int, check CheckFn) {
	al := Alphabet(p.AlName)
	ops := p.Ops()
	b := &engine.BFS{NumOps: len(ops)}
	enabled := func(m *Model, o Op) bool {
		if len(m.Tracks) >= p.MaxTracks {
			return false
		}
		switch o.Kind {
		case OpAdd:
			return m.Events+1 <= p.MaxEvents
		case OpAdd2:
			return m.Events+2 <= p.MaxEvents
		case OpSMFAddKeep:
			return len(m.Cur) > 0
		case OpWrite:
			mw := p.MaxWrites
			if mw == 0 {
				mw = 1
			}
			return m.Writes < mw && len(m.Tracks) > 0
		}
		return true
	}
	b.Expand = func(path []uint16, emit func(op uint16, key string)) {
		hist := make([]Op, len(path)+1)
		for i, oi := range path {
			hist[i] = ops[oi]
		}
		parent := Build(cfg, al, hist[:len(path)])
		for oi, o := range ops {
			if !enabled(&parent.M, o) {
				continue
			}
			hist[len(path)] = o
			var in *Inst
			if p.Keep {
				// aliasing between the kept track variable and the file's tracks is
				// part of the behaviour: no value copies, full replay
				in = Build(cfg, al, hist)
			} else {
				in = parent.Clone()
				in.Apply(o)
			}
			ctx.Eval()
			if ok, what := in.AgreeWithModel(); !ok {
				sig := "api-model:" + what
				if ctx.SigCount(sig) < 3 {
					ctx.Violation(sig, HistoryDetail(cfg, p.AlName, hist, al, "the value built by the API differs from the reference model in "+what))
				}
			}
			key := in.Key(p.Keep) // before the check: WriteTo closes open tracks in place
			if o.Kind == OpSMFAdd || o.Kind == OpSMFAddKeep {
				check(in, hist, cfg, &p)
				if ctx.SampleCount() < 2 && len(hist) >= 4 {
					ctx.Sample(map[string]interface{}{"plan": p.Name, "cfg": cfg.String(), "history": DescribeOps(hist, al)})
				}
			}
			emit(uint16(oi), key)
		}
	}
	if firstOp >= 0 {
		// evaluate the one-operation history itself, then continue below it
		root := NewInst(cfg, al)
		if !enabled(&root.M, ops[firstOp]) {
			return
		}
		var got bool
		b.Expand([]uint16{}, func(op uint16, key string) {
			if int(op) == firstOp {
				got = true
			}
		})
		if !got {
			return
		}
		b.Start = [][]uint16{{uint16(firstOp)}}
	}
	b.Explore("init")
	if firstOp >= 0 {
		b.Depth++
	}
	ctx.Add("states", b.States)
	ctx.Add("transitions", b.Transitions)
	ctx.Add("plan:"+p.Name+":states", b.States)
	ctx.Add("plan:"+p.Name+":transitions", b.Transitions)
	ctx.Max("max:depth", int64(b.Depth))
	ctx.Max("max:plan:"+p.Name+":depth", int64(b.Depth))
	if !b.Fixpoint {
		ctx.NotExhaustive(fmt.Sprintf("plan %s cfg %s stopped before the bounded space was exhausted", p.Name, cfg))
	}
}

// HistoryDetail is the replayable description of a history.
func HistoryDetail(cfg Cfg, alName string, hist []Op, al []Msg, what string) map[string]interface{} {
	var raw [][]int64
	for _, o := range hist {
		raw = append(raw, []int64{int64(o.Kind), int64(o.D), int64(o.M1), int64(o.M2)})
	}
	tfKind, a, b := "metric", 0, 0
	switch t := cfg.TF.(type) {
	case smf.MetricTicks:
		a = int(t)
	case smf.TimeCode:
		tfKind, a, b = "smpte", int(t.FramesPerSecond), int(t.SubFrames)
	}
	return map[string]interface{}{
		"kind":     "history",
		"what":     what,
		"alphabet": alName,
		"ctor":     cfg.Ctor,
		"nors":     cfg.NoRS,
		"tf":       tfKind,
		"tf_a":     a,
		"tf_b":     b,
		"ops":      raw,
		"readable": DescribeOps(hist, al),
	}
}

// ParseHistory is the inverse of HistoryDetail.
func ParseHistory(m map[string]interface{}) (Cfg, string, []Op) {
	var cfg Cfg
	cfg.Ctor = int(num(m["ctor"]))
	cfg.NoRS, _ = m["nors"].(bool)
	if m["tf"] == "smpte" {
		cfg.TF = smf.TimeCode{FramesPerSecond: uint8(num(m["tf_a"])), SubFrames: uint8(num(m["tf_b"]))}
	} else {
		cfg.TF = smf.MetricTicks(uint16(num(m["tf_a"])))
	}
	alName, _ := m["alphabet"].(string)
	var ops []Op
	if l, ok := m["ops"].([]interface{}); ok {
		for _, e := range l {
			r := e.([]interface{})
			ops = append(ops, Op{Kind: OpKind(num(r[0])), D: uint32(num(r[1])), M1: int(num(r[2])), M2: int(num(r[3]))})
		}
	}
	return cfg, alName, ops
}

func num(v interface{}) float64 {
	f, _ := v.(float64)
	return f
}

func TFName(tf smf.TimeFormat) string {
	if isTimeCode(tf) {
		return "smpte"
	}
	return "metric"
}

// SweepCase is one member of a scalar sweep: a complete history on a private alphabet.
type SweepCase struct {
	Cfg  Cfg
	Al   []Msg
	Ops  []Op
	Name string
	Val  interface{}
}

// ValueSweeps enumerates value dimensions the class alphabets do not cover:
// every channel status 0x80..0xEF (three messages of the same status in a row,
// so that running status applies, then a different status), every meta type
// (except end-of-track) with four payload sizes, and track counts around the
// one-byte boundary.
func ValueSweeps() []SweepCase {
	var out []SweepCase
	data := func(st byte, k int) []byte {
		if refsmf.DataLen(st) == 1 {
			return []byte{st, byte(0x11 * (k + 1))}
		}
		return []byte{st, byte(0x11 * (k + 1)), byte(0x7F - k)}
	}
	for _, nors := range []bool{false, true} {
		cfg := Cfg{Ctor: 0, NoRS: nors, TF: smf.MetricTicks(96)}
		for st := 0x80; st <= 0xEF; st++ {
			other := byte(0x80 + (st+0x11)%0x70)
			al := []Msg{{"a", data(byte(st), 0)}, {"b", data(byte(st), 1)}, {"c", data(byte(st), 2)}, {"other", data(other, 0)}}
			ops := []Op{{Kind: OpAdd, D: 0, M1: 0}, {Kind: OpAdd, D: 1, M1: 1}, {Kind: OpAdd, D: 0, M1: 3}, {Kind: OpAdd, D: 2, M1: 2}, {Kind: OpAdd, D: 0, M1: 0}, {Kind: OpClose, D: 1}, {Kind: OpSMFAdd}}
			out = append(out, SweepCase{cfg, al, ops, "status", st})
		}
		for typ := 0; typ < 0x80; typ++ {
			if typ == 0x2F {
				continue
			}
			for _, n := range []int{0, 1, 3, 130} {
				pl := make([]byte, n)
				for i := range pl {
					pl[i] = byte(i + typ)
				}
				al := []Msg{{"note", []byte{0x93, 0x40, 0x41}}, {"meta", smf.MetaUndefined(byte(typ), pl)}}
				ops := []Op{{Kind: OpAdd, D: 0, M1: 0}, {Kind: OpAdd, D: 1, M1: 1}, {Kind: OpAdd, D: 0, M1: 0}, {Kind: OpSMFAdd}}
				out = append(out, SweepCase{cfg, al, ops, "meta-type", fmt.Sprintf("%02X/%d", typ, n)})
			}
		}
		// two meta events of neighbouring types directly after one another (and a
		// third one of the first type), between channel messages of one status
		for typ := 0; typ < 0x80; typ++ {
			if typ == 0x2F || typ+1 == 0x2F {
				continue
			}
			al := []Msg{{"note", []byte{0x93, 0x40, 0x41}}, {"metaA", smf.MetaUndefined(byte(typ), []byte{1})}, {"metaB", smf.MetaUndefined(byte((typ+1)%0x80), []byte{2, 3})}}
			ops := []Op{{Kind: OpAdd, D: 0, M1: 0}, {Kind: OpAdd, D: 1, M1: 1}, {Kind: OpAdd, D: 0, M1: 2}, {Kind: OpAdd, D: 2, M1: 1}, {Kind: OpAdd, D: 0, M1: 0}, {Kind: OpSMFAdd}}
			out = append(out, SweepCase{cfg, al, ops, "meta-type-pairs", fmt.Sprintf("%02X", typ)})
		}
		// type bytes with the high bit set: outside the format, but the API builds
		// them and a written value must still read back as it was (C01 only; the
		// strict parser of C03 does not define them)
		for typ := 0x80; typ <= 0xFF; typ++ {
			pl := []byte{byte(typ), 0x01}
			al := []Msg{{"note", []byte{0x93, 0x40, 0x41}}, {"meta", smf.MetaUndefined(byte(typ), pl)}}
			ops := []Op{{Kind: OpAdd, D: 0, M1: 0}, {Kind: OpAdd, D: 1, M1: 1}, {Kind: OpAdd, D: 0, M1: 0}, {Kind: OpSMFAdd}}
			out = append(out, SweepCase{cfg, al, ops, "meta-type-8bit", fmt.Sprintf("%02X", typ)})
		}
		// texts whose bytes a reader might want to tidy up: byte order marks in
		// front, line ends and blanks at both ends, NUL bytes, for every text kind
		for typ := byte(0x01); typ <= 0x09; typ++ {
			for ti, txt := range []string{"\xEF\xBB\xBFtitle", "\xFE\xFFt", "\xFF\xFEt\x00", " title ", "title\r\n", "\ntitle", "title\x00", "\x00", "\t", "\xEF\xBB\xBF"} {
				al := []Msg{{"note", []byte{0x93, 0x40, 0x41}}, {"text", smf.MetaUndefined(typ, []byte(txt))}}
				ops := []Op{{Kind: OpAdd, D: 0, M1: 0}, {Kind: OpAdd, D: 1, M1: 1}, {Kind: OpAdd, D: 0, M1: 0}, {Kind: OpSMFAdd}}
				out = append(out, SweepCase{cfg, al, ops, "text-contents", fmt.Sprintf("%02X/%d", typ, ti)})
			}
		}
		// bursts: n events on one tick behind an event that carries a delta, three
		// bursts in a row and one at the start of the track (whatever batches
		// or counts the events of a tick sees every size up to 70 and the sizes
		// around 128, 256, 1024)
		{
			var al []Msg
			for i := 0; i < 12; i++ {
				al = append(al, Msg{fmt.Sprintf("m%d", i), []byte{0x90 + byte(i/4), 0x30 + byte(i), 0x40 + byte(i)}})
			}
			al = append(al, Msg{"text", smf.MetaText("b")}, Msg{"pc", []byte{0xC1, 0x05}})
			var sizes []int
			for n := 2; n <= 70; n++ {
				sizes = append(sizes, n)
			}
			sizes = append(sizes, 127, 128, 129, 130, 255, 256, 257, 1023, 1024, 1025)
			for _, n := range sizes {
				for _, lead := range []uint32{0, 5} {
					var ops []Op
					k := 0
					for burst := 0; burst < 3; burst++ {
						for e := 0; e < n+burst; e++ {
							d := uint32(0)
							if e == 0 {
								d = lead + uint32(burst)*7
							}
							ops = append(ops, Op{Kind: OpAdd, D: d, M1: k % len(al)})
							k++
						}
					}
					ops = append(ops, Op{Kind: OpClose, D: 1}, Op{Kind: OpSMFAdd})
					out = append(out, SweepCase{cfg, al, ops, "burst", fmt.Sprintf("%d/%d", n, lead)})
				}
			}
		}
		// deltas and data bytes that spell a chunk type where an event starts
		// (under running status a note or program change has no byte above 0x7F):
		// 'MTrk' and 'MThd' at every alignment of two- and one-data-byte messages
		for _, magic := range []string{"MTrk", "MThd"} {
			b := []byte(magic)
			for align := 0; align < 3; align++ {
				// three-byte messages: the stream delta k v delta k v ... holds the word from position align on
				x := []byte{0x01, 0x40, 0x41, 0x02, 0x42, 0x43, 0x03}
				copy(x[align:], b)
				al := []Msg{{"lead", []byte{0x90, 0x3C, 0x40}}, {"n1", []byte{0x90, x[1], x[2]}}, {"n2", []byte{0x90, x[4], x[5]}}, {"tail", []byte{0x90, 0x3D, 0x41}}}
				ops := []Op{{Kind: OpAdd, D: 0, M1: 0}, {Kind: OpAdd, D: uint32(x[0]), M1: 1}, {Kind: OpAdd, D: uint32(x[3]), M1: 2}, {Kind: OpAdd, D: uint32(x[6]), M1: 3}, {Kind: OpAdd, D: 1, M1: 0}, {Kind: OpClose, D: 2}, {Kind: OpSMFAdd}}
				out = append(out, SweepCase{cfg, al, ops, "magic-spelling", fmt.Sprintf("%s/note/%d", magic, align)})
			}
			for align := 0; align < 2; align++ {
				// two-byte messages: delta p delta p delta ...
				x := []byte{0x01, 0x05, 0x02, 0x06, 0x03, 0x07}
				copy(x[align:], b)
				al := []Msg{{"lead", []byte{0xC0, 0x01}}, {"p1", []byte{0xC0, x[1]}}, {"p2", []byte{0xC0, x[3]}}, {"p3", []byte{0xC0, x[5]}}}
				ops := []Op{{Kind: OpAdd, D: 0, M1: 0}, {Kind: OpAdd, D: uint32(x[0]), M1: 1}, {Kind: OpAdd, D: uint32(x[2]), M1: 2}, {Kind: OpAdd, D: uint32(x[4]), M1: 3}, {Kind: OpAdd, D: 1, M1: 0}, {Kind: OpClose, D: 2}, {Kind: OpSMFAdd}}
				out = append(out, SweepCase{cfg, al, ops, "magic-spelling", fmt.Sprintf("%s/program/%d", magic, align)})
			}
		}
		// 70000 channel messages with 0..2 two-byte messages in front (the sizes
		// of the messages so far pass every multiple of a power of two exactly,
		// for one of the three), and 70000 two-byte messages
		for lead := 0; lead <= 3; lead++ {
			al := []Msg{{"a", []byte{0x90, 0x40, 0x41}}, {"b", []byte{0x90, 0x41, 0x00}}, {"p", []byte{0xC0, 0x05}}, {"q", []byte{0xC0, 0x06}}}
			ne := 70000
			ops := make([]Op, 0, ne+2)
			for e := 0; e < ne; e++ {
				m := e % 2
				if e < lead || lead == 3 {
					m += 2
				}
				ops = append(ops, Op{Kind: OpAdd, D: uint32(e % 2), M1: m})
			}
			ops = append(ops, Op{Kind: OpClose, D: 1}, Op{Kind: OpSMFAdd})
			out = append(out, SweepCase{cfg, al, ops, "event-sizes", lead})
		}
		// many events in one track (chunk bodies beyond 64 KiB, event counts beyond 65535)
		for _, ne := range []int{255, 256, 257, 4095, 4096, 65535, 65536, 65537} {
			al := []Msg{{"a", []byte{0x90, 0x40, 0x41}}, {"b", []byte{0x90, 0x41, 0x00}}, {"t", smf.MetaText("x")}}
			ops := make([]Op, 0, ne+2)
			for e := 0; e < ne; e++ {
				m := e % 2
				if e%1000 == 999 {
					m = 2
				}
				ops = append(ops, Op{Kind: OpAdd, D: uint32(e % 2), M1: m})
			}
			ops = append(ops, Op{Kind: OpClose, D: 1}, Op{Kind: OpSMFAdd})
			out = append(out, SweepCase{cfg, al, ops, "event-count", ne})
		}
		for _, nt := range []int{1, 2, 3, 16, 127, 128, 255, 256, 257, 1000} {
			al := []Msg{{"note", []byte{0x90, 0x40, 0x41}}}
			var ops []Op
			for t := 0; t < nt; t++ {
				ops = append(ops, Op{Kind: OpAdd, D: uint32(t % 3), M1: 0}, Op{Kind: OpSMFAdd})
			}
			out = append(out, SweepCase{Cfg{Ctor: 1, NoRS: nors, TF: smf.MetricTicks(96)}, al, ops, "track-count", nt})
		}
	}
	return out
}

// ScalarSweeps enumerates one scalar dimension completely on a fixed small
// file: every metric resolution, every SMPTE division, delta boundaries of
// the uint32 range (maxDelta limits them for C03), payload lengths 0..300 and
// around every VLQ width and block-size boundary for text, sysex, escape and
// unknown meta. part/parts spread the work over processes.
// Thorough is set by the checks that want the wider sweeps.
var Thorough bool

func ScalarSweeps(part, parts int, maxDelta uint64, f func(SweepCase)) {
	al := FullAlphabet()
	base := []Op{{Kind: OpAdd, D: 0, M1: 9}, {Kind: OpAdd, D: 1, M1: 0}, {Kind: OpAdd, D: 130, M1: 1}, {Kind: OpClose, D: 2}, {Kind: OpSMFAdd}}
	for r := 1 + part; r <= 32767; r += parts {
		for _, nors := range []bool{false, true} {
			f(SweepCase{Cfg{Ctor: 0, NoRS: nors, TF: smf.MetricTicks(r)}, al, base, "resolution", r})
		}
	}
	if part == 0 {
		for _, fps := range []uint8{24, 25, 29, 30} {
			for sub := 0; sub < 256; sub++ {
				f(SweepCase{Cfg{Ctor: 1, TF: smf.TimeCode{FramesPerSecond: fps, SubFrames: uint8(sub)}}, al, base, "smpte", fmt.Sprintf("%d/%d", fps, sub)})
			}
		}
	}
	if part == 1%parts {
		bounds := []uint64{0, 1, 127, 128, 16383, 16384, 2097151, 2097152, 0x0FFFFFFF, 0x10000000, 0x7FFFFFFF, 0x80000000, 0xFFFFFFFF}
		seen := map[uint32]bool{}
		for _, b := range bounds {
			for _, off := range []int64{-1, 0, 1} {
				v := int64(b) + off
				if v < 0 || uint64(v) > maxDelta || seen[uint32(v)] {
					continue
				}
				seen[uint32(v)] = true
				for _, pos := range []int{0, 1, 2} {
					ops := []Op{{Kind: OpAdd, D: 3, M1: 0}, {Kind: OpAdd, D: 4, M1: 1}, {Kind: OpClose, D: 5}, {Kind: OpSMFAdd}}
					ops[pos].D = uint32(v)
					for _, nors := range []bool{false, true} {
						f(SweepCase{Cfg{Ctor: 0, NoRS: nors, TF: smf.MetricTicks(480)}, al, ops, "delta", v})
					}
				}
			}
		}
	}
	// every message of the alphabet behind a delta of every encoded width (an
	// event assembled in one piece depends on both sizes together)
	if part == 3%parts {
		for _, v := range []uint64{0, 127, 128, 16383, 16384, 2097151, 2097152, 0x0FFFFFFF, 0x10000000, 0xFFFFFFFF} {
			if v > maxDelta {
				continue
			}
			for m := range al {
				for _, nors := range []bool{false, true} {
					ops := []Op{{Kind: OpAdd, D: 3, M1: 0}, {Kind: OpAdd, D: uint32(v), M1: m}, {Kind: OpAdd, D: 4, M1: 1}, {Kind: OpClose, D: 5}, {Kind: OpSMFAdd}}
					f(SweepCase{Cfg{Ctor: 0, NoRS: nors, TF: smf.MetricTicks(480)}, al, ops, "delta-by-message", fmt.Sprintf("%d/%s", v, al[m].Name)})
				}
			}
		}
	}
	// two events of more than a megabyte in one track (a chunk body that has
	// outgrown every growth step when the second one arrives)
	if part == 2%parts {
		mk := func(n int, seed byte) []byte {
			p := make([]byte, n)
			for j := range p {
				p[j] = (byte(j) + seed) & 0x7F
			}
			return p
		}
		alx := []Msg{{"SysEx1.5M", smf.Message(midi.SysEx(mk(1500000, 1)))}, {"SysEx2.2M", smf.Message(midi.SysEx(mk(2200000, 2)))}, {"Text1.1M", smf.MetaText(string(mk(1100000, 3)))}, {"NoteOn", midi.NoteOn(2, 1, 2)}}
		for _, order := range [][]int{{0, 1}, {1, 0}, {2, 1}, {0, 2, 1}} {
			ops := []Op{{Kind: OpAdd, D: 0, M1: 3}}
			for _, m := range order {
				ops = append(ops, Op{Kind: OpAdd, D: 1, M1: m})
			}
			ops = append(ops, Op{Kind: OpAdd, D: 0, M1: 3}, Op{Kind: OpSMFAdd})
			f(SweepCase{Cfg{Ctor: 0, TF: smf.MetricTicks(960)}, alx, ops, "megabyte-events", fmt.Sprint(order)})
		}
		// a length of four digits behind a delta of four digits (every event with
		// its widest prefix), for the three kinds that carry a length
		for m := 0; m < 3; m++ {
			for _, d := range []uint32{0x200000, 0x0FFFFFFF} {
				ops := []Op{{Kind: OpAdd, D: 0, M1: 3}, {Kind: OpAdd, D: d, M1: m}, {Kind: OpAdd, D: 0, M1: 3}, {Kind: OpSMFAdd}}
				if m == 2 {
					continue // the text of 1.1 MB has a three-digit length
				}
				f(SweepCase{Cfg{Ctor: 0, TF: smf.MetricTicks(960)}, alx, ops, "megabyte-events", fmt.Sprintf("%d behind delta %X", m, d)})
			}
		}
	}
	// deltas whose base-128 digits are all combinations of a few digit values
	// (an encoder of its own in the writer may get any one digit position wrong)
	digits := []uint64{0, 1, 0x2A, 0x55, 0x7F}
	if Thorough {
		digits = []uint64{0, 1, 2, 0x0F, 0x10, 0x2A, 0x3F, 0x40, 0x55, 0x6A, 0x7E, 0x7F}
	}
	n := 0
	for _, d3 := range digits {
		for _, d2 := range digits {
			for _, d1 := range digits {
				for _, d0 := range digits {
					v := d3<<21 | d2<<14 | d1<<7 | d0
					n++
					if v > maxDelta || n%parts != part {
						continue
					}
					for _, pos := range []int{0, 2} {
						ops := []Op{{Kind: OpAdd, D: 3, M1: 0}, {Kind: OpAdd, D: 4, M1: 1}, {Kind: OpClose, D: 5}, {Kind: OpSMFAdd}}
						ops[pos].D = uint32(v)
						f(SweepCase{Cfg{Ctor: 0, NoRS: pos == 2, TF: smf.MetricTicks(480)}, al, ops, "delta-digits", int64(v)})
					}
				}
			}
		}
	}
	var lens []int
	for i := 0; i <= 300; i++ {
		lens = append(lens, i)
	}
	for _, b := range []int{4096, 8192, 12288, 16384, 65536, 2097152} {
		lens = append(lens, b-2, b-1, b, b+1)
	}
	lens = append(lens, 5000, 20000)
	// four-digit lengths whose base-128 digits all differ (a digit position
	// written or read in the wrong place shows only then)
	lens = append(lens, 0x200080, 0x204081, 0x3F8142)
	for li := part; li < len(lens); li += parts {
		n := lens[li]
		p := make([]byte, n)
		for j := range p {
			p[j] = byte(j*7+1) & 0x7F
		}
		alx := []Msg{
			{"TextN", smf.MetaText(string(p))},
			{"SysExN", smf.Message(midi.SysEx(p))},
			{"EscapeN", smf.Message(append([]byte{0xF7}, p...))},
			{"UndefN", smf.MetaUndefined(0x60, p)},
			{"NoteOn", midi.NoteOn(2, 1, 2)},
		}
		for m := 0; m < 4; m++ {
			// the long message followed by more events and by a second track
			ops := []Op{{Kind: OpAdd, D: 0, M1: 4}, {Kind: OpAdd, D: 1, M1: m}, {Kind: OpAdd, D: 0, M1: 4}, {Kind: OpSMFAdd}, {Kind: OpAdd, D: 7, M1: 4}, {Kind: OpSMFAdd}}
			f(SweepCase{Cfg{Ctor: 0, TF: smf.MetricTicks(960)}, alx, ops, "payload-len", n})
		}
	}
}
