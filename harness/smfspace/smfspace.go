// Package smfspace defines the state space "SMF values reachable through the
// public construction API" shared by C01, C03 and C16: operations, the
// reference model of what each operation means, and the lock-step execution of
// an operation history on a real smf.SMF and on the model.
package smfspace

import (
	"bytes"
	"fmt"
	"io"

	"gitlab.com/gomidi/midi/v2"
	"gitlab.com/gomidi/midi/v2/internal/verifh/refsmf"
	"gitlab.com/gomidi/midi/v2/smf"
)

// Msg is one member of the message alphabet.
type Msg struct {
	Name  string
	Bytes []byte
}

// FullAlphabet: one representative per class the writer/reader distinguish.
func FullAlphabet() []Msg {
	return []Msg{
		{"NoteOn0a", midi.NoteOn(0, 60, 100)},
		{"NoteOn0b", midi.NoteOn(0, 64, 1)}, // same status: running status applies
		{"NoteOn1", midi.NoteOn(1, 60, 100)},
		{"NoteOff0", midi.NoteOff(0, 60)},
		{"Prog0a", midi.ProgramChange(0, 5)},
		{"Prog0b", midi.ProgramChange(0, 6)}, // two-byte message under running status
		{"After0", midi.AfterTouch(0, 33)},
		{"Bend0", midi.Pitchbend(0, 100)},
		{"Text", smf.MetaText("hi")},
		{"Tempo", smf.MetaTempo(140)},
		{"MetaUndef", smf.MetaUndefined(0x7E, []byte{1, 2})},
		{"SysEx", smf.Message(midi.SysEx([]byte{0x41, 0x10}))},
		{"EscapeF7", smf.Message([]byte{0xF7, 0xF8, 0x01})},
		{"SysExOpen", smf.Message([]byte{0xF0, 0x43, 0x12})}, // F0 without F7 (first packet)
	}
}

// LookalikeAlphabet: messages whose payload looks like something else: it ends
// in (or consists of) the bytes of an end-of-track event, starts with a
// status byte, or looks like a chunk header.
func LookalikeAlphabet() []Msg {
	return []Msg{
		{"NoteOn0", midi.NoteOn(0, 60, 100)},
		{"TextEndsLikeEOT", smf.MetaText("a\xff\x2f\x00")},
		{"EscapeIsEOT", smf.Message([]byte{0xF7, 0xFF, 0x2F, 0x00})},
		{"SysExEndsLikeEOT", smf.Message([]byte{0xF0, 0x01, 0xFF, 0x2F, 0x00})},
		{"UndefEndsLikeEOT", smf.MetaUndefined(0x60, []byte{0x00, 0xFF, 0x2F, 0x00})},
		{"TextLikeChunk", smf.MetaText("MTrk\x00\x00\x00\x04")},
		{"NoteOn0b", midi.NoteOn(0, 0x2F, 0)}, // data bytes 2F 00
		{"TextLikeStatus", smf.MetaText("\x90\x3c\x40")},
	}
}

// SmallAlphabet (10) and TinyAlphabet (4) are nested subsets for deeper bounds.
func SmallAlphabet() []Msg {
	a := FullAlphabet()
	return []Msg{a[0], a[1], a[2], a[4], a[5], a[8], a[9], a[11], a[12], a[3]}
}

func TinyAlphabet() []Msg {
	a := FullAlphabet()
	return []Msg{a[0], a[1], a[4], a[8]}
}

// ConvAlphabet serves C16: channel messages on channels 0, 1 and 15, meta,
// sysex and escape.
func ConvAlphabet() []Msg {
	return []Msg{
		{"NoteOn0", midi.NoteOn(0, 60, 100)},
		{"NoteOff0", midi.NoteOff(0, 60)},
		{"NoteOn1", midi.NoteOn(1, 61, 90)},
		{"Prog15", midi.ProgramChange(15, 7)},
		{"CC1", midi.ControlChange(1, 7, 100)},
		{"TextA", smf.MetaText("a")},
		{"TextB", smf.MetaText("b")},
		{"Tempo", smf.MetaTempo(90)},
		{"SysEx", smf.Message(midi.SysEx([]byte{0x7E, 0x09}))},
		{"EscapeF7", smf.Message([]byte{0xF7, 0xFA})},
	}
}

type OpKind uint8

const (
	OpAdd        OpKind = iota // cur.Add(d, m)
	OpAdd2                     // cur.Add(d, m, m2)
	OpClose                    // cur.Close(d)
	OpSMFAdd                   // s.Add(cur); cur = new empty track
	OpSMFAddKeep               // s.Add(cur); the same track variable keeps being used
	OpWrite                    // s.WriteTo(discard): a write in the middle of the history (closes open tracks in place)
)

type Op struct {
	Kind   OpKind
	D      uint32
	M1, M2 int
}

func (o Op) String(al []Msg) string {
	switch o.Kind {
	case OpAdd:
		return fmt.Sprintf("Add(%d,%s)", o.D, al[o.M1].Name)
	case OpAdd2:
		return fmt.Sprintf("Add(%d,%s,%s)", o.D, al[o.M1].Name, al[o.M2].Name)
	case OpClose:
		return fmt.Sprintf("Close(%d)", o.D)
	case OpSMFAdd:
		return "SMF.Add;newtrack"
	case OpSMFAddKeep:
		return "SMF.Add;keeptrack"
	case OpWrite:
		return "SMF.WriteTo(discard)"
	}
	return "?"
}

// Cfg is the configuration dimension.
type Cfg struct {
	Ctor int // 0 New, 1 NewSMF1, 2 NewSMF2
	NoRS bool
	TF   smf.TimeFormat
	// FromRead > 0: the history does not start from a constructor but from the
	// value obtained by reading a file of that many tracks (format = Ctor, or 1
	// when Ctor is 0 and there are two tracks; division = TF)
	FromRead int
}

func (c Cfg) String() string {
	s := fmt.Sprintf("ctor=%d noRS=%v tf=%s", c.Ctor, c.NoRS, c.TF.String())
	if c.FromRead > 0 {
		s += fmt.Sprintf(" from-read(%d tracks)", c.FromRead)
	}
	return s
}

// Division returns the division word the format prescribes for a time format.
func Division(tf smf.TimeFormat) uint16 {
	switch t := tf.(type) {
	case smf.MetricTicks:
		return uint16(t)
	case smf.TimeCode:
		return uint16(uint8(-int8(t.FramesPerSecond)))<<8 | uint16(t.SubFrames)
	}
	return 0
}

// Model is the reference state.
type Model struct {
	Format            uint16
	Tracks            [][]refsmf.Event // as added to the file
	Cur               []refsmf.Event   // track under construction
	Events            int              // total events added through Add (bound bookkeeping)
	Writes            int              // number of OpWrite so far (bound bookkeeping)
	TracksAtLastWrite int
}

func closed(t []refsmf.Event) bool {
	return len(t) > 0 && refsmf.IsEOT(t[len(t)-1].Msg)
}

// Inst is the lock-step pair (real value, model).
type Inst struct {
	Cfg Cfg
	Al  []Msg
	S   *smf.SMF
	Cur smf.Track
	M   Model
}

func NewInst(cfg Cfg, al []Msg) *Inst {
	in := &Inst{Cfg: cfg, Al: al}
	if cfg.FromRead > 0 {
		f := &refsmf.File{Format: uint16(cfg.Ctor), NTrks: uint16(cfg.FromRead), Division: Division(cfg.TF)}
		if f.Format == 0 && cfg.FromRead > 1 {
			f.Format = 1
		}
		for i := 0; i < cfg.FromRead; i++ {
			f.Tracks = append(f.Tracks, []refsmf.Event{{Delta: 0, Msg: []byte{0x95, byte(0x30 + i), 0x40}}, {Delta: 1, Msg: refsmf.EOT}})
		}
		s, err := smf.ReadFrom(bytes.NewReader(refsmf.Encode(f)))
		if err != nil {
			panic("smfspace: cannot read the seed file: " + err.Error())
		}
		s.NoRunningStatus = cfg.NoRS
		in.S = s
		in.M.Format = f.Format
		in.M.Tracks = f.Tracks
		return in
	}
	switch cfg.Ctor {
	case 0:
		in.S = smf.New()
	case 1:
		in.S = smf.NewSMF1()
	default:
		in.S = smf.NewSMF2()
	}
	in.S.NoRunningStatus = cfg.NoRS
	in.S.TimeFormat = cfg.TF
	in.M.Format = uint16(cfg.Ctor)
	return in
}

// Clone copies the pair. smf.SMF is a plain value type (the library itself
// passes it by value), so a struct copy plus fresh track slices is a faithful
// copy; message byte slices are shared (nothing mutates them).
func (in *Inst) Clone() *Inst {
	out := &Inst{Cfg: in.Cfg, Al: in.Al}
	s := *in.S
	s.Tracks = make([]smf.Track, len(in.S.Tracks))
	for i, t := range in.S.Tracks {
		s.Tracks[i] = append(smf.Track(nil), t...)
	}
	out.S = &s
	out.Cur = append(smf.Track(nil), in.Cur...)
	out.M = in.M
	out.M.Tracks = append([][]refsmf.Event(nil), in.M.Tracks...)
	out.M.Cur = append([]refsmf.Event(nil), in.M.Cur...)
	return out
}

// Apply executes one operation on both sides.
func (in *Inst) Apply(o Op) {
	switch o.Kind {
	case OpAdd:
		in.Cur.Add(o.D, cp(in.Al[o.M1].Bytes))
		if !closed(in.M.Cur) {
			in.M.Cur = append(in.M.Cur, refsmf.Event{Delta: o.D, Msg: in.Al[o.M1].Bytes})
			in.M.Events++
		}
	case OpAdd2:
		in.Cur.Add(o.D, cp(in.Al[o.M1].Bytes), cp(in.Al[o.M2].Bytes))
		if !closed(in.M.Cur) {
			in.M.Cur = append(in.M.Cur, refsmf.Event{Delta: o.D, Msg: in.Al[o.M1].Bytes},
				refsmf.Event{Delta: 0, Msg: in.Al[o.M2].Bytes})
			in.M.Events += 2
		}
	case OpClose:
		in.Cur.Close(o.D)
		if !closed(in.M.Cur) {
			in.M.Cur = append(in.M.Cur, refsmf.Event{Delta: o.D, Msg: refsmf.EOT})
		}
	case OpWrite:
		in.S.WriteTo(io.Discard) // fails without tracks; otherwise closes open tracks in place
		in.M.Writes++
		in.M.TracksAtLastWrite = len(in.M.Tracks)
		for i, t := range in.M.Tracks {
			if !closed(t) {
				in.M.Tracks[i] = append(append([]refsmf.Event(nil), t...), refsmf.Event{Delta: 0, Msg: refsmf.EOT})
			}
		}
	case OpSMFAdd, OpSMFAddKeep:
		in.S.Add(in.Cur) // returns an error for an open track but adds it anyway
		in.M.Tracks = append(in.M.Tracks, append([]refsmf.Event(nil), in.M.Cur...))
		if len(in.M.Tracks) > 1 && in.M.Format == 0 {
			in.M.Format = 1
		}
		if o.Kind == OpSMFAdd {
			in.Cur = nil
			in.M.Cur = nil
		}
	}
}

func cp(b []byte) []byte { return append([]byte(nil), b...) }

// Expected returns what a write followed by a read must give: open tracks are
// closed with delta 0, a second track promotes format 0 to 1.
func (m *Model) Expected(cfg Cfg) *refsmf.File {
	f := &refsmf.File{Format: m.Format, NTrks: uint16(len(m.Tracks)), Division: Division(cfg.TF)}
	if len(m.Tracks) > 1 && f.Format == 0 {
		f.Format = 1
	}
	for _, t := range m.Tracks {
		tt := append([]refsmf.Event(nil), t...)
		if !closed(tt) {
			tt = append(tt, refsmf.Event{Delta: 0, Msg: refsmf.EOT})
		}
		f.Tracks = append(f.Tracks, tt)
	}
	return f
}

// Observe converts the real value's public fields to the model's vocabulary.
func Observe(s *smf.SMF) (format uint16, tracks [][]refsmf.Event) {
	format = s.Format()
	for _, t := range s.Tracks {
		tracks = append(tracks, FromTrack(t))
	}
	return
}

func FromTrack(t smf.Track) []refsmf.Event {
	out := make([]refsmf.Event, 0, len(t))
	for _, e := range t {
		out = append(out, refsmf.Event{Delta: e.Delta, Msg: []byte(e.Message)})
	}
	return out
}

// Key renders a canonical state key from the model and the observed value; the
// two must agree (checked by the caller) for merging histories to be sound.
func (in *Inst) Key(withCap bool) string {
	b := make([]byte, 0, 256)
	b = append(b, 'F', byte(in.M.Format), 'W', byte(in.M.Writes), byte(len(in.M.Tracks)), '|')
	if in.M.Writes > 0 {
		// the library may remember things from an earlier write (private fields):
		// distinguish by how many tracks the file had at the last write
		b = append(b, 'w', byte(in.M.TracksAtLastWrite))
	}
	for _, t := range in.M.Tracks {
		b = writeTrack(b, t)
		b = append(b, '|')
	}
	b = append(b, "cur:"...)
	b = writeTrack(b, in.M.Cur)
	// observable implementation value
	b = append(b, '#', 'F', byte(in.S.Format()), '|')
	for _, t := range in.S.Tracks {
		b = writeLibTrack(b, t)
		b = append(b, '|')
	}
	b = append(b, "cur:"...)
	b = writeLibTrack(b, in.Cur)
	// aliasing between the track variable and tracks already in the file is
	// part of the state when the variable is kept
	if withCap {
		b = append(b, '#', byte(cap(in.Cur)-len(in.Cur)))
	}
	return string(b)
}

func writeTrack(b []byte, t []refsmf.Event) []byte {
	for _, e := range t {
		b = append(b, byte(e.Delta>>24), byte(e.Delta>>16), byte(e.Delta>>8), byte(e.Delta), byte(len(e.Msg)>>8), byte(len(e.Msg)))
		b = append(b, e.Msg...)
	}
	return b
}

func writeLibTrack(b []byte, t smf.Track) []byte {
	for _, e := range t {
		b = append(b, byte(e.Delta>>24), byte(e.Delta>>16), byte(e.Delta>>8), byte(e.Delta), byte(len(e.Message)>>8), byte(len(e.Message)))
		b = append(b, e.Message...)
	}
	return b
}

// AgreeWithModel compares the observable value with the model before writing.
func (in *Inst) AgreeWithModel() (bool, string) {
	f, tr := Observe(in.S)
	if f != in.M.Format {
		return false, "format"
	}
	if len(tr) != len(in.M.Tracks) {
		return false, "ntrks"
	}
	for i := range tr {
		if d := refsmf.FirstDiff(in.M.Tracks[i], tr[i]); d != "" {
			return false, d
		}
	}
	if d := refsmf.FirstDiff(in.M.Cur, FromTrack(in.Cur)); d != "" {
		return false, "cur-" + d
	}
	return true, ""
}

// CompareRead compares a value read back by the library with the expectation.
func CompareRead(exp *refsmf.File, got *smf.SMF) (bool, string) {
	if got.Format() != exp.Format {
		return false, "format"
	}
	if !sameTF(exp.Division, got.TimeFormat) {
		return false, "division"
	}
	if len(got.Tracks) != len(exp.Tracks) {
		return false, "ntrks"
	}
	for i := range exp.Tracks {
		if d := refsmf.FirstDiff(exp.Tracks[i], FromTrack(got.Tracks[i])); d != "" {
			return false, d
		}
	}
	return true, ""
}

func sameTF(div uint16, tf smf.TimeFormat) bool {
	if tf == nil {
		return false
	}
	return Division(tf) == div && (div&0x8000 != 0) == isTimeCode(tf)
}

func isTimeCode(tf smf.TimeFormat) bool {
	_, ok := tf.(smf.TimeCode)
	return ok
}

// CompareParsed compares a strict-parser result with the expectation.
func CompareParsed(exp, got *refsmf.File) (bool, string) {
	if got.Format != exp.Format {
		return false, "format"
	}
	if got.Division != exp.Division {
		return false, "division"
	}
	if len(got.Tracks) != len(exp.Tracks) {
		return false, "ntrks"
	}
	for i := range exp.Tracks {
		if d := refsmf.FirstDiff(exp.Tracks[i], got.Tracks[i]); d != "" {
			return false, d
		}
	}
	return true, ""
}

// DescribeOps renders a history.
func DescribeOps(ops []Op, al []Msg) []string {
	out := make([]string, len(ops))
	for i, o := range ops {
		out[i] = o.String(al)
	}
	return out
}

// HasRunningStatus tells whether the expected file contains two adjacent
// channel events with equal status (so that elision can happen).
func HasRunningStatus(f *refsmf.File) bool {
	for _, t := range f.Tracks {
		for i := 1; i < len(t); i++ {
			a, b := t[i-1].Msg, t[i].Msg
			if len(a) > 0 && len(b) > 0 && a[0] == b[0] && a[0] >= 0x80 && a[0] < 0xF0 {
				return true
			}
		}
	}
	return false
}

// BytesEqual is bytes.Equal (kept here so harnesses need one import less).
func BytesEqual(a, b []byte) bool { return bytes.Equal(a, b) }
