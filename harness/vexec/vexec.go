// Package vexec stands in for os/exec in the instrumented driver: the helper
// process is a scripted thread under the scheduler.
package vexec

import (
	"errors"
	"fmt"
	"io"
	"strings"
	"syscall"

	"gitlab.com/gomidi/midi/v2/internal/verifh/vsync"
)

// Script configures the stand-in helper for the scenario being explored.
type Script struct {
	FailStart   int              // the first FailStart Start calls fail
	InLines     []string         // lines the "in" helper writes, each when triggered
	Trigger     *vsync.Chan[int] // harness -> helper: write line i now
	Written     *vsync.Chan[int] // helper -> harness: line i was consumed (or the write failed: -1-i)
	OutReceived *[]string        // lines the "out" helper read from its stdin
	Starts      int
	Kills       int
	TwoPorts    bool // the helper reports two in and four out ports
}

// Current is the script of the execution in progress.
var Current *Script

var ErrStart = errors.New("vexec: helper cannot be started")

type Process struct {
	dead    bool
	cmd     *Cmd
	pending int // the helper's writes into the stdout pipe that are under way
}

func (p *Process) Kill() error {
	if vsync.E != nil {
		vsync.PointKill()
	}
	p.dead = true
	if Current != nil {
		Current.Kills++
	}
	return nil
}

// Wait is os/exec's Cmd.Wait for a helper that only ends when it is killed:
// it returns once the process is dead and the goroutine that copies its
// output into the Stdout writer has finished (which it cannot while a write
// into a pipe nobody reads is under way).
func (c *Cmd) Wait() error {
	p := c.Process
	if p == nil {
		return errors.New("vexec: Wait before Start")
	}
	vsync.Await("cmd.Wait", func() bool { return p.dead && p.pending == 0 })
	return errors.New("signal: killed")
}

type Cmd struct {
	Path        string
	Args        []string
	Stdout      io.Writer
	Stdin       io.Reader
	Stderr      io.Writer
	SysProcAttr *syscall.SysProcAttr
	Process     *Process
}

func Command(name string, args ...string) *Cmd {
	return &Cmd{Path: name, Args: append([]string{name}, args...)}
}

func (c *Cmd) String() string { return strings.Join(c.Args, " ") }

// Output serves the driver's discovery commands with canned answers.
func (c *Cmd) Output() ([]byte, error) {
	s := c.String()
	switch {
	case strings.Contains(s, "version"):
		return []byte("0.6.8"), nil
	case strings.Contains(s, "ins --json"):
		if Current != nil && Current.TwoPorts {
			return []byte(`{"0":"vin","1":"vin2"}`), nil
		}
		return []byte(`{"0":"vin"}`), nil
	case strings.Contains(s, "outs --json"):
		if Current != nil && Current.TwoPorts {
			return []byte(`{"0":"vout","1":"vout2","2":"vout3","3":"vout4"}`), nil
		}
		return []byte(`{"0":"vout"}`), nil
	}
	return nil, fmt.Errorf("vexec: unknown command %q", s)
}

func (c *Cmd) Run() error { return errors.New("vexec: Run not supported") }

// Start either fails (scripted) or spawns the helper thread.
func (c *Cmd) Start() error {
	sc := Current
	if sc == nil {
		return ErrStart
	}
	sc.Starts++
	if sc.Starts <= sc.FailStart {
		vsync.Event(fmt.Sprintf("helper-start-failed:%d", sc.Starts))
		return ErrStart
	}
	p := &Process{cmd: c}
	c.Process = p
	isIn := false
	for _, a := range c.Args {
		if a == "in" {
			isIn = true
		}
	}
	if isIn {
		out := c.Stdout
		vsync.Go(func() {
			for {
				i := sc.Trigger.Recv()
				if i < 0 || i >= len(sc.InLines) {
					return
				}
				if p.dead {
					sc.Written.Send(-1 - i)
					continue
				}
				p.pending++
				_, err := out.Write([]byte(sc.InLines[i]))
				p.pending--
				if err != nil {
					sc.Written.Send(-1 - i)
				} else {
					sc.Written.Send(i)
				}
			}
		})
	} else {
		in := c.Stdin
		vsync.Go(func() {
			var line []byte
			b := make([]byte, 4096)
			for {
				n, err := in.Read(b)
				if err != nil || p.dead {
					return
				}
				for _, c := range b[:n] {
					line = append(line, c)
					if c == '\n' {
						*sc.OutReceived = append(*sc.OutReceived, string(line))
						line = nil
					}
				}
			}
		})
	}
	return nil
}
