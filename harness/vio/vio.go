// Package vio stands in for package io in the instrumented driver: the
// interfaces are the real ones, io.Pipe is the scheduled pipe of vsync.
package vio

import (
	"io"

	"gitlab.com/gomidi/midi/v2/internal/verifh/vsync"
)

type (
	Reader      = io.Reader
	Writer      = io.Writer
	Closer      = io.Closer
	ReadCloser  = io.ReadCloser
	WriteCloser = io.WriteCloser
	PipeReader  = vsync.PipeReader
	PipeWriter  = vsync.PipeWriter
)

var (
	EOF              = io.EOF
	ErrClosedPipe    = io.ErrClosedPipe
	ErrUnexpectedEOF = io.ErrUnexpectedEOF
)

func Pipe() (*PipeReader, *PipeWriter) { return vsync.NewPipe() }

func ReadAll(r Reader) ([]byte, error)            { return io.ReadAll(r) }
func ReadFull(r Reader, b []byte) (int, error)    { return io.ReadFull(r, b) }
func Copy(dst Writer, src Reader) (int64, error)  { return io.Copy(dst, src) }
func WriteString(w Writer, s string) (int, error) { return io.WriteString(w, s) }
