// Package vruntime stands in for package runtime in the instrumented driver.
package vruntime

import "gitlab.com/gomidi/midi/v2/internal/verifh/vsync"

// Gosched yields to the scheduler.
func Gosched() { vsync.Yield() }
