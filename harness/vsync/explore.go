package vsync

import "fmt"

// Cache remembers visited states (by happens-before key) together with the
// smallest preemption count they were reached with.
type Cache struct {
	m      map[uint64]int
	Hits   int64
	States int64
}

func NewCache() *Cache { return &Cache{m: map[uint64]int{}} }

func (c *Cache) visit(k uint64, preempt int) bool {
	old, ok := c.m[k]
	if ok && old <= preempt {
		c.Hits++
		return false
	}
	c.m[k] = preempt
	if !ok {
		c.States++
	}
	return true
}

// Explorer enumerates the schedules of Body depth-first.
type Explorer struct {
	Body     func()
	Bound    int // preemption bound, -1 = unbounded
	UseCache bool
	MaxSteps int
	MaxExec  int64 // safety cap, 0 = none
	// OnExec is called for every execution (complete, cut, deadlocked ...).
	OnExec func(e *Exec)
	// Starts restricts the exploration to the subtrees below these prefixes
	// (sharding); nil = whole tree.
	Starts [][]int

	Cache      *Cache
	Executions int64
	Complete   int64
	Cut        int64
	Capped     bool
	HardError  string
	MaxDepth   int
}

func (x *Explorer) Run() {
	if x.UseCache && x.Cache == nil {
		x.Cache = NewCache()
	}
	if x.Starts == nil {
		x.explore(nil, 0)
		return
	}
	for _, s := range x.Starts {
		x.explore(s, len(s))
	}
}

func (x *Explorer) explore(prefix []int, from int) {
	if x.HardError != "" || x.Capped {
		return
	}
	if x.MaxExec > 0 && x.Executions >= x.MaxExec {
		x.Capped = true
		return
	}
	var cache *Cache
	if x.UseCache {
		cache = x.Cache
	}
	e := Run(Options{Prefix: prefix, Cache: cache, MaxSteps: x.MaxSteps, Bound: x.Bound}, x.Body)
	x.Executions++
	if e.Diverged != "" {
		x.HardError = e.Diverged
		return
	}
	if e.CutByCache {
		x.Cut++
	} else {
		x.Complete++
	}
	if len(e.Trace) > x.MaxDepth {
		x.MaxDepth = len(e.Trace)
	}
	if x.OnExec != nil {
		x.OnExec(e)
	}
	choices := e.Choices()
	pre := 0
	for i := 0; i < len(e.Trace); i++ {
		p := e.Trace[i]
		if i >= from {
			cost := pre
			if p.RunnerEnabled {
				cost++
			}
			if x.Bound < 0 || cost <= x.Bound {
				for alt := 1; alt < p.Enabled; alt++ {
					if alt == p.Chosen {
						continue
					}
					np := make([]int, i+1)
					copy(np, choices[:i])
					np[i] = alt
					x.explore(np, i+1)
				}
			}
		}
		if p.RunnerEnabled && p.Chosen > 0 {
			pre++
		}
	}
}

// ReplayTwice replays a schedule twice and checks that the observations agree.
func ReplayTwice(choices []int, body func(), maxSteps int) (a, b *Exec, same bool) {
	a = Run(Options{Prefix: choices, MaxSteps: maxSteps, Bound: -1}, body)
	b = Run(Options{Prefix: choices, MaxSteps: maxSteps, Bound: -1}, body)
	same = fmt.Sprint(a.Events, a.Deadlock, a.PanicVal, a.Choices()) == fmt.Sprint(b.Events, b.Deadlock, b.PanicVal, b.Choices())
	return
}
