package vsync

import (
	"fmt"
	"strings"
)

// PairResult is what one exploration of two concurrently running calls saw.
type PairResult struct {
	Executions int64
	Complete   int64
	Accesses   int    // access points (instrumented package-level state) in the first execution
	MaxPoints  int    // longest schedule
	Capped     bool   // MaxExec reached: not exhaustive within the bound
	HardError  string // replay divergence (nondeterminism the scheduler does not own)
	// first offending execution, if any
	Bad     bool
	What    string
	Choices []int
	RA, RB  string
}

// Concurrent2 runs a and b as two threads under the scheduler and explores
// every schedule with at most bound preemptions (switch points are the
// shim's visible operations and the Access points of instrumented packages).
// wantA/wantB are the results of the calls when run alone; any execution in
// which a thread panics, the threads deadlock, or a result differs is
// reported.
func Concurrent2(bound int, a, b func() string, wantA, wantB string, maxExec int64) PairResult {
	var ra, rb string
	body := func() {
		ra, rb = "<not finished>", "<not finished>"
		done := NewChan[int](2)
		GoNamed("A", func() { ra = a(); done.Send(1) })
		GoNamed("B", func() { rb = b(); done.Send(1) })
		done.Recv()
		done.Recv()
	}
	var r PairResult
	x := &Explorer{Body: body, Bound: bound, UseCache: true, MaxSteps: 20000, MaxExec: maxExec}
	first := true
	x.OnExec = func(e *Exec) {
		if first {
			r.Accesses = e.Accesses
			first = false
		}
		if r.Bad {
			return
		}
		what := ""
		switch {
		case e.PanicVal != "":
			what = "panic: " + e.PanicVal
		case e.Deadlock != "":
			what = "deadlock: " + e.Deadlock
		case e.HorizonHit:
			what = "does not terminate within the step horizon"
		case e.CutByCache:
			return
		case e.MainDone && (ra != wantA || rb != wantB):
			what = fmt.Sprintf("results differ from the calls run alone: A %s (alone %s), B %s (alone %s)", clip(ra), clip(wantA), clip(rb), clip(wantB))
		}
		if what != "" {
			r.Bad, r.What, r.Choices, r.RA, r.RB = true, what, e.Choices(), ra, rb
			x.Capped = true // stop: the first (fewest-deviation-first order) offending schedule is enough
			var acc []string
			for _, p := range e.Trace {
				if strings.Contains(p.Who, "access:") {
					acc = append(acc, p.Who)
				}
			}
			if len(acc) > 12 {
				acc = acc[:12]
			}
			r.What += " | schedule: " + strings.Join(acc, " ; ")
		}
	}
	x.Run()
	r.Executions, r.Complete, r.MaxPoints, r.Capped, r.HardError = x.Executions, x.Complete, x.MaxDepth, x.Capped && !r.Bad, x.HardError
	return r
}

func clip(s string) string {
	if len(s) > 120 {
		return s[:120] + "..."
	}
	return s
}
