package vsync

import (
	"errors"
	"io"
)

// Pipe state shared by the two ends (stand-in for io.Pipe): Write blocks until
// every byte was read or either end was closed; writers are serialised; Read
// blocks while no data is pending; reading bytes that are already pending is
// not a scheduling point; Close unblocks both sides.
type pipe struct {
	o       *obj
	data    []byte
	writing bool
	rclosed bool
	wclosed bool
}

var ErrClosedPipe = io.ErrClosedPipe

type PipeReader struct{ p *pipe }
type PipeWriter struct{ p *pipe }

func NewPipe() (*PipeReader, *PipeWriter) {
	p := &pipe{}
	if e := E; e != nil && !e.aborting {
		p.o = e.newObj("pipe")
	}
	return &PipeReader{p}, &PipeWriter{p}
}

func (p *pipe) object(e *Exec) *obj {
	if p.o == nil {
		p.o = e.newObj("pipe")
	}
	return p.o
}

func (r *PipeReader) Read(b []byte) (int, error) {
	p := r.p
	e := E
	if e == nil || e.aborting {
		return 0, io.EOF
	}
	if len(b) == 0 {
		return 0, nil
	}
	if len(p.data) == 0 || p.rclosed {
		e.point("pipe-read", func() bool { return len(p.data) > 0 || p.wclosed || p.rclosed })
	}
	if p.rclosed {
		e.touch(p.object(e), "read-closed", 0)
		return 0, ErrClosedPipe
	}
	if len(p.data) == 0 {
		e.touch(p.object(e), "read-eof", 0)
		return 0, io.EOF
	}
	n := copy(b, p.data)
	e.touch(p.object(e), "read", hashBytes(b[:n]))
	p.data = p.data[n:]
	if len(p.data) == 0 {
		p.data = nil
	}
	return n, nil
}

func (r *PipeReader) Close() error {
	p := r.p
	e := E
	if e == nil || e.aborting {
		p.rclosed = true
		return nil
	}
	e.point("pipe-close-read", func() bool { return true })
	p.rclosed = true
	e.touch(p.object(e), "close-read", 0)
	return nil
}

func (w *PipeWriter) Write(b []byte) (int, error) {
	p := w.p
	e := E
	if e == nil || e.aborting {
		return 0, ErrClosedPipe
	}
	e.point("pipe-write", func() bool { return !p.writing || p.rclosed || p.wclosed })
	if p.rclosed || p.wclosed {
		e.touch(p.object(e), "write-closed", 0)
		return 0, ErrClosedPipe
	}
	if len(b) == 0 {
		return 0, nil
	}
	p.writing = true
	p.data = append([]byte(nil), b...)
	e.touch(p.object(e), "write", hashBytes(b))
	e.point("pipe-write-wait", func() bool { return len(p.data) == 0 || p.rclosed || p.wclosed })
	rest := len(p.data)
	p.writing = false
	p.data = nil
	e.touch(p.object(e), "write-done", uint64(rest))
	if rest > 0 {
		return len(b) - rest, ErrClosedPipe
	}
	return len(b), nil
}

func (w *PipeWriter) Close() error {
	p := w.p
	e := E
	if e == nil || e.aborting {
		p.wclosed = true
		return nil
	}
	e.point("pipe-close-write", func() bool { return true })
	p.wclosed = true
	e.touch(p.object(e), "close-write", 0)
	return nil
}

var _ = errors.New
