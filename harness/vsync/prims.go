package vsync

import (
	"fmt"
)

// --- Mutex / RWMutex ---------------------------------------------------------

// RWMutex mirrors sync.RWMutex (writer preference: an announced writer blocks
// new readers). The zero value is ready to use.
type RWMutex struct {
	o        *obj
	writer   bool
	readers  int
	announce int // writers that have announced themselves and wait
}

func (m *RWMutex) obj(e *Exec) *obj {
	if m.o == nil {
		m.o = e.newObj("rwmutex")
	}
	return m.o
}

func (m *RWMutex) Lock() {
	e := E
	if e == nil || e.aborting {
		m.writer = true
		return
	}
	o := m.obj(e)
	// arrival: announce (new readers are held back from now on)
	e.point("Lock-announce", func() bool { return true })
	m.announce++
	e.touch(o, "announce", 0)
	e.point("Lock", func() bool { return !m.writer && m.readers == 0 })
	m.announce--
	m.writer = true
	e.touch(o, "lock", 0)
}

func (m *RWMutex) Unlock() {
	e := E
	if e == nil || e.aborting {
		m.writer = false
		return
	}
	o := m.obj(e)
	e.point("Unlock", func() bool { return true })
	if !m.writer {
		panic("vsync: Unlock of unlocked RWMutex")
	}
	m.writer = false
	e.touch(o, "unlock", 0)
}

func (m *RWMutex) RLock() {
	e := E
	if e == nil || e.aborting {
		m.readers++
		return
	}
	o := m.obj(e)
	e.point("RLock", func() bool { return !m.writer && m.announce == 0 })
	m.readers++
	e.touch(o, "rlock", 0)
}

func (m *RWMutex) RUnlock() {
	e := E
	if e == nil || e.aborting {
		m.readers--
		return
	}
	o := m.obj(e)
	e.point("RUnlock", func() bool { return true })
	if m.readers <= 0 {
		panic("vsync: RUnlock of unlocked RWMutex")
	}
	m.readers--
	e.touch(o, "runlock", 0)
}

// Mutex mirrors sync.Mutex.
type Mutex struct {
	o      *obj
	locked bool
}

func (m *Mutex) Lock() {
	e := E
	if e == nil || e.aborting {
		m.locked = true
		return
	}
	if m.o == nil {
		m.o = e.newObj("mutex")
	}
	e.point("Mutex.Lock", func() bool { return !m.locked })
	m.locked = true
	e.touch(m.o, "lock", 0)
}

func (m *Mutex) Unlock() {
	e := E
	if e == nil || e.aborting {
		m.locked = false
		return
	}
	if m.o == nil {
		m.o = e.newObj("mutex")
	}
	e.point("Mutex.Unlock", func() bool { return true })
	if !m.locked {
		panic("vsync: Unlock of unlocked Mutex")
	}
	m.locked = false
	e.touch(m.o, "unlock", 0)
}

// WaitGroup and Once: provided for completeness.
type WaitGroup struct {
	o *obj
	n int
}

func (w *WaitGroup) Add(d int) {
	e := E
	if e == nil || e.aborting {
		w.n += d
		return
	}
	if w.o == nil {
		w.o = e.newObj("waitgroup")
	}
	e.point("WaitGroup.Add", func() bool { return true })
	w.n += d
	e.touch(w.o, "add", uint64(d))
}
func (w *WaitGroup) Done() { w.Add(-1) }
func (w *WaitGroup) Wait() {
	e := E
	if e == nil || e.aborting {
		return
	}
	if w.o == nil {
		w.o = e.newObj("waitgroup")
	}
	e.point("WaitGroup.Wait", func() bool { return w.n <= 0 })
	e.touch(w.o, "wait", 0)
}

type Once struct {
	m    Mutex
	done bool
}

func (o *Once) Do(f func()) {
	o.m.Lock()
	defer o.m.Unlock()
	if !o.done {
		o.done = true
		f()
	}
}

// --- channels -----------------------------------------------------------------

// Chan mirrors a Go channel. A nil *Chan blocks forever, like a nil channel.
type Chan[T any] struct {
	o        *obj
	cap      int
	buf      []T
	recvWait int // receivers parked on an unbuffered channel
}

// NewChan is the stand-in for make(chan T, n).
func NewChan[T any](n int) *Chan[T] {
	c := &Chan[T]{cap: n}
	if e := E; e != nil && !e.aborting {
		c.o = e.newObj("chan")
	}
	return c
}

func (c *Chan[T]) object(e *Exec) *obj {
	if c.o == nil {
		c.o = e.newObj("chan")
	}
	return c.o
}

func (c *Chan[T]) canSend() bool {
	if c == nil {
		return false
	}
	if c.cap == 0 {
		return c.recvWait > 0 && len(c.buf) == 0
	}
	return len(c.buf) < c.cap
}

func (c *Chan[T]) canRecv() bool { return c != nil && len(c.buf) > 0 }

func valHash(v interface{}) uint64 { return hashStr(fmt.Sprint(v)) }

func (c *Chan[T]) Send(v T) {
	e := E
	if e == nil || e.aborting {
		if c != nil {
			c.buf = append(c.buf, v)
		}
		return
	}
	e.point("chan-send", c.canSend)
	c.buf = append(c.buf, v)
	e.touch(c.object(e), "send", valHash(v))
}

func (c *Chan[T]) Recv() T {
	var zero T
	e := E
	if e == nil || e.aborting {
		if c != nil && len(c.buf) > 0 {
			v := c.buf[0]
			c.buf = c.buf[1:]
			return v
		}
		return zero
	}
	if c != nil && c.cap == 0 {
		c.recvWait++
		e.epoch++
	}
	e.point("chan-recv", c.canRecv)
	if c.cap == 0 {
		c.recvWait--
	}
	v := c.buf[0]
	c.buf = c.buf[1:]
	e.touch(c.object(e), "recv", valHash(v))
	return v
}

// Len mirrors len(ch).
func (c *Chan[T]) Len() int {
	if c == nil {
		return 0
	}
	return len(c.buf)
}

// SelCase is one case of a select.
type SelCase struct {
	ready func() bool
	fire  func(e *Exec)
	unbuf func(d int)
}

// RecvCase is `case <-c:` (the value is discarded).
func RecvCase[T any](c *Chan[T]) SelCase {
	return SelCase{
		ready: c.canRecv,
		fire: func(e *Exec) {
			v := c.buf[0]
			c.buf = c.buf[1:]
			e.touch(c.object(e), "recv", valHash(v))
		},
		unbuf: func(d int) {
			if c != nil && c.cap == 0 {
				c.recvWait += d
			}
		},
	}
}

// SendCase is `case c <- v:`.
func SendCase[T any](c *Chan[T], v T) SelCase {
	return SelCase{
		ready: c.canSend,
		fire: func(e *Exec) {
			c.buf = append(c.buf, v)
			e.touch(c.object(e), "send", valHash(v))
		},
		unbuf: func(int) {},
	}
}

// Select is the stand-in for a select statement. With blocking=false (a
// default clause exists) it returns -1 when no case is ready. When several
// cases are ready the choice among them is a recorded scheduling decision.
func Select(blocking bool, cases ...SelCase) int {
	e := E
	if e == nil || e.aborting {
		for i, c := range cases {
			if c.ready() {
				return i
			}
		}
		return -1
	}
	for _, c := range cases {
		c.unbuf(+1)
	}
	anyReady := func() bool {
		for _, c := range cases {
			if c.ready() {
				return true
			}
		}
		return false
	}
	if blocking {
		e.point("select", anyReady)
	} else {
		e.point("select-default", func() bool { return true })
	}
	for _, c := range cases {
		c.unbuf(-1)
	}
	var ready []int
	for i, c := range cases {
		if c.ready() {
			ready = append(ready, i)
		}
	}
	if len(ready) == 0 {
		e.cur.hist = mix(e.cur.hist, hashStr("select-default-taken"))
		return -1
	}
	pick := ready[0]
	if len(ready) > 1 {
		pick = ready[e.dataChoice(len(ready))]
	}
	cases[pick].fire(e)
	e.cur.hist = mix(e.cur.hist, hashStr("select-case"), uint64(pick))
	return pick
}

// dataChoice records a choice among n alternatives that is not a thread
// switch (Go picks pseudo-randomly among ready select cases).
func (e *Exec) dataChoice(n int) int {
	idx := len(e.Trace)
	choice := 0
	if idx < len(e.prefix) {
		choice = e.prefix[idx]
		if choice >= n {
			e.Diverged = fmt.Sprintf("replay diverged at data choice %d: %d of %d", idx, choice, n)
			e.abort(e.cur)
		}
	}
	e.Trace = append(e.Trace, Point{Enabled: n, Chosen: choice, RunnerEnabled: false, Key: e.key(), Who: e.cur.name + ":select-among-ready"})
	return choice
}

// Pool stands in for sync.Pool: a last-in first-out free list that never
// drops anything (one of the behaviours sync.Pool may show, and the one under
// which an object that comes back unclean is seen again at once). Get and Put
// are scheduling points through the mutex.
type Pool struct {
	New   func() any
	m     Mutex
	items []any
}

func (p *Pool) Get() any {
	p.m.Lock()
	defer p.m.Unlock()
	if n := len(p.items); n > 0 {
		x := p.items[n-1]
		p.items = p.items[:n-1]
		return x
	}
	if p.New != nil {
		return p.New()
	}
	return nil
}

func (p *Pool) Put(x any) {
	if x == nil {
		return
	}
	p.m.Lock()
	p.items = append(p.items, x)
	p.m.Unlock()
}
