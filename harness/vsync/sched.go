// Package vsync is a cooperative scheduler plus drop-in stand-ins for the
// synchronisation constructs the process-backed driver uses (sync.Mutex,
// sync.RWMutex, channels, select, go). Threads are real goroutines, but only
// the one holding the baton runs; every visible operation is a scheduling
// point at which the explorer decides who goes next. A stateless depth-first
// explorer (explore.go) enumerates the schedules; states are cached by a
// happens-before hash so that schedules that are the same partial order are
// explored once.
package vsync

import (
	"fmt"
	"runtime"
	"sort"
	"strings"
	"sync"
)

type thread struct {
	id       int
	name     string
	wake     chan struct{}
	done     bool
	started  bool
	enabled  func() bool // predicate of the pending operation (nil while running)
	desc     string      // description of the pending operation
	hist     uint64
	yielded  bool
	yEpoch   uint64
	children int
	lazy     int
	isMain   bool
}

// Point is one scheduling decision.
type Point struct {
	Enabled       int    // number of enabled threads
	Chosen        int    // index chosen among them
	RunnerEnabled bool   // the thread that was running is among the enabled (choice > 0 preempts it)
	Key           uint64 // state key at this point
	Who           string // chosen thread and its operation (for traces)
}

// Exec is one execution under the scheduler.
type Exec struct {
	threads  []*thread
	cur      *thread
	prefix   []int
	Trace    []Point
	aborting bool
	epoch    uint64
	objs     []*obj
	named    map[string]*obj // package-level variables seen by Access
	Accesses int             // Access points executed
	Events   []string
	cache    *Cache
	bound    int // preemption bound (-1 none)
	preempt  int

	// result
	CutByCache bool
	Deadlock   string
	PanicVal   string
	PanicStack string
	HorizonHit bool
	Diverged   string
	MainDone   bool
	steps      int
	maxSteps   int
	wg         sync.WaitGroup
	finished   chan struct{}
	finishOnce sync.Once
	mu         sync.Mutex // protects nothing during normal running (baton); used in abort
}

// E is the execution in progress (nil outside Run). Shim operations outside
// any execution behave like non-blocking sequential code.
var E *Exec

type obj struct {
	hist uint64
	kind string
}

type abortSignal struct{}

func mix(xs ...uint64) uint64 {
	h := uint64(0x9E3779B97F4A7C15)
	for _, x := range xs {
		h ^= x + 0x9E3779B97F4A7C15 + (h << 6) + (h >> 2)
		h *= 0xBF58476D1CE4E5B9
		h ^= h >> 31
	}
	return h
}

func hashStr(s string) uint64 {
	h := uint64(14695981039346656037)
	for i := 0; i < len(s); i++ {
		h ^= uint64(s[i])
		h *= 1099511628211
	}
	return h
}

func hashBytes(b []byte) uint64 { return hashStr(string(b)) }

// newObj registers a shim object; its identity derives from its creator's history.
func (e *Exec) newObj(kind string) *obj {
	t := e.cur
	t.lazy++
	o := &obj{kind: kind, hist: mix(hashStr(kind), t.hist, uint64(t.lazy))}
	e.objs = append(e.objs, o)
	return o
}

// touch records that the running thread performed op on o (with a data word).
func (e *Exec) touch(o *obj, op string, data uint64) {
	t := e.cur
	h := mix(t.hist, o.hist, hashStr(op), data)
	t.hist = h
	o.hist = h
	e.epoch++
}

// Event records an observation of the harness or of a callback. It is a
// visible operation of its own (a scheduling point precedes it): what the user
// observes - a call-back being entered, a call having returned - can be
// separated from the synchronisation operation before it by any amount of
// other threads' progress.
func Event(s string) {
	e := E
	if e == nil || e.aborting {
		return
	}
	e.point("event:"+s, func() bool { return true })
	e.epoch++
	e.Events = append(e.Events, s)
	e.cur.hist = mix(e.cur.hist, hashStr(s), uint64(len(e.Events)))
}

// Access is the scheduling point the source instrumentation (rewrite globals)
// puts in front of every statement that mentions mutable package-level state;
// names is the comma-separated list of the variables. The statement that
// follows runs atomically; for the happens-before hash it is a conflicting
// operation on every one of the variables (reads are not told from writes).
func Access(names string) {
	e := E
	if e == nil || e.aborting {
		return
	}
	e.point("access:"+names, func() bool { return true })
	e.Accesses++
	if e.named == nil {
		e.named = map[string]*obj{}
	}
	for _, n := range strings.Split(names, ",") {
		o := e.named[n]
		if o == nil {
			o = &obj{kind: "var:" + n, hist: hashStr("var:" + n)}
			e.named[n] = o
			e.objs = append(e.objs, o)
		}
		e.touch(o, "access", 0)
	}
}

// key computes the state key at a scheduling point.
func (e *Exec) key() uint64 {
	var th []uint64
	for _, t := range e.threads {
		f := uint64(0)
		if t.done {
			f |= 1
		}
		if t.yielded {
			f |= 2
		}
		th = append(th, mix(t.hist, f, hashStr(t.desc)))
	}
	sort.Slice(th, func(a, b int) bool { return th[a] < th[b] })
	var ob []uint64
	for _, o := range e.objs {
		ob = append(ob, o.hist)
	}
	sort.Slice(ob, func(a, b int) bool { return ob[a] < ob[b] })
	return mix(mix(th...), mix(ob...), uint64(len(e.Events)))
}

// point is called by the running thread before a visible operation.
func (e *Exec) point(desc string, enabled func() bool) {
	if e.aborting {
		runtime.Goexit()
	}
	t := e.cur
	t.desc = desc
	t.enabled = enabled
	e.schedule(t)
	t.enabled = nil
	t.desc = ""
}

func (e *Exec) enabledList(self *thread) []*thread {
	var en, yl []*thread
	add := func(t *thread) {
		if t.done || t.enabled == nil {
			return
		}
		if t.yielded {
			if e.epoch != t.yEpoch {
				en = append(en, t)
			} else {
				yl = append(yl, t)
			}
			return
		}
		if t.enabled() {
			en = append(en, t)
		}
	}
	if self != nil && !self.done {
		add(self)
	}
	for _, t := range e.threads {
		if t != self {
			add(t)
		}
	}
	if len(en) == 0 {
		return yl // only yielders left: a yield returns eventually
	}
	return en
}

func (e *Exec) schedule(self *thread) {
	e.steps++
	if e.steps > e.maxSteps {
		e.HorizonHit = true
		e.abort(self)
		return
	}
	en := e.enabledList(self)
	if len(en) == 0 {
		if !e.MainDone {
			var b strings.Builder
			for _, t := range e.threads {
				if !t.done {
					fmt.Fprintf(&b, "[%s blocked in %s] ", t.name, t.desc)
				}
			}
			e.Deadlock = b.String()
		}
		e.abort(self)
		return
	}
	k := e.key()
	idx := len(e.Trace)
	choice := 0
	if idx < len(e.prefix) {
		choice = e.prefix[idx]
		if choice >= len(en) {
			e.Diverged = fmt.Sprintf("replay diverged at point %d: choice %d of %d enabled", idx, choice, len(en))
			e.abort(self)
			return
		}
	} else if e.cache != nil {
		if !e.cache.visit(k, e.preempt) {
			e.CutByCache = true
			e.abort(self)
			return
		}
	}
	runnerEnabled := self != nil && !self.done && len(en) > 0 && en[0] == self
	if runnerEnabled && choice > 0 {
		e.preempt++
	}
	next := en[choice]
	e.Trace = append(e.Trace, Point{Enabled: len(en), Chosen: choice, RunnerEnabled: runnerEnabled, Key: k, Who: next.name + ":" + next.desc})
	if next.yielded {
		next.yielded = false
	}
	if next == self {
		return
	}
	e.cur = next
	next.wake <- struct{}{}
	if self != nil && !self.done {
		<-self.wake
		if e.aborting {
			runtime.Goexit()
		}
		e.cur = self
	}
}

// abort ends the execution: every parked thread unwinds (Goexit runs the
// deferred calls of the code under test; shim operations are no-ops then).
func (e *Exec) abort(self *thread) {
	e.aborting = true
	e.finishOnce.Do(func() { close(e.finished) })
	for _, t := range e.threads {
		if t != self && !t.done && t.started {
			select {
			case t.wake <- struct{}{}:
			default:
			}
		}
	}
	if self != nil && !self.done {
		runtime.Goexit()
	}
}

func (e *Exec) spawn(name string, f func(), isMain bool) *thread {
	var parent *thread
	if !isMain {
		parent = e.cur
	}
	t := &thread{id: len(e.threads), name: name, wake: make(chan struct{}, 1), isMain: isMain}
	if parent != nil {
		parent.children++
		t.hist = mix(parent.hist, uint64(parent.children), hashStr("spawn"))
		parent.hist = mix(parent.hist, hashStr("go"), uint64(parent.children))
	} else {
		t.hist = hashStr("main")
	}
	t.desc = "start"
	t.enabled = func() bool { return true }
	t.started = true
	e.threads = append(e.threads, t)
	e.wg.Add(1)
	go func() {
		defer e.wg.Done()
		defer func() {
			if r := recover(); r != nil {
				if !e.aborting {
					buf := make([]byte, 8192)
					buf = buf[:runtime.Stack(buf, false)]
					e.PanicVal = fmt.Sprint(r)
					e.PanicStack = string(buf)
				}
				t.done = true
				e.abort(nil)
				return
			}
			// normal return or Goexit
			if e.aborting {
				t.done = true
				return
			}
			t.done = true
			t.enabled = nil
			if t.isMain {
				e.MainDone = true
				e.abort(nil)
				return
			}
			e.epoch++
			e.schedule(t)
		}()
		<-t.wake
		if e.aborting {
			return
		}
		e.cur = t
		t.enabled = nil
		t.desc = ""
		f()
	}()
	return t
}

// Go starts f as a new thread (stand-in for the go statement).
func Go(f func()) {
	e := E
	if e == nil {
		go f()
		return
	}
	if e.aborting {
		return
	}
	n := e.cur.children
	e.spawn(fmt.Sprintf("%s.%d", e.cur.name, n+1), f, false)
	e.epoch++
	e.point("after-go", func() bool { return true })
}

// GoNamed is Go with a readable thread name (harness side).
func GoNamed(name string, f func()) {
	e := E
	if e == nil || e.aborting {
		return
	}
	e.spawn(name, f, false)
	e.epoch++
	e.point("after-go", func() bool { return true })
}

// Yield is the stand-in for runtime.Gosched: the thread is not rescheduled
// until another thread has executed an operation (or nobody else can run).
func Yield() {
	e := E
	if e == nil || e.aborting {
		return
	}
	t := e.cur
	t.yielded = true
	t.yEpoch = e.epoch
	e.point("yield", func() bool { return true })
	t.yielded = false
}

// Options of one execution.
type Options struct {
	Prefix   []int
	Cache    *Cache
	MaxSteps int
	Bound    int // preemption bound, -1 = none
}

// Run executes body as the main thread under the scheduler.
func Run(o Options, body func()) *Exec {
	e := &Exec{prefix: o.Prefix, cache: o.Cache, maxSteps: o.MaxSteps, bound: o.Bound, finished: make(chan struct{})}
	if e.maxSteps == 0 {
		e.maxSteps = 5000
	}
	E = e
	t := e.spawn("main", body, true)
	// first decision: only main exists
	e.cur = t
	t.wake <- struct{}{}
	<-e.finished
	e.wg.Wait()
	E = nil
	return e
}

// Choices returns the choice sequence of the execution.
func (e *Exec) Choices() []int {
	c := make([]int, len(e.Trace))
	for i, p := range e.Trace {
		c[i] = p.Chosen
	}
	return c
}

// Describe renders the schedule.
func (e *Exec) Describe() []string {
	var out []string
	for i, p := range e.Trace {
		out = append(out, fmt.Sprintf("%d: %s (choice %d of %d)", i, p.Who, p.Chosen, p.Enabled))
	}
	return out
}

// Await blocks the running thread until pred holds (a scheduling point that
// is enabled only then). pred must depend on state that changes at other
// threads' visible operations only.
func Await(desc string, pred func() bool) {
	e := E
	if e == nil || e.aborting {
		return
	}
	e.point("await:"+desc, pred)
	e.cur.hist = mix(e.cur.hist, hashStr("await:"+desc))
	e.epoch++
}

// PointKill is the scheduling point of Process.Kill.
func PointKill() {
	e := E
	if e == nil || e.aborting {
		return
	}
	e.point("kill", func() bool { return true })
	e.cur.hist = mix(e.cur.hist, hashStr("kill"))
	e.epoch++
}
