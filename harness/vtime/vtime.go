// Package vtime stands in for package time in instrumented copies of
// repository files (import substitution only): same types and constants,
// but Now is a virtual clock and Sleep advances it without blocking.
package vtime

import (
	"sync/atomic"
	"time"
)

type (
	Time     = time.Time
	Duration = time.Duration
	Month    = time.Month
	Weekday  = time.Weekday
)

const (
	Nanosecond  = time.Nanosecond
	Microsecond = time.Microsecond
	Millisecond = time.Millisecond
	Second      = time.Second
	Minute      = time.Minute
	Hour        = time.Hour
)

var base = time.Unix(1_700_000_000, 0)
var offset atomic.Int64
var sleeps atomic.Int64

// Now returns the virtual instant.
func Now() Time { return base.Add(Duration(offset.Load())) }

// Sleep advances the virtual clock; it never blocks. Negative and zero
// durations return at once, like time.Sleep.
func Sleep(d Duration) {
	sleeps.Add(1)
	if d > 0 {
		offset.Add(int64(d))
	}
}

func Since(t Time) Duration { return Now().Sub(t) }
func Until(t Time) Duration { return t.Sub(Now()) }

// Elapsed is the virtual time since Reset.
func Elapsed() Duration { return Duration(offset.Load()) }

// Advance moves the clock (harness side).
func Advance(d Duration) { offset.Add(int64(d)) }

// Reset puts the clock back to the base instant.
func Reset() { offset.Store(0); sleeps.Store(0) }

// Sleeps is the number of Sleep calls since Reset.
func Sleeps() int64 { return sleeps.Load() }

func Unix(sec, nsec int64) Time { return time.Unix(sec, nsec) }
