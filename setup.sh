#!/bin/bash
# Run once after a fresh restore (offline): builds the rewriter, warms the Go
# build cache by building every harness against /repo's current tree.
set -u
cd "$(dirname "${BASH_SOURCE[0]}")"
export GOFLAGS=-mod=mod GOPROXY=off GOSUMDB=off GOTOOLCHAIN=local
mkdir -p .work/bin evidence replays
(cd tools/rewrite && go build -o ../../.work/bin/rewrite .) || { echo "setup: cannot build rewriter"; exit 1; }
rc=0
for d in harness/c[0-9][0-9]; do
  id="$(basename "$d" | tr 'a-z' 'A-Z')"
  VERIF_BUILD_ONLY=1 ./run "$id" quick >/dev/null 2>.work/setup-$id.log || { echo "setup: build of $id failed"; cat .work/setup-$id.log; rc=1; }
done
exit $rc
