#!/usr/bin/env python3
"""Runs the repository's own test suite (guard off: there are no hooks in /repo) and
compares with the 66 stable tests of /root/.vp/BASELINE.json."""
import json, subprocess, os, sys
env = dict(os.environ, GOFLAGS="-mod=mod", GOPROXY="off", GOSUMDB="off", GOTOOLCHAIN="local")
base = json.load(open("/root/.vp/BASELINE.json"))
want = set(base["stable_pass"])
p = subprocess.run(["go", "test", "-json", "-vet=off", "-count=1", "-timeout", "25m", "./..."], cwd="/repo/v2", env=env, capture_output=True, text=True)
got = {}
for ln in p.stdout.splitlines():
    try:
        e = json.loads(ln)
    except Exception:
        continue
    if e.get("Test") and e.get("Action") in ("pass", "fail"):
        got[e["Package"] + "::" + e["Test"]] = e["Action"]
passed = {k for k, v in got.items() if v == "pass"}
missing = sorted(want - passed)
print("baseline: %d/%d stable tests pass" % (len(want & passed), len(want)))
for m in missing:
    print("  NOT PASSING:", m, got.get(m, "absent"))
sys.exit(1 if missing else 0)
