#!/usr/bin/env python3
"""Writes /verif/MANIFEST.json from the table below (single source of truth)."""
import json, os

V = os.path.dirname(os.path.dirname(os.path.abspath(__file__)))
ALL = ["C%02d" % i for i in range(1, 21)]

CHECKS = {
 "C01": dict(level="model_checking", engine="bfs", design="4/C01",
   technique="explicit-state BFS over API operation histories executed on the real smf.SMF in lock-step with a reference model (state hashing), write+read-back invariant in every state; exhaustive scalar sweeps",
   text="Every history of New/NewSMF1/NewSMF2, Track.Add (single, multi), Track.Close (early/late/omitted), SMF.Add (fresh or re-used track variable) within the stated bounds (up to 3-6 events, 2-3 tracks, 4-14 message classes, 12 configurations) is executed on the real library; in each reached file value WriteTo then ReadFrom must reproduce format, division, track count and every (delta, bytes) pair. All 32767 metric resolutions, all 4x256 SMPTE divisions, all delta boundaries of the uint32 range and payload lengths across every VLQ width are swept completely.",
   note="Trusted: the harness's reference model of the construction API and the Go toolchain. Bounded: histories beyond the stated depth and message values outside the 14-class alphabet are not explored (one representative per class the code distinguishes)."),
 "C03": dict(level="model_checking", engine="bfs", design="4/C03",
   technique="explicit-state BFS over API histories (shared with C01); strict reference parser as invariant in every state; complete enumeration of all 2^28 VLQ values",
   text="In every file value reached by the bounded API-history search the bytes handed to the io.Writer must be accepted by an independent strict SMF 1.0 parser (header/ntrks, exact chunk lengths, single trailing end-of-track, canonical VLQs, legal running status, no trailing bytes) that recovers exactly the reference content; reported size equals bytes emitted; a second write is byte-identical. The VLQ encoder/decoder/reader are checked on all 2^28 legal values and on boundary and single-digit values of the rest of the 32-bit range.",
   note="Trusted: the strict parser in /verif/harness/refsmf (written from the specification, cross-checked against the tolerant decoder and the generator in C02). Bounded as C01."),
 "C16": dict(level="model_checking", engine="bfs", design="4/C16",
   technique="explicit-state BFS over single-track API histories, every reached value converted and compared with a split-by-channel oracle; enumeration of dense many-events-per-tick files",
   text="Every single-track file reachable with up to 3-8 events over 10 message classes (channels 0, 1, 15, meta, sysex, escape), deltas {0,1,100}, closed early/late/not at all, metric and SMPTE division, is converted with ConvertToSMF1; the result must keep the division, hold all non-channel messages on the first track and one track per used channel in ascending order, every message at its original absolute tick and in original relative order, nothing lost or duplicated, every track terminated exactly once, and must serialise to a strictly valid file. Dense files (1..120 events, 6 kind patterns x 5 tick patterns) force the sort to work.",
   note="Trusted: oracle in harness/c16. Bounded: message values outside the alphabet; more than 120 events on a tick."),
 "C02": dict(level="exploration", engine="enum", design="4/C02",
   technique="bounded exhaustive enumeration of all files of a byte-level SMF grammar generator, each decoded by the library and compared with the generator's abstract content (cross-checked by an independent decoder)",
   text="All files of the grammar generator within the bound: 30 event tokens (explicit and running-status channel events, meta of length 0/3/127/128/padded, unknown meta, tempo, sequence number, F0 with and without F7, F7 continuation and escapes, empty and 200-byte sysex) x 6 delta encodings (incl. non-minimal) in sequences up to depth 2-6 in a plain file, and depth 1-2 in every file shape (formats 0/1/2, 1-3 tracks, 16 metric/SMPTE divisions, alien chunks of 4 body kinds before/between/after tracks); boundary files with 32766..65535 tracks. The library must return the same header fields, track count and per track the same deltas and canonical messages.",
   note="Trusted: generator + tolerant decoder in /verif/harness (they must agree on every file, else exit 2). Bounded: token values (one representative per class), sequence depth; the reader's carried state is one status byte and two flags, which depth 3 covers."),
 "C05": dict(level="fault_enumeration", engine="enum", design="4/C05",
   technique="bounded exhaustive enumeration of malformed inputs (all short strings over a byte-class alphabet, all header field values, all single-byte substitutions) and of every truncation point of a generated file family, executed on the real reader with panic/termination/result-shape/allocation/prefix oracles",
   text="Every byte string of length <=5 (thorough 6) over a 16-byte alphabet as track body, every string of length <=4 over alphabet+chunk-magic letters as whole file and after a valid magic; all 65536 values of each header field; declared x actual track counts; explicit huge declared lengths in every length-carrying position; all 255 substitutions at every offset of ~45 representative valid files plus alphabet pairs on the five smallest; every truncation point of every file of a generated family (depth 1 in every shape, depth 2 in the plain file). Oracles: the call returns within a read budget, no panic, exactly one of value/error, allocation <= 64 KiB + 256 x len(input), accepted prefixes are event-for-event prefixes with the original header.",
   note="Trusted: tolerant reference decoder for the prefix oracle; runtime/metrics allocation counter (suspicious cases re-measured exactly). The random / coverage-guided part of the property's quantifier is sampling and is replaced by these exhaustive bounded spaces."),
 "C09": dict(level="fault_enumeration", engine="enum", design="4/C09",
   technique="exhaustive enumeration of read fragmentations (every single cut, every pair, triples on small files, 1/2/3 bytes per call, data+EOF) of every file of a family, differential against reading from memory",
   text="For ~190 valid files (every event token alone and in context, shaped files with alien chunks, payloads up to 200 bytes) and every truncation of the ten smallest: every single split point, every pair of split points (quick: files up to 120 bytes; thorough: all), every triple (files up to 36/60 bytes), one, two and three bytes per Read, each with and without the last fragment arriving together with io.EOF. The result (format, time format, tracks deep-equal, or kind of failure none/ErrMissing/other) must equal that of reading the same bytes from a bytes.Reader.",
   note="Trusted: fragmenting reader in harness/faultio (returns at least one byte or an error per call). The baseline is the library's own in-memory result (differential oracle); what that result must be is C02/C05's business."),
 "C10": dict(level="fault_enumeration", engine="enum", design="4/C10",
   technique="exhaustive fault injection at every byte offset of the output stream (short write+error, error per call) and of the input stream (sticky non-EOF error) for a family of files",
   text="For ~100 API-built values (every message class, 1-3 tracks, running status on/off, metric/SMPTE): the destination accepts exactly k bytes and then fails, for every k in 0..size+1, in two modes; WriteTo must return an error iff the fault fired, else nil with the exact size and bytes. On the written bytes and on generated byte-level files (running status, alien chunks, packets): a sticky non-EOF error from every offset on; whenever the error was handed to the library, ReadFrom must return an error; when it never fired the content must be intact.",
   note="Trusted: fault writer/reader in harness/faultio. Errors are injected alone (never together with data) and are sticky, as the quantifier says."),
 "C04": dict(level="model_checking", engine="bfs", design="4/C04",
   technique="explicit-state BFS on the product (decoder private state read by reflection x reference receiver x sender automaton) over sender-legal byte classes to the fixpoint, plus bounded exhaustive sender space (sequences x running-status elisions x real-time insertions x all partitions into Send calls x time deltas)",
   text="(a) every sender-legal byte stream of any length over 23 byte classes: the search over single-byte Sends reaches its fixpoint, every transition executed on the real ListenTo/testdrv loopback and compared with the reference receiver. (b) message sequences up to depth 4/5 over 18 messages with every legal running-status elision, bytewise and in one chunk; up to depth 3 every partition of the wire stream into Send calls; up to depth 2 additionally all time-delta assignments {0,1,5} ms, one real-time byte at every position x every partition, two real-time bytes at every pair of positions. Expected: each message once, complete, explicit status, in order of completion, stamped with the accumulated time of the completing chunk (sysex: between first and last byte).",
   note="Trusted: reference receiver/sender automata (DESIGN.md appendix A); reflection dump of the decoder state (over-fine keys cost time, never soundness). time.Now inside testdrv is replaced by a constant through import substitution (overlay), Driver.Sleep is the clock."),
 "C06": dict(level="model_checking", engine="bfs", design="4/C06",
   technique="explicit-state BFS on the product (decoder private state x reference MIDI 1.0 receiver) over all 23 byte classes, unrestricted, to the fixpoint; plus all short streams with all chunkings and garbage-prefix streams",
   text="Every byte stream of any length over 23 byte classes (two data values, every channel status kind, F0-F7 each, five real-time bytes) for sysex on/off and buffer sizes 3, 5, 8: the product search reaches its fixpoint; on every transition the deliveries must equal the reference receiver's (new status abandons an incomplete message, data without status ignored, undefined status skipped, oversized sysex dropped), every delivered message must be well formed, and nothing may panic. Plus all streams of length <=5/6 with all chunkings (<=4/5) and garbage prefixes of <=3 classes before well-formed messages.",
   note="Trusted: reference receiver. Delivery of the undefined real-time bytes F9/FD is not judged. A state cap turns a non-converging search into exhaustive:false, not an alarm."),
 "C07": dict(level="exploration", engine="enum", design="4/C07",
   technique="complete enumeration of the finite constructor argument domains against the MIDI 1.0 wire table, every accessor, and a loopback send",
   text="NoteOn/NoteOffVelocity/NoteOff/PolyAfterTouch/ControlChange over all in-range arguments plus out-of-range boundaries (thorough: all 256^3), ProgramChange/AfterTouch over all 256^2, Pitchbend over 18 (thorough 256) channel arguments x all 65536 values, all 65536 SPP, all 256 MTC/SongSelect, Tune: bytes equal the wire table on clamped arguments (out-of-range system common: well-formed only), no data byte above 127, matching accessor returns the clamped arguments, every other type-specific accessor rejects, and the message arrives byte-identical through the loopback.",
   note="Trusted: wire table in the harness (status nibble, 7-bit data, 14-bit LSB first)."),
 "C08": dict(level="exploration", engine="enum", design="4/C08",
   technique="complete enumeration of all byte strings of length 0..3 (and bounded longer ones) through every classification method and accessor",
   text="All 16,843,009 byte strings of length 0..3 as midi.Message and as smf.Message, all strings of length 4..6/7 over a 12-byte alphabet, FF x all 256 types x 9 length bytes x payload lengths 0..8, and the outputs of all meta constructors: Type/Is/IsOneOf/IsPlayable/String and every Get* return without panic; exactly one of channel / system common / real-time / sysex / unknown (/ meta) holds; at most one type-specific accessor accepts and then Type() is that accessor's type; leading FF is reset for midi.Message and never real-time or playable for smf.Message.",
   note="Non-nil out-parameters only. Strings whose meta length field declares 2^21 bytes or more are skipped in the long-string space (String() would allocate that much; memory is not this property's subject)."),
 "C13": dict(level="exploration", engine="enum", design="4/C13",
   technique="bounded exhaustive enumeration of live message sequences x inter-arrival times x tempi x resolutions through Track.RecordFrom / SMF.RecordFrom on the loopback, then write, strict parse and read back",
   text="Sequences up to depth 3/4 over 21 messages (all channel kinds, real-time, system common, sysex, active sensing, stray data, stray F7), every assignment of gaps {0,1,10,1000} ms, tempi {20,61.5,120,400} x resolutions {24,960,15360}: the track starts with the tempo, holds every channel message that arrives (per the reference receiver) unchanged and in order at ticks within one tick per stored delta of the exact conversion; the written file passes the strict parser and the library reads it back to the same events.",
   note="time.Sleep in smf.go and time.Now in testdrv are virtual (import substitution through the overlay). Whether non-channel messages are stored or dropped is not judged."),
 "C14": dict(level="model_checking", engine="bfs", design="4/C14",
   technique="explicit-state BFS on pairs (listener with all options, listener with the option combination) over sender-legal byte classes to the fixpoint, plus the bounded sender space, differential projection oracle",
   text="For each of the 8 combinations of the sysex / timing-clock / active-sense options: the pair search over single-byte Sends reaches its fixpoint (streams of every length); plus sequences up to depth 4/5 with elisions, bytewise and one chunk, every partition with time deltas and each real-time class at every position up to depth 2. The restricted listener must receive exactly what the full listener receives minus the disabled classes, with identical bytes, order and time stamps.",
   note="Differential oracle: the full listener is the reference (its own correctness is C04/C06)."),
 "C11": dict(level="exploration", engine="enum", design="4/C11",
   technique="bounded exhaustive enumeration of tempo maps and query ticks against an exact rational (math/big) integral of the tempo map",
   text="All tempo maps of 0..3 (thorough 4) tempo events over tick gaps {0,1,479,480,100000} x microseconds-per-quarter {0,1,250000,500000,500001,0xFFFFFF} for resolutions {1,24,96,480,960,32767}, written to a two-track file and read back; TimeAt at tick 0, every tempo tick +-2, 2^20 and 2^31-1 (100-day horizon) must be within one microsecond per crossed tempo segment of the exact integral and non-decreasing; TracksReader.Do must hand out exactly TimeAt(abs tick) with correct absolute ticks; Ticks(Duration(n)) == n for boundary n and all n in 0..200000 on four (resolution, tempo) pairs within the stated domain.",
   note="Trusted: exact integral in the harness. Fractional BPM continuum is covered on the grid induced by the 24-bit field values listed."),
 "C12": dict(level="exploration", engine="enum", design="4/C12",
   technique="bounded exhaustive enumeration of multi-track files x track selections x port maps, played on a virtual clock into recording fake ports, against a reference player",
   text="Files of 1..3 tracks with per-track event counts from {0,1,2,3,7,13,20}, five tick patterns (one tick, step, increasing, interleaved across tracks, later track earlier), with and without interspersed meta and tempo events; every subset of tracks as selection and all 3^(n+1) maps from {default, track 0..n-1} to {absent, A, B}. Each channel message of each selected, mapped track must be sent exactly once, on its mapped port, in file order within its track, merged across tracks by non-decreasing scheduled time, never before its scheduled time on the virtual clock; no meta event is ever sent.",
   note="time.Sleep in smf/track.go is virtual (import substitution through the overlay). Order among different tracks at equal times is not judged."),
 "C15": dict(level="exploration", engine="enum", design="4/C15",
   technique="complete / bounded enumeration of meta constructor arguments, each message checked for FF-type-VLQ-payload layout and inverted by its accessor",
   text="Nine text constructors and sequencer data over lengths 0..300, 16383, 16384, 20000 (thorough: every length 0..20000) x 4 content patterns; all 256 channels and ports; all 65536 sequence numbers; SMPTE offset fields; time signatures 256 numerators x 8 power-of-two denominators x clock values (thorough: all 255x255); every (0..7 accidentals, flat|sharp, major|minor) key against an independent circle of fifths; the 26 named key constructors; every 24-bit tempo value 1..0xFFFFFF.",
   note="Trusted: layout reference refsmf.Meta and the key table in the harness."),
 "C18": dict(level="exploration", engine="enum", design="4/C18",
   technique="bounded exhaustive enumeration of Roland-style sysex values and MMC values with build/parse inversion, checksum relation, and every single-byte corruption",
   text="Manufacturer, device and model ids 0..127; every address byte 0..127 (thorough: all 128^3 addresses); payload lengths 1..512 x 3 patterns; request sizes; data-set and data-request: Parse(SysEx()) returns the value, address+payload+checksum = 0 mod 128; for a representative subset every one of the 127 other 7-bit values at every address/payload/checksum position must make Parse fail. MMC locate over every field value (thorough: all 24x60x60x30x100 time codes) x device ids {0,1,127}; MMC commands 1..0x3F x devices 1..127 parse back.",
   note="Pure functions; no trusted base beyond the harness comparison code."),
 "C19": dict(level="exploration", engine="enum", design="4/C19",
   technique="bounded exhaustive enumeration of record sequences x stream fragmentations, and of every single-character mutation of valid lines classified by an independent line grammar",
   text="All 256 one-byte and 65536 two-byte messages, lengths 1..64, 255, 256, 1000, 2000 (thorough 1..2000) x 6 byte patterns x 5 time stamps over the int32 range, sequences of 2..3 records; decoded one record per call through readers with every single and every pair of split points and one byte per call. Every single-character deletion, substitution and insertion of {Z, g, space, newline, -} on 40 valid lines followed (or preceded) by a valid line: valid lines decode exactly, malformed ones yield an error, no panic, and no record is made up from neighbouring lines.",
   note="Grammar: -?[0-9]+ ' ' ([0-9A-F][0-9A-F])+ newline. Lower-case hex, garbage in the decimal field, empty message and extra spaces around the fields are 'don't care' (robustness only)."),
 "C20": dict(level="exploration", engine="enum", design="4/C20",
   technique="bounded exhaustive enumeration of songs (signatures per bar, event placements, resolutions) exported with ToSMF0/ToSMF1 against a bar model and the strict parser",
   text="Songs of 1..3 bars: each of the 119 signatures (numerators 1..24 over 1,2,4,8,16,32 whose bar fits in 255 thirty-seconds, plus 'inherit') in bars 1 and 2, a 12-signature subset (thorough: all) in bar 3, resolutions {8,96,960,32760}; event placements over tracks {0,1,7} x positions {0,1,last 32nd} x durations {0,1,to end of bar,across the bar line,to end of song}, notes and non-notes, singly, in pairs and a subset of triples over six signature sequences. Bars start where the previous one ends, events sit at bar start + position, note-offs after their duration, a time-signature event where the signature changes, all tracks end at the end of the last bar, SMF0 and SMF1 hold the same (tick, message) multiset, both pass the strict parser.",
   note="Order of simultaneous events is not judged (multisets per tick)."),
 "C17": dict(level="model_checking", engine="sched", design="4/C17",
   technique="(a) explicit-state BFS of life-cycle histories on the in-memory driver to the fixpoint; (b) stateless DFS over all thread interleavings of the process-backed driver under a hand-written cooperative scheduler with happens-before state caching (driver sources mechanically rewritten onto the shim at check time); (c) Go race detector on free-running executions as a complement",
   text="(a) every protocol-respecting history of open / listen (direct and through midi.ListenTo) / send (direct and through midi.SendTo) / stop / close on the in-memory driver: the search over 10 operations reaches its fixpoint; each call's result and every delivery is compared with the life-cycle model (exactly-once delivery to the active listener, dropped without failure otherwise, ErrPortClosed on a closed port, no call-back after stop, listening again works, open/close idempotent). (b) six scenario harnesses on midicatdrv (listen + two lines; stop racing with a line, listen again; helper cannot be started; idempotent open/close; out port with two concurrent senders; Driver.Close with an active listener): every interleaving of harness, reader goroutine, control goroutine and helper process (thorough: no preemption bound; quick: at most 2 preemptions), oracles: every call returns (no deadlock), at-most-once in-order delivery, no call-back after stop returned, lines written while listening are delivered, lines arrive intact at the helper. (c) the unmodified driver built with -race runs the protocol-respecting histories up to length 4/6 with two concurrent senders against a stand-in helper binary.",
   note="Trusted: the scheduler and shim (litmus programs run on every check: lost update, channel order/deadlock, RWMutex writer preference, pipe drain/close, select choice), the rewriter (fails loudly, exit 3, on constructs it cannot translate). Happens-before caching assumes shared data is only touched under the shim's synchronisation; the race pass checks exactly that assumption but samples schedules (exhaustive:false for that part). Reading bytes already pending in the pipe is not a scheduling point."),
}

NOT_YET = "check not built yet in this session (see DESIGN.md section 4 for the planned exploration)"

def main():
    checks = []
    for pid in ALL:
        c = CHECKS.get(pid)
        if not c:
            continue
        checks.append({
            "property_id": pid,
            "quick_cmd": "./run %s quick" % pid,
            "thorough_cmd": "./run %s thorough" % pid,
            "evidence_file": "/verif/evidence/%s.json" % pid,
            "replay_cmd_template": "./run %s quick --replay {path}" % pid,
            "engine": c["engine"],
            "level_claimed": {"category": c["level"], "text": c["text"], "design_ref": "DESIGN.md section " + c["design"]},
            "level_note": c["note"],
            "technique": c["technique"],
        })
    m = {
        "version": 1,
        "setup_cmd": "./setup.sh",
        "hooks": {
            "guard": "verif",
            "enable": "none needed: harness code and instrumented copies of repository files are injected with `go build -overlay` (generated at check time from /repo's current tree by /verif/tools/rewrite); /repo carries no hook code, the build tag is unused",
            "baseline_off_cmd": "cd /repo/v2 && GOFLAGS=-mod=mod GOPROXY=off GOSUMDB=off GOTOOLCHAIN=local go test -json -vet=off -count=1 -timeout 25m ./...",
            "source_commits": [],
            "add_only": True,
        },
        "engines": [
            {"name": "bfs", "path": "/verif/harness/engine/bfs.go", "serves_properties": ["C01", "C03", "C04", "C06", "C14", "C16", "C17"],
             "kind_free_text": "explicit-state breadth-first search over operation histories of the real objects, state hashing, replay-from-fresh-instance successors"},
            {"name": "enum", "path": "/verif/harness/engine/engine.go", "serves_properties": ["C02", "C05", "C07", "C08", "C09", "C10", "C11", "C12", "C13", "C15", "C18", "C19", "C20"],
             "kind_free_text": "bounded exhaustive enumeration of inputs / environment answers (fragmentations, truncations, fault offsets) sharded over worker processes, each case executed on the real code against a reference model"},
            {"name": "sched", "path": "/verif/harness/vsync", "serves_properties": ["C17"],
             "kind_free_text": "cooperative scheduler + stateless DFS with happens-before state caching over a source-to-source shim of sync/chan/go/os-exec/io.Pipe"},
        ],
        "checks": checks,
        "not_applicable": [{"property_id": p, "reason": NOT_YET} for p in ALL if p not in CHECKS],
        "notes": "All commands run with cwd=/verif. Exit 0 held / 1 violation / 2 harness vacuity guard / 3 tree does not build with the harness. Known findings: /verif/KNOWN_FINDINGS.txt.",
    }
    with open(os.path.join(V, "MANIFEST.json"), "w") as f:
        json.dump(m, f, indent=1)
        f.write("\n")

if __name__ == "__main__":
    main()
