package main

import (
	"go/ast"
	"go/token"
)

// rewriteConc is filled in by the C17 work (conc mode).
func rewriteConc(fset *token.FileSet, f *ast.File) {
	die("conc mode not built yet")
}
