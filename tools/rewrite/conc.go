package main

import (
	"fmt"
	"go/ast"
	"go/token"
	"reflect"
	"strconv"
)

// conc mode: mechanical translation of the language-level concurrency
// constructs into calls on the vsync shim (imported under the name "sync"):
//
//	go f(a, b)              ->  { t0 := a; t1 := b; sync.Go(func() { f(t0, t1) }) }
//	chan T, <-chan T, chan<- T  ->  *sync.Chan[T]
//	make(chan T, n)         ->  sync.NewChan[T](n)
//	c <- v                  ->  c.Send(v)
//	<-c                     ->  c.Recv()
//	select { case <-c: A; case d <- v: B; default: D }
//	                        ->  switch sync.Select(false, sync.RecvCase(c), sync.SendCase(d, v)) { case 0: A; case 1: B; default: D }
//	a default clause consisting solely of runtime.Gosched() (a polling loop)
//	                        ->  blocking select (first argument true), default dropped
//
// Anything else that touches channels (close, range, receive with assignment
// inside select) stops the rewriter with exit 3.

const syncName = "sync"

var tmpCounter int

func rewriteConc(fset *token.FileSet, f *ast.File) {
	f.Comments = nil
	f.Doc = nil
	ensureImport(f)
	walk(reflect.ValueOf(f))
}

func ensureImport(f *ast.File) {
	for _, im := range f.Imports {
		if im.Name != nil && im.Name.Name == syncName {
			return
		}
		p, _ := strconv.Unquote(im.Path.Value)
		if p == "sync" {
			die("file imports the real sync package; pass sync=<shim> as substitution")
		}
	}
	die("file does not import sync (needed for the shim); unsupported")
}

var (
	exprType = reflect.TypeOf((*ast.Expr)(nil)).Elem()
	stmtType = reflect.TypeOf((*ast.Stmt)(nil)).Elem()
	objType  = reflect.TypeOf((*ast.Object)(nil))
	scpType  = reflect.TypeOf((*ast.Scope)(nil))
)

// walk rewrites the tree below v in post-order.
func walk(v reflect.Value) {
	switch v.Kind() {
	case reflect.Ptr:
		if v.IsNil() || v.Type() == objType || v.Type() == scpType {
			return
		}
		walk(v.Elem())
	case reflect.Interface:
		if v.IsNil() {
			return
		}
		walk(v.Elem())
	case reflect.Slice:
		for i := 0; i < v.Len(); i++ {
			el := v.Index(i)
			walk(el)
			replace(el)
		}
	case reflect.Struct:
		for i := 0; i < v.NumField(); i++ {
			fl := v.Field(i)
			if !fl.CanSet() {
				continue
			}
			switch fl.Kind() {
			case reflect.Ptr, reflect.Interface, reflect.Slice:
				walk(fl)
				replace(fl)
			}
		}
	}
}

// replace substitutes the node held in the settable value v if it is one of
// the constructs to translate.
func replace(v reflect.Value) {
	if !v.CanSet() || v.Kind() != reflect.Interface || v.IsNil() {
		return
	}
	switch v.Type() {
	case exprType:
		if n := mapExpr(v.Interface().(ast.Expr)); n != nil {
			v.Set(reflect.ValueOf(n))
		}
	case stmtType:
		if n := mapStmt(v.Interface().(ast.Stmt)); n != nil {
			v.Set(reflect.ValueOf(n))
		}
	}
}

func sel(x, name string) ast.Expr {
	return &ast.SelectorExpr{X: ast.NewIdent(x), Sel: ast.NewIdent(name)}
}

func chanOf(elem ast.Expr) ast.Expr {
	return &ast.StarExpr{X: &ast.IndexExpr{X: sel(syncName, "Chan"), Index: elem}}
}

func mapExpr(e ast.Expr) ast.Expr {
	switch x := e.(type) {
	case *ast.ChanType:
		return chanOf(x.Value)
	case *ast.UnaryExpr:
		if x.Op == token.ARROW {
			return &ast.CallExpr{Fun: &ast.SelectorExpr{X: x.X, Sel: ast.NewIdent("Recv")}}
		}
	case *ast.CallExpr:
		if id, ok := x.Fun.(*ast.Ident); ok {
			switch id.Name {
			case "make":
				if len(x.Args) >= 1 {
					// the channel type has already been rewritten to *sync.Chan[T]
					if st, ok := x.Args[0].(*ast.StarExpr); ok {
						if ix, ok := st.X.(*ast.IndexExpr); ok && isSel(ix.X, syncName, "Chan") {
							var n ast.Expr = &ast.BasicLit{Kind: token.INT, Value: "0"}
							if len(x.Args) == 2 {
								n = x.Args[1]
							}
							return &ast.CallExpr{Fun: &ast.IndexExpr{X: sel(syncName, "NewChan"), Index: ix.Index}, Args: []ast.Expr{n}}
						}
					}
				}
			case "close":
				die("close(channel) is not supported by the shim")
			}
		}
	}
	return nil
}

func isSel(e ast.Expr, x, name string) bool {
	s, ok := e.(*ast.SelectorExpr)
	if !ok {
		return false
	}
	id, ok := s.X.(*ast.Ident)
	return ok && id.Name == x && s.Sel.Name == name
}

func isMethodCall(e ast.Expr, name string) (*ast.CallExpr, ast.Expr) {
	c, ok := e.(*ast.CallExpr)
	if !ok {
		return nil, nil
	}
	s, ok := c.Fun.(*ast.SelectorExpr)
	if !ok || s.Sel.Name != name {
		return nil, nil
	}
	return c, s.X
}

func mapStmt(s ast.Stmt) ast.Stmt {
	switch x := s.(type) {
	case *ast.SendStmt:
		return &ast.ExprStmt{X: &ast.CallExpr{Fun: &ast.SelectorExpr{X: x.Chan, Sel: ast.NewIdent("Send")}, Args: []ast.Expr{x.Value}}}
	case *ast.GoStmt:
		return goStmt(x)
	case *ast.SelectStmt:
		return selectStmt(x)
	case *ast.RangeStmt:
		// ranging over a channel cannot be recognised without types; the
		// rewritten file will not compile in that case (loud failure)
	}
	return nil
}

func goStmt(g *ast.GoStmt) ast.Stmt {
	call := g.Call
	if fl, ok := call.Fun.(*ast.FuncLit); ok && len(call.Args) == 0 && (fl.Type.Params == nil || len(fl.Type.Params.List) == 0) {
		return &ast.ExprStmt{X: &ast.CallExpr{Fun: sel(syncName, "Go"), Args: []ast.Expr{fl}}}
	}
	var stmts []ast.Stmt
	var args []ast.Expr
	for _, a := range call.Args {
		tmpCounter++
		name := fmt.Sprintf("verifGoArg%d", tmpCounter)
		stmts = append(stmts, &ast.AssignStmt{Lhs: []ast.Expr{ast.NewIdent(name)}, Tok: token.DEFINE, Rhs: []ast.Expr{a}})
		args = append(args, ast.NewIdent(name))
	}
	inner := &ast.CallExpr{Fun: call.Fun, Args: args, Ellipsis: call.Ellipsis}
	thunk := &ast.FuncLit{Type: &ast.FuncType{Params: &ast.FieldList{}}, Body: &ast.BlockStmt{List: []ast.Stmt{&ast.ExprStmt{X: inner}}}}
	stmts = append(stmts, &ast.ExprStmt{X: &ast.CallExpr{Fun: sel(syncName, "Go"), Args: []ast.Expr{thunk}}})
	return &ast.BlockStmt{List: stmts}
}

func selectStmt(s *ast.SelectStmt) ast.Stmt {
	blocking := true
	var cases []ast.Expr
	var clauses []ast.Stmt
	idx := 0
	for _, c := range s.Body.List {
		cc := c.(*ast.CommClause)
		if cc.Comm == nil {
			// default clause
			if isSpinDefault(cc.Body) {
				continue // polling loop: emitted as a blocking select
			}
			blocking = false
			clauses = append(clauses, &ast.CaseClause{List: nil, Body: cc.Body})
			continue
		}
		es, ok := cc.Comm.(*ast.ExprStmt)
		if !ok {
			die("select case with assignment is not supported by the shim")
		}
		if call, ch := isMethodCall(es.X, "Recv"); call != nil && len(call.Args) == 0 {
			cases = append(cases, &ast.CallExpr{Fun: sel(syncName, "RecvCase"), Args: []ast.Expr{ch}})
		} else if call, ch := isMethodCall(es.X, "Send"); call != nil && len(call.Args) == 1 {
			cases = append(cases, &ast.CallExpr{Fun: sel(syncName, "SendCase"), Args: []ast.Expr{ch, call.Args[0]}})
		} else {
			die("unsupported select case")
		}
		clauses = append(clauses, &ast.CaseClause{List: []ast.Expr{&ast.BasicLit{Kind: token.INT, Value: strconv.Itoa(idx)}}, Body: cc.Body})
		idx++
	}
	b := "false"
	if blocking {
		b = "true"
	}
	args := append([]ast.Expr{ast.NewIdent(b)}, cases...)
	return &ast.SwitchStmt{Tag: &ast.CallExpr{Fun: sel(syncName, "Select"), Args: args}, Body: &ast.BlockStmt{List: clauses}}
}

// isSpinDefault recognises `default: runtime.Gosched()`.
func isSpinDefault(body []ast.Stmt) bool {
	if len(body) != 1 {
		return false
	}
	es, ok := body[0].(*ast.ExprStmt)
	if !ok {
		return false
	}
	c, ok := es.X.(*ast.CallExpr)
	return ok && isSel(c.Fun, "runtime", "Gosched") && len(c.Args) == 0
}
