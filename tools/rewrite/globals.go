package main

import (
	"bytes"
	"fmt"
	"go/ast"
	"go/parser"
	"go/printer"
	"go/token"
	"os"
	"path/filepath"
	"sort"
	"strconv"
	"strings"
)

// globals mode: make accesses to package-level mutable state visible to the
// cooperative scheduler.
//
//	rewrite globals <package dir> <out prefix> <import path of the shim>
//
// All non-test files of the package are parsed together. A package-level
// variable is "suspect" when somewhere in the package it (or something
// reached through it) is assigned, incremented, has its address taken, is
// sliced, is the target of copy/append, is handed to a function as an
// argument, or has a method/func field called on it. Before every statement that mentions a suspect variable the call
//
//	verifvs.Access("<names>")
//
// is inserted: a scheduling point plus a conflicting operation on the named
// objects (happens-before hashing). Local variables assigned from an
// expression that mentions a suspect count as aliases of it, and so do the
// results of functions that return such an expression (by function name, to
// a fixpoint). A statement is the unit of atomicity.
// Files without insertions are not emitted. For every emitted file one line
// "<source path>\t<generated path>" is printed (for the build overlay).
func globalsMode(dir, outPrefix, shim string) {
	fset := token.NewFileSet()
	ents, err := os.ReadDir(dir)
	if err != nil {
		die("%v", err)
	}
	files := map[string]*ast.File{}
	var names []string
	for _, e := range ents {
		n := e.Name()
		if e.IsDir() || !strings.HasSuffix(n, ".go") || strings.HasSuffix(n, "_test.go") {
			continue
		}
		p := filepath.Join(dir, n)
		src, err := os.ReadFile(p)
		if err != nil {
			die("%v", err)
		}
		if excludedByBuildTag(src) {
			continue
		}
		f, err := parser.ParseFile(fset, p, src, parser.ParseComments)
		if err != nil {
			die("%v", err)
		}
		files[p] = f
		names = append(names, p)
	}
	sort.Strings(names)
	// resolve package-level identifiers across files (errors about imports are expected)
	ast.NewPackage(fset, files, nil, nil)

	pkgVars := map[*ast.Object]string{}
	for _, p := range names {
		for _, d := range files[p].Decls {
			gd, ok := d.(*ast.GenDecl)
			if !ok || gd.Tok != token.VAR {
				continue
			}
			for _, s := range gd.Specs {
				for _, id := range s.(*ast.ValueSpec).Names {
					if id.Name != "_" && id.Obj != nil {
						pkgVars[id.Obj] = id.Name
					}
				}
			}
		}
	}
	root := func(e ast.Expr) *ast.Object {
		for {
			switch x := e.(type) {
			case *ast.ParenExpr:
				e = x.X
			case *ast.IndexExpr:
				e = x.X
			case *ast.SelectorExpr:
				e = x.X
			case *ast.StarExpr:
				e = x.X
			case *ast.SliceExpr:
				e = x.X
			case *ast.Ident:
				if x.Obj != nil {
					if _, ok := pkgVars[x.Obj]; ok {
						return x.Obj
					}
				}
				return nil
			default:
				return nil
			}
		}
	}
	suspect := map[*ast.Object]bool{}
	mark := func(e ast.Expr) {
		if o := root(e); o != nil {
			suspect[o] = true
		}
	}
	for _, p := range names {
		ast.Inspect(files[p], func(n ast.Node) bool {
			switch x := n.(type) {
			case *ast.FuncDecl:
				if x.Name.Name == "init" && x.Recv == nil {
					return false // package initialisation is single-threaded and precedes every use
				}
			case *ast.AssignStmt:
				if x.Tok != token.DEFINE {
					for _, l := range x.Lhs {
						mark(l)
					}
				}
			case *ast.IncDecStmt:
				mark(x.X)
			case *ast.UnaryExpr:
				if x.Op == token.AND {
					mark(x.X)
				}
			case *ast.SliceExpr:
				mark(x.X)
			case *ast.RangeStmt:
				if x.Tok == token.ASSIGN {
					if x.Key != nil {
						mark(x.Key)
					}
					if x.Value != nil {
						mark(x.Value)
					}
				}
			case *ast.CallExpr:
				if id, ok := x.Fun.(*ast.Ident); ok && (id.Name == "copy" || id.Name == "append") && len(x.Args) > 0 {
					mark(x.Args[0])
				}
				if s, ok := x.Fun.(*ast.SelectorExpr); ok {
					mark(s.X)
				}
				// handed to a callee (which may write through a slice, map or pointer)
				if id, ok := x.Fun.(*ast.Ident); !ok || (id.Name != "len" && id.Name != "cap") {
					for _, a := range x.Args {
						mark(a)
					}
				}
			}
			return true
		})
	}
	if len(suspect) == 0 {
		return
	}

	// aliases: a local variable assigned from an expression that mentions a
	// suspect (b := scratch[:], p := &counter, m := table) may be another
	// name for the same memory; statements that mention such a local get a
	// point as well. Flow-insensitive, to a fixpoint, per file; over-tainting
	// only adds points.
	tainted := map[*ast.Object]map[string]bool{}
	// funcTaint: functions and methods (by name: there is no type information)
	// whose results may be another name for suspect memory (return scratch[:n]);
	// a call of such a function counts as a mention of that memory
	funcTaint := map[string]map[string]bool{}
	callee := func(c *ast.CallExpr) string {
		switch f := c.Fun.(type) {
		case *ast.Ident:
			return f.Name
		case *ast.SelectorExpr:
			return f.Sel.Name
		}
		return ""
	}
	mentions := func(n ast.Node) map[string]bool {
		out := map[string]bool{}
		ast.Inspect(n, func(m ast.Node) bool {
			if c, ok := m.(*ast.CallExpr); ok {
				for k := range funcTaint[callee(c)] {
					out[k] = true
				}
			}
			if id, ok := m.(*ast.Ident); ok && id.Obj != nil {
				if suspect[id.Obj] {
					out[pkgVars[id.Obj]] = true
				}
				for k := range tainted[id.Obj] {
					out[k] = true
				}
			}
			return true
		})
		return out
	}
	taint := func(lhs ast.Expr, src map[string]bool) bool {
		id, ok := lhs.(*ast.Ident)
		if !ok || id.Obj == nil || id.Name == "_" || len(src) == 0 {
			return false
		}
		if _, isPkg := pkgVars[id.Obj]; isPkg {
			return false
		}
		changed := false
		if tainted[id.Obj] == nil {
			tainted[id.Obj] = map[string]bool{}
		}
		for k := range src {
			if !tainted[id.Obj][k] {
				tainted[id.Obj][k] = true
				changed = true
			}
		}
		return changed
	}
	for round := 0; round < 6; round++ {
		changedAny := false
		for _, p := range names {
			for _, d := range files[p].Decls {
				fd, ok := d.(*ast.FuncDecl)
				if !ok || fd.Body == nil || fd.Type.Results == nil {
					continue
				}
				got := map[string]bool{}
				for _, fld := range fd.Type.Results.List {
					for _, id := range fld.Names { // named results (naked return)
						for k := range tainted[id.Obj] {
							got[k] = true
						}
					}
				}
				ast.Inspect(fd.Body, func(n ast.Node) bool {
					switch x := n.(type) {
					case *ast.FuncLit:
						return false
					case *ast.ReturnStmt:
						for _, r := range x.Results {
							for k := range mentions(r) {
								got[k] = true
							}
						}
					}
					return true
				})
				for k := range got {
					if funcTaint[fd.Name.Name] == nil {
						funcTaint[fd.Name.Name] = map[string]bool{}
					}
					if !funcTaint[fd.Name.Name][k] {
						funcTaint[fd.Name.Name][k] = true
						changedAny = true
					}
				}
			}
		}
		for _, p := range names {
			ast.Inspect(files[p], func(n ast.Node) bool {
				switch x := n.(type) {
				case *ast.AssignStmt:
					for i, l := range x.Lhs {
						var r ast.Node
						if len(x.Rhs) == len(x.Lhs) {
							r = x.Rhs[i]
						} else if len(x.Rhs) == 1 {
							r = x.Rhs[0]
						}
						if r != nil && taint(l, mentions(r)) {
							changedAny = true
						}
					}
				case *ast.ValueSpec:
					for i, id := range x.Names {
						if i < len(x.Values) && taint(id, mentions(x.Values[i])) {
							changedAny = true
						}
					}
				case *ast.RangeStmt:
					src := mentions(x.X)
					if x.Value != nil && taint(x.Value, src) {
						changedAny = true
					}
				}
				return true
			})
		}
		if !changedAny {
			break
		}
	}

	// refs: suspect variables (and their local aliases) mentioned by the
	// expressions of a node, not descending into function literals (their
	// bodies are handled on their own)
	var refs func(n ast.Node, into map[string]bool)
	refs = func(n ast.Node, into map[string]bool) {
		if n == nil {
			return
		}
		ast.Inspect(n, func(m ast.Node) bool {
			switch x := m.(type) {
			case *ast.FuncLit:
				return false
			case *ast.CallExpr:
				for k := range funcTaint[callee(x)] {
					into[k] = true
				}
			case *ast.Ident:
				if x.Obj != nil && suspect[x.Obj] {
					into[pkgVars[x.Obj]] = true
				}
				if x.Obj != nil {
					for k := range tainted[x.Obj] {
						into[k] = true
					}
				}
			}
			return true
		})
	}
	changed := map[string]bool{}
	hasAccess := map[string]bool{}
	usesShimOnly := map[string]bool{}
	cur := ""
	access := func(set map[string]bool) ast.Stmt {
		var l []string
		for k := range set {
			l = append(l, k)
		}
		sort.Strings(l)
		changed[cur] = true
		hasAccess[cur] = true
		return &ast.ExprStmt{X: &ast.CallExpr{Fun: sel("verifvs", "Access"), Args: []ast.Expr{&ast.BasicLit{Kind: token.STRING, Value: strconv.Quote(strings.Join(l, ","))}}}}
	}
	var doList func(list []ast.Stmt) []ast.Stmt
	var doStmt func(s ast.Stmt) (before map[string]bool)
	doBlock := func(b *ast.BlockStmt) {
		if b != nil {
			b.List = doList(b.List)
		}
	}
	// function literals anywhere inside expressions of s
	doLits := func(n ast.Node) {
		if n == nil {
			return
		}
		ast.Inspect(n, func(m ast.Node) bool {
			if fl, ok := m.(*ast.FuncLit); ok {
				doBlock(fl.Body)
				return false
			}
			return true
		})
	}
	doStmt = func(s ast.Stmt) map[string]bool {
		set := map[string]bool{}
		switch x := s.(type) {
		case *ast.LabeledStmt:
			return doStmt(x.Stmt)
		case *ast.BlockStmt:
			doBlock(x)
		case *ast.IfStmt:
			for c := ast.Stmt(x); c != nil; {
				i, ok := c.(*ast.IfStmt)
				if !ok {
					if b, ok := c.(*ast.BlockStmt); ok {
						doBlock(b)
					}
					break
				}
				refs(i.Init, set)
				refs(i.Cond, set)
				doLits(i.Init)
				doLits(i.Cond)
				doBlock(i.Body)
				c = i.Else
			}
		case *ast.ForStmt:
			refs(x.Init, set)
			refs(x.Cond, set)
			doLits(x.Init)
			doLits(x.Cond)
			doLits(x.Post)
			loop := map[string]bool{}
			refs(x.Cond, loop)
			refs(x.Post, loop)
			doBlock(x.Body)
			if len(loop) > 0 {
				x.Body.List = append([]ast.Stmt{access(loop)}, x.Body.List...)
			}
		case *ast.RangeStmt:
			refs(x.X, set)
			doLits(x.X)
			doBlock(x.Body)
		case *ast.SwitchStmt:
			refs(x.Init, set)
			refs(x.Tag, set)
			doLits(x.Init)
			doLits(x.Tag)
			for _, c := range x.Body.List {
				cc := c.(*ast.CaseClause)
				for _, e := range cc.List {
					refs(e, set)
					doLits(e)
				}
				cc.Body = doList(cc.Body)
			}
		case *ast.TypeSwitchStmt:
			refs(x.Init, set)
			refs(x.Assign, set)
			for _, c := range x.Body.List {
				cc := c.(*ast.CaseClause)
				cc.Body = doList(cc.Body)
			}
		case *ast.SelectStmt:
			for _, c := range x.Body.List {
				cc := c.(*ast.CommClause)
				cc.Body = doList(cc.Body)
			}
		default:
			refs(s, set)
			doLits(s)
		}
		return set
	}
	doList = func(list []ast.Stmt) []ast.Stmt {
		var out []ast.Stmt
		for _, s := range list {
			set := doStmt(s)
			if len(set) > 0 {
				out = append(out, access(set))
			}
			out = append(out, s)
		}
		return out
	}
	for _, p := range names {
		cur = p
		f := files[p]
		for _, d := range f.Decls {
			switch x := d.(type) {
			case *ast.FuncDecl:
				if x.Name.Name == "init" && x.Recv == nil {
					continue // package initialisation is single-threaded
				}
				doBlock(x.Body)
			case *ast.GenDecl:
				// function literals in package-level initialisers
				for _, s := range x.Specs {
					if vs, ok := s.(*ast.ValueSpec); ok {
						for _, v := range vs.Values {
							doLits(v)
						}
					}
				}
			}
		}
	}
	var vars []string
	for o := range suspect {
		vars = append(vars, pkgVars[o])
	}
	sort.Strings(vars)
	fmt.Fprintf(os.Stderr, "rewrite globals %s: suspect package-level variables: %s\n", dir, strings.Join(vars, " "))
	// a file that uses the real sync package would block a cooperative thread
	// for good (the holder of a lock may be suspended at an access point): the
	// import is redirected to the shim, whose Mutex/RWMutex/WaitGroup/Once are
	// scheduling points. Anything the shim lacks fails to compile (exit 3).
	for _, p := range names {
		for _, im := range files[p].Imports {
			if path, _ := strconv.Unquote(im.Path.Value); path == "sync" {
				if im.Name == nil {
					im.Name = ast.NewIdent("sync")
				}
				im.Path.Value = strconv.Quote(shim)
				changed[p] = true
				usesShimOnly[p] = true
			}
		}
	}
	for _, p := range names {
		if !changed[p] {
			continue
		}
		f := files[p]
		if hasAccess[p] {
			addImport(f, "verifvs", shim)
		}
		var buf bytes.Buffer
		cfg := printer.Config{Mode: printer.UseSpaces | printer.TabIndent, Tabwidth: 8}
		f.Comments = keepDirectives(f)
		if err := cfg.Fprint(&buf, fset, f); err != nil {
			die("%v", err)
		}
		out := outPrefix + filepath.Base(p)
		if err := os.WriteFile(out, buf.Bytes(), 0o644); err != nil {
			die("%v", err)
		}
		fmt.Printf("%s\t%s\n", p, out)
	}
}

// keepDirectives drops ordinary comments (inserted statements have no
// positions, free-floating comments could land anywhere) but keeps the
// comment groups in front of the package clause (build constraints).
func keepDirectives(f *ast.File) []*ast.CommentGroup {
	var out []*ast.CommentGroup
	for _, g := range f.Comments {
		if g.End() < f.Package {
			out = append(out, g)
		}
	}
	f.Doc = nil
	for _, d := range f.Decls {
		switch x := d.(type) {
		case *ast.FuncDecl:
			x.Doc = nil
		case *ast.GenDecl:
			x.Doc = nil
			for _, s := range x.Specs {
				switch y := s.(type) {
				case *ast.ValueSpec:
					y.Doc, y.Comment = nil, nil
				case *ast.TypeSpec:
					y.Doc, y.Comment = nil, nil
				case *ast.ImportSpec:
					y.Doc, y.Comment = nil, nil
				}
			}
		}
	}
	return out
}

func addImport(f *ast.File, name, path string) {
	spec := &ast.ImportSpec{Name: ast.NewIdent(name), Path: &ast.BasicLit{Kind: token.STRING, Value: strconv.Quote(path)}}
	decl := &ast.GenDecl{Tok: token.IMPORT, Specs: []ast.Spec{spec}}
	f.Decls = append([]ast.Decl{decl}, f.Decls...)
	f.Imports = append(f.Imports, spec)
}

func excludedByBuildTag(src []byte) bool {
	for _, ln := range strings.Split(string(src), "\n") {
		t := strings.TrimSpace(ln)
		if strings.HasPrefix(t, "package ") {
			return false
		}
		if strings.HasPrefix(t, "//go:build") || strings.HasPrefix(t, "// +build") {
			c := t
			if strings.Contains(c, "ignore") || (strings.Contains(c, "js") && !strings.Contains(c, "!js")) || strings.Contains(c, "windows") && !strings.Contains(c, "!windows") {
				return true
			}
		}
	}
	return false
}
