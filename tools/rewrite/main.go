// rewrite: mechanical source-to-source instrumentation of repository files,
// generated at check time from the file's *current* contents.
//
//	rewrite imports <in.go> <out.go> old=new [old=new ...]
//	    only the import paths change (identifiers keep compiling because the
//	    replacement package re-exports the same names).
//	rewrite conc <in.go> <out.go> old=new [...]
//	    import substitution plus translation of go statements, channel types,
//	    make(chan), send, receive and select into calls on the vsync shim
//	    (see conc.go).
//
//	rewrite globals <package dir> <out prefix> <shim import path>
//	    scheduling points in front of every statement that touches mutable
//	    package-level state (see globals.go).
//
// Exit 3 ("cannot instrument") on any construct it does not understand.
package main

import (
	"bytes"
	"fmt"
	"go/ast"
	"go/parser"
	"go/printer"
	"go/token"
	"os"
	"strconv"
	"strings"
)

func die(format string, a ...interface{}) {
	fmt.Fprintf(os.Stderr, "rewrite: cannot instrument: "+format+"\n", a...)
	os.Exit(3)
}

func main() {
	if len(os.Args) < 4 {
		die("usage: rewrite imports|conc in out [old=new...]")
	}
	mode, in, out := os.Args[1], os.Args[2], os.Args[3]
	if mode == "globals" {
		if len(os.Args) != 5 {
			die("usage: rewrite globals <package dir> <out prefix> <shim import path>")
		}
		globalsMode(in, out, os.Args[4])
		return
	}
	subst := map[string]string{}
	for _, a := range os.Args[4:] {
		kv := strings.SplitN(a, "=", 2)
		if len(kv) != 2 {
			die("bad substitution %q", a)
		}
		subst[kv[0]] = kv[1]
	}
	fset := token.NewFileSet()
	f, err := parser.ParseFile(fset, in, nil, parser.ParseComments)
	if err != nil {
		die("%v", err)
	}
	for _, im := range f.Imports {
		p, _ := strconv.Unquote(im.Path.Value)
		if np, ok := subst[p]; ok {
			if im.Name == nil {
				// keep the identifier the file uses
				base := p[strings.LastIndex(p, "/")+1:]
				im.Name = ast.NewIdent(base)
			}
			im.Path.Value = strconv.Quote(np)
		}
	}
	switch mode {
	case "imports":
	case "conc":
		rewriteConc(fset, f)
	default:
		die("unknown mode %q", mode)
	}
	var buf bytes.Buffer
	cfg := printer.Config{Mode: printer.UseSpaces | printer.TabIndent, Tabwidth: 8}
	if err := cfg.Fprint(&buf, fset, f); err != nil {
		die("%v", err)
	}
	if err := os.WriteFile(out, buf.Bytes(), 0o644); err != nil {
		die("%v", err)
	}
}
