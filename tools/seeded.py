#!/usr/bin/env python3
"""Generates /verif/seeded/README.md from the meta.json of every kept seeded change."""
import json, glob, os
V = os.path.dirname(os.path.dirname(os.path.abspath(__file__)))
STRENGTHENED = {
 "C03-1": "missed at first (the search never wrote a value twice with a change in between): plans 'write-in-history' and 'from-read-then-extend' added to C01/C03 (WriteTo as an operation of the history; histories starting from a value obtained by ReadFrom)",
 "C10-2": "missed at first (no track body above 4096 bytes): three large values added to C10 (5000-byte sysex, 1500 small events, large first track), fault at every offset",
 "C12-1": "missed at first (no gaps below 1 ms between merged events): tick pattern 'adjacent-ticks' at 960 ticks per quarter added to C12",
 "C13-2": "missed at first (longest pause 1 s): pauses of 5 and 83 minutes x all tempi x resolutions added to C13 (restricted to deltas the format can hold)",
 "C14-1": "not a violation of C14 as scoped (manifests only on streams a well-behaved sender never produces: running status after a sysex); reported by C06, whose domain is every byte stream",
 "C17-1": "missed at first (a call-back was atomic with the synchronisation operation before it): vsync.Event is now a scheduling point of its own",
 "C18-1": "missed at first (one message in flight at a time): build/parse of a second message between building and re-checking the first added to C18; result-stability (aliasing) checks also added to C03 (VLQ), C07 and C15",
 "C20-2": "missed at first (position + duration never exceeded 255): signature sequence 7/1,7/1 with position 100 and durations 200/255 added to C20",
 "C02-1b": "missed at first (no payload above 4096 bytes in C02): long-payload sweep (4095..20000 bytes, followed by further events) added",
 "C02-2b": "missed at first (sources were always bytes.Reader): every file is now also read through a plain reader, an io.SectionReader (seeker without ReadByte), a small bufio.Reader, and shaped files through an os.File",
 "C03-1b": "missed at first (no write after a failed write): C10 now writes the value to a healthy destination after every faulted write and compares with the reference bytes; reported by C10",
 "C03-2b": "missed at first (C03 had no payload-length sweep): scalar sweeps (resolutions, SMPTE, deltas, payload lengths 0..300 and around every block/VLQ boundary) are now shared by C01 and C03",
 "C04-1b": "missed at first (no empty Send calls): 'empty-chunks' partitions (nil / zero-length Send with a time delta between all bytes) added to C04",
 "C04-2b": "second use of the same port with other listen options: reported by C14 (re-listen space) and C17 (life-cycle search with sysex listeners)",
 "C05-1b": "missed at first (overstated lengths always had short payloads): declared-length cases now also carry 4095..9000 bytes of payload",
 "C06-1b": "missed at first (buffer sizes 3, 5, 8 only): sweep over buffer sizes 2..260, 511..4096 and default x sysex lengths around every boundary added to C06",
 "C06-2b": "missed at first (product search was bytewise): second product search whose operations are chunks of one, two and three bytes (833 operations) to the fixpoint",
 "C07-1b": "missed at first (accessors always got non-nil pointers): every nil/non-nil combination of out-parameters added to C07",
 "C07-2b": "manifests only under concurrent construction (sequential results identical): reported by the race pass of C17, which now listens on two in ports through midi.ListenTo while two senders run",
 "C08-1b": "missed at first (length fields of at most 4 bytes): meta messages with up to 12 continuation bytes added to C08 (patterns chosen so that a 32-bit decoder sees a small length)",
 "C09-2b": "missed at first (no payload above 4096 bytes in C09): long payloads and per-call sizes 7,100,101,1000,4095,4096,4097 added",
 "C10-1b": "missed at first (only sticky failures): transient failures (exactly one Write call rejected or cut short) added to C10",
 "C11-2b": "missed at first (tempo track held tempo events only): two more track styles (filler event carries the gap and the tempo has delta 0; gap split between filler and tempo)",
 "C12-1b": "missed at first (Only() never used): Only(ControlChangeMsg) with interleaved program changes that carry deltas added to C12",
 "C12-2b": "missed at first (a reader was played once, Send took no time): second playback on the same reader into a port whose Send takes 60 ms of virtual time",
 "C13-1b": "missed at first (undefined bytes not in the alphabet): FD, F9, F4 and FF added to C13's alphabet",
 "C14-1b": "missed at first (fresh driver per option set): re-listen space (first listener with options X, stop, second listener with options Y on the same port, all 64 pairs) added to C14",
 "C14-2b": "not in C14's domain (a sysex interrupted by a status byte is not sender-legal); reported by C06",
 "C15-2b": "missed at first (fresh destination per call): accessor calls with a re-used destination (long, short, medium ...) added to C15",
 "C16-1b": "missed at first (at most 120 events): dense files of 128..600 events on adjacent channels added to C16",
 "C16-2b": "missed at first (each value converted once): C16 now checks that the source is unchanged by the conversion and that a second conversion gives the same result",
 "C17-1b": "missed at first (all listeners used the same configuration): life-cycle search now has listeners with and without sysex and a sysex message",
 "C17-2b": "missed at first (senders were joined before Close): scenario S7, a sender overlapping with Close of the out port",
 "C19-2b": "manifests only with two streams decoded concurrently: reported by the race pass of C17 (two in ports listening at once)",
 "C20-1b": "missed at first (songs of at most 3 bars): songs of 300..5500 bars (more than 65535 thirty-seconds) added to C20",
 "C20-2b": "missed at first (songs were always built with AddBar): songs exported, imported with FromSMF, edited through their public fields and exported again are now compared with the bar model read off the edited song",
}
rows = []
for d in sorted(glob.glob(V + "/seeded/*/meta.json")):
    m = json.load(open(d))
    sid = os.path.basename(os.path.dirname(d))
    need = ""
    notes = os.path.join(os.path.dirname(d), "notes.md")
    if os.path.exists(notes):
        txt = open(notes).read()
        need = " ".join(txt.split())[:420]
    sigs = []
    for c, v in m.get("checks_run", {}).items():
        if v["exit"] == 1:
            sigs.append("%s: %s" % (c, ", ".join(v["signatures"][:3]) + (" ..." if len(v["signatures"]) > 3 else "")))
    rows.append((sid, m["property"], ", ".join(m.get("caught_by", [])) or "NOT CAUGHT", "; ".join(sigs), need, STRENGTHENED.get(sid, "")))
with open(V + "/seeded/README.md", "w") as f:
    f.write("# Seeded property-breaking changes\n\n")
    f.write("Each directory holds `patch.diff` (applies to /repo's HEAD with `git apply`), `demo_test.go` (fails with the change, passes without; its first line says where it goes), `notes.md` (the author's description) and `meta.json` (what was confirmed, which checks were run with which result). The changes were written by sub-agents that saw only the property text and a scratch worktree of the repository; each was confirmed (compiles, the repository's own tests pass, demo fails with / passes without) before it was kept. To re-run: `python3 tools/seedtest.py seeded/<id>/patch.diff --checks <ID>` (applies the patch to /repo, runs the checks, reverts).\n\n")
    f.write("| change | property | reported by | signatures (quick tier) | notes |\n|---|---|---|---|---|\n")
    for sid, prop, caught, sigs, need, st in rows:
        f.write("| %s | %s | %s | %s | %s |\n" % (sid, prop, caught, sigs.replace("|", "/"), st))
    f.write("\n## What each change is and what it needs in order to manifest\n\n")
    for sid, prop, caught, sigs, need, st in rows:
        f.write("* **%s** — %s\n" % (sid, need))
    n = len(rows)
    c = sum(1 for r in rows if r[2] != "NOT CAUGHT")
    f.write("\n%d of %d kept changes are reported by at least one check.\n" % (c, n))
print("rows", len(rows))
