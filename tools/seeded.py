#!/usr/bin/env python3
"""Generates /verif/seeded/README.md from the meta.json of every kept seeded change."""
import json, glob, os
V = os.path.dirname(os.path.dirname(os.path.abspath(__file__)))
STRENGTHENED = {
 "C03-1": "missed at first (the search never wrote a value twice with a change in between): plans 'write-in-history' and 'from-read-then-extend' added to C01/C03 (WriteTo as an operation of the history; histories starting from a value obtained by ReadFrom)",
 "C10-2": "missed at first (no track body above 4096 bytes): three large values added to C10 (5000-byte sysex, 1500 small events, large first track), fault at every offset",
 "C12-1": "missed at first (no gaps below 1 ms between merged events): tick pattern 'adjacent-ticks' at 960 ticks per quarter added to C12",
 "C13-2": "missed at first (longest pause 1 s): pauses of 5 and 83 minutes x all tempi x resolutions added to C13 (restricted to deltas the format can hold)",
 "C14-1": "not a violation of C14 as scoped (manifests only on streams a well-behaved sender never produces: running status after a sysex); reported by C06, whose domain is every byte stream",
 "C17-1": "missed at first (a call-back was atomic with the synchronisation operation before it): vsync.Event is now a scheduling point of its own",
 "C18-1": "missed at first (one message in flight at a time): build/parse of a second message between building and re-checking the first added to C18; result-stability (aliasing) checks also added to C03 (VLQ), C07 and C15",
 "C20-2": "missed at first (position + duration never exceeded 255): signature sequence 7/1,7/1 with position 100 and durations 200/255 added to C20",
}
rows = []
for d in sorted(glob.glob(V + "/seeded/*/meta.json")):
    m = json.load(open(d))
    sid = os.path.basename(os.path.dirname(d))
    need = ""
    notes = os.path.join(os.path.dirname(d), "notes.md")
    if os.path.exists(notes):
        txt = open(notes).read()
        need = " ".join(txt.split())[:420]
    sigs = []
    for c, v in m.get("checks_run", {}).items():
        if v["exit"] == 1:
            sigs.append("%s: %s" % (c, ", ".join(v["signatures"][:3]) + (" ..." if len(v["signatures"]) > 3 else "")))
    rows.append((sid, m["property"], ", ".join(m.get("caught_by", [])) or "NOT CAUGHT", "; ".join(sigs), need, STRENGTHENED.get(sid, "")))
with open(V + "/seeded/README.md", "w") as f:
    f.write("# Seeded property-breaking changes\n\n")
    f.write("Each directory holds `patch.diff` (applies to /repo's HEAD with `git apply`), `demo_test.go` (fails with the change, passes without; its first line says where it goes), `notes.md` (the author's description) and `meta.json` (what was confirmed, which checks were run with which result). The changes were written by sub-agents that saw only the property text and a scratch worktree of the repository; each was confirmed (compiles, the repository's own tests pass, demo fails with / passes without) before it was kept. To re-run: `python3 tools/seedtest.py seeded/<id>/patch.diff --checks <ID>` (applies the patch to /repo, runs the checks, reverts).\n\n")
    f.write("| change | property | reported by | signatures (quick tier) | notes |\n|---|---|---|---|---|\n")
    for sid, prop, caught, sigs, need, st in rows:
        f.write("| %s | %s | %s | %s | %s |\n" % (sid, prop, caught, sigs.replace("|", "/"), st))
    f.write("\n## What each change is and what it needs in order to manifest\n\n")
    for sid, prop, caught, sigs, need, st in rows:
        f.write("* **%s** — %s\n" % (sid, need))
    n = len(rows)
    c = sum(1 for r in rows if r[2] != "NOT CAUGHT")
    f.write("\n%d of %d kept changes are reported by at least one check.\n" % (c, n))
print("rows", len(rows))
