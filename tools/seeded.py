#!/usr/bin/env python3
"""Generates /verif/seeded/README.md from the meta.json of every kept seeded change."""
import json, glob, os
V = os.path.dirname(os.path.dirname(os.path.abspath(__file__)))
STRENGTHENED = {
 "C03-1": "missed at first (the search never wrote a value twice with a change in between): plans 'write-in-history' and 'from-read-then-extend' added to C01/C03 (WriteTo as an operation of the history; histories starting from a value obtained by ReadFrom)",
 "C10-2": "missed at first (no track body above 4096 bytes): three large values added to C10 (5000-byte sysex, 1500 small events, large first track), fault at every offset",
 "C12-1": "missed at first (no gaps below 1 ms between merged events): tick pattern 'adjacent-ticks' at 960 ticks per quarter added to C12",
 "C13-2": "missed at first (longest pause 1 s): pauses of 5 and 83 minutes x all tempi x resolutions added to C13 (restricted to deltas the format can hold)",
 "C14-1": "not a violation of C14 as scoped (manifests only on streams a well-behaved sender never produces: running status after a sysex); reported by C06, whose domain is every byte stream",
 "C17-1": "missed at first (a call-back was atomic with the synchronisation operation before it): vsync.Event is now a scheduling point of its own",
 "C18-1": "missed at first (one message in flight at a time): build/parse of a second message between building and re-checking the first added to C18; result-stability (aliasing) checks also added to C03 (VLQ), C07 and C15",
 "C20-2": "missed at first (position + duration never exceeded 255): signature sequence 7/1,7/1 with position 100 and durations 200/255 added to C20",
 "C02-1b": "missed at first (no payload above 4096 bytes in C02): long-payload sweep (4095..20000 bytes, followed by further events) added",
 "C02-2b": "missed at first (sources were always bytes.Reader): every file is now also read through a plain reader, an io.SectionReader (seeker without ReadByte), a small bufio.Reader, and shaped files through an os.File",
 "C03-1b": "missed at first (no write after a failed write): C10 now writes the value to a healthy destination after every faulted write and compares with the reference bytes; reported by C10",
 "C03-2b": "missed at first (C03 had no payload-length sweep): scalar sweeps (resolutions, SMPTE, deltas, payload lengths 0..300 and around every block/VLQ boundary) are now shared by C01 and C03",
 "C04-1b": "missed at first (no empty Send calls): 'empty-chunks' partitions (nil / zero-length Send with a time delta between all bytes) added to C04",
 "C04-2b": "second use of the same port with other listen options: reported by C14 (re-listen space) and C17 (life-cycle search with sysex listeners)",
 "C05-1b": "missed at first (overstated lengths always had short payloads): declared-length cases now also carry 4095..9000 bytes of payload",
 "C06-1b": "missed at first (buffer sizes 3, 5, 8 only): sweep over buffer sizes 2..260, 511..4096 and default x sysex lengths around every boundary added to C06",
 "C06-2b": "missed at first (product search was bytewise): second product search whose operations are chunks of one, two and three bytes (833 operations) to the fixpoint",
 "C07-1b": "missed at first (accessors always got non-nil pointers): every nil/non-nil combination of out-parameters added to C07",
 "C07-2b": "manifests only under concurrent construction (sequential results identical): reported by the race pass of C17, which now listens on two in ports through midi.ListenTo while two senders run",
 "C08-1b": "missed at first (length fields of at most 4 bytes): meta messages with up to 12 continuation bytes added to C08 (patterns chosen so that a 32-bit decoder sees a small length)",
 "C09-2b": "missed at first (no payload above 4096 bytes in C09): long payloads and per-call sizes 7,100,101,1000,4095,4096,4097 added",
 "C10-1b": "missed at first (only sticky failures): transient failures (exactly one Write call rejected or cut short) added to C10",
 "C11-2b": "missed at first (tempo track held tempo events only): two more track styles (filler event carries the gap and the tempo has delta 0; gap split between filler and tempo)",
 "C12-1b": "missed at first (Only() never used): Only(ControlChangeMsg) with interleaved program changes that carry deltas added to C12",
 "C12-2b": "missed at first (a reader was played once, Send took no time): second playback on the same reader into a port whose Send takes 60 ms of virtual time",
 "C13-1b": "missed at first (undefined bytes not in the alphabet): FD, F9, F4 and FF added to C13's alphabet",
 "C14-1b": "missed at first (fresh driver per option set): re-listen space (first listener with options X, stop, second listener with options Y on the same port, all 64 pairs) added to C14",
 "C14-2b": "not in C14's domain (a sysex interrupted by a status byte is not sender-legal); reported by C06",
 "C15-2b": "missed at first (fresh destination per call): accessor calls with a re-used destination (long, short, medium ...) added to C15",
 "C16-1b": "missed at first (at most 120 events): dense files of 128..600 events on adjacent channels added to C16",
 "C16-2b": "missed at first (each value converted once): C16 now checks that the source is unchanged by the conversion and that a second conversion gives the same result",
 "C17-1b": "missed at first (all listeners used the same configuration): life-cycle search now has listeners with and without sysex and a sysex message",
 "C17-2b": "missed at first (senders were joined before Close): scenario S7, a sender overlapping with Close of the out port",
 "C19-2b": "manifests only with two streams decoded concurrently: reported by the race pass of C17 (two in ports listening at once)",
 "C20-1b": "missed at first (songs of at most 3 bars): songs of 300..5500 bars (more than 65535 thirty-seconds) added to C20",
 "C20-2b": "missed at first (songs were always built with AddBar): songs exported, imported with FromSMF, edited through their public fields and exported again are now compared with the bar model read off the edited song",
 "C02-1c": "manifests only when two files are decoded concurrently (a one-byte buffer hoisted to package scope): missed at first; C02 now decodes two files in two threads that are switched inside their Read calls, every schedule with at most two switches (I/O-seam interleaving)",
 "C02-2c": "NOT caught: only smf.ReadFile on a path whose Stat().Size() differs from its content (named pipe, /proc-like file) is affected; C02 observes smf.ReadFrom and reads through six kinds of io.Reader, but not through ReadFile on a FIFO",
 "C03-1c": "missed at first (WriteFile never exercised): C03 now writes a value with WriteFile to a path that already holds a longer or shorter file and compares the file with WriteTo's bytes",
 "C03-2c": "missed at first (payload contents were arbitrary bytes): 'lookalike' alphabet added to C01/C03 (payloads that end in or consist of FF 2F 00, look like a chunk header or start with a status byte)",
 "C04-1c": "missed at first (time deltas 0, 1, 5 ms only): every pause length 0..6000 ms plus minute/hour/day boundaries added to C04",
 "C04-2c": "the order in which listen options are passed: all live checks now pass the options in both orders; reported by C06 (a sysex above the configured size is delivered)",
 "C05-1c": "missed at first (at most a few unknown chunks): C05 reads inputs of 400000 unknown chunks / 800000 events / 65535 tracks with the goroutine stack limited to 16 MiB, so recursion that grows with the input is a fatal error of the worker (fatal:deep-inputs:stack-overflow)",
 "C06-1c": "missed at first (buffer sizes only ever grew within a process): the size sweep now runs ascending and then descending",
 "C06-2c": "missed at first (options always passed in one order): both orders now; reported by C06",
 "C07-1c": "a buffer shared between deliveries: reported by C13 (recorded messages alias each other) and, after the loopback wrapper started to keep the very slices it is handed, by C04",
 "C08-2c": "missed at first (payload contents were arbitrary bytes): every value of the first two payload bytes of every text-carrying meta type (payload lengths 2..5) added to C08",
 "C09-1c": "missed at first (header length always 6): inputs with a header chunk of 7..10 bytes added to C09",
 "C09-2c": "missed at first: inputs that declare one track more than present and end in each of 16 byte classes added to C09",
 "C10-2c": "missed at first (header counts always matched): files whose header declares 0 tracks or one too many added to C10's source faults",
 "C11-1c": "missed at first (Do was only used unfiltered): Only(NoteOn)-filtered iteration over a track with a delta-0 note-on after a filtered-out event added to C11",
 "C12-1c": "a stale tempo for several tempo changes on one tick: reported by C11",
 "C12-2c": "missed at first: byte-identical messages doubled on a tick and Only with two types added to C12",
 "C13-1c": "missed at first (one recording at a time): two overlapping SMF.RecordFrom recordings from two ports into one file added to C13",
 "C13-2c": "an empty delivery loses its time delta: reported by C04 (empty-chunks partitions)",
 "C15-1c": "missed at first (no valid multi-byte UTF-8 in the contents): a UTF-8 content pattern (2-, 3- and 4-byte runes) added to C15",
 "C15-2c": "missed at first: an empty text read into a destination that holds an earlier result added to C15's re-use sequence",
 "C16-1c": "a delta clamp in Track.Add: reported by C01 (delta sweep beyond 2^28)",
 "C16-2c": "NOT caught: needs a hand-built meta message FF 2F with a payload in mid-track; explicit end-of-track-typed messages passed to Add are outside the domain of C01/C03/C16 (DESIGN.md, C01 domain decisions), and whether such a message is itself an end-of-track is debatable (the author says so too)",
 "C17-1c": "missed at first: scenario S8 (the out helper cannot be started while another thread sends on the closed port)",
 "C17-2c": "missed at first: scenario S9 (a stop function called again after the port was closed and re-opened)",
 "C18-1c": "missed at first: C18 now scribbles over a parsed value and then builds and parses the same message again",
 "C18-2c": "missed at first (fresh receiver per message): one GoTo receiver parsed into for every ordered pair of device ids",
 "C19-1c": "missed at first (no buffered readers): bufio.Reader of 16, 64, 256 and 4096 bytes added to C19's reader kinds",
 "C19-2c": "two concurrent Sends sharing a scratch buffer under a read lock: reported by C17 (scenario S5 and the race pass)",
 "C20-1c": "missed at first (no track names): track names that coincide with names the export uses itself ('bars', 'track-0') added to C20",
 "C20-2c": "missed at first (channel always equal to track): the same voice (channel, key) doubled on two tracks and ending on the same tick added to C20",
 # round 4
 "C02-2d": "missed at first (unknown chunk types far from 'MTrk'): shapes whose unknown chunk type differs from MTrk / MThd in exactly one position or only in case added to C02",
 "C05-1d": "missed at first in C05 (reported by C02's two readers): two proper prefixes read by two threads switched inside Read calls, all schedules with at most two switches, added to C05; the read families of C01/C02 also run as two threads with switch points at every access to package-level state",
 "C05-2d": "missed at first (sources never answered (0, nil)): prefixes are now read through four kinds of source (memory, one byte per call, zero-byte reads, last bytes with EOF) in C05; zero-byte reads at every offset in C09 (which found a genuine defect in ReadVarLength, fixed in /repo 7d63c58)",
 "C06-2d": "missed at first (no reader decoded more than a few hundred messages): four streams of 30000 messages on one reader added to C06; the product searches got a transition cap (a change that makes the decoder's state unbounded no longer costs hours)",
 "C07-1d": "missed at first (loopback with default options only): one message of every constructor under every option set x sysex buffer sizes 0,1,2,3,4,64 added to C07",
 "C08-1d": "missed at first (IsOneOf was only called): IsOneOf must agree with Is for every category, for all categories together, for the own type and for no argument, in both message flavours",
 "C09-1d": "missed at first (no variable-length quantity above four bytes): five- and six-byte quantities as delta, meta length and sysex length added to C09",
 "C09-2d": "missed at first (truncated inputs came from the ten smallest files only): every truncation of every single-event file (sysex packets, escapes, long texts) added to C09",
 "C10-1d": "missed at first (WriteFile only onto healthy paths): WriteFile onto /dev/full (through a symbolic link), into a missing directory and onto a directory, for eight file sizes, added to C10",
 "C10-2d": "missed at first (no bytes after the end-of-track inside a chunk): padded last/earlier track, unknown chunk and garbage after the last track added to C10's read-fault inputs",
 "C11-1d": "missed at first (six tempo values): every 61st (thorough: every) 24-bit tempo value as two events with neighbouring values, queried a thousand quarter notes later",
 "C11-2d": "missed at first (six tempo values): every 61st (thorough: every) 24-bit tempo value as a single event queried at 3000 quarter notes, 2^20 and 2^31-1 ticks",
 "C12-1d": "missed at first (the schedule was the library's own TimeAt, and there were always two tempo changes): C12 now integrates the tempo events found by the reference parser itself, and plays files with a single tempo change after the start (faster / slower than the default)",
 "C13-1d": "missed at first (a recording was the file's first use): recordings into a file that already holds a track and has been written, or comes from the reader, added to C13",
 "C13-2d": "missed at first in C13 (reported by C06's chunk search): deliveries that are not whole messages (message cut short, data bytes alone, unterminated sysex) added to C13's alphabet",
 "C14-1d": "missed at first (sender-legal streams only, short chunks): C14 now compares the listeners on every byte stream (product search without the sender restriction) and on all streams up to length 6/8 over 8 byte classes sent in one chunk and cut in two",
 "C14-2d": "missed at first (FD was outside the sender-legal domain): see C14-1d",
 "C15-1d": "missed at first (all destinations given): every nil/non-nil combination of destinations for key signature, time signature, meter and SMPTE offset accessors added to C15",
 "C15-2d": "missed at first (pure functions, no seam to switch at): source instrumentation 'globals' (tools/rewrite) puts a scheduling point in front of every statement that touches mutable package-level state; every pair of constructor calls runs as two threads under all schedules with at most two preemptions (harness/concpairs)",
 "C17-2d": "missed at first (no Listen while a listener is active): scenario S10 added to C17",
 "C18-1d": "missed at first (one field swept at a time): all five locate fields together over 21 (thorough 71) boundary values, and all pairs of fields over the full 7-bit range on three bases",
 "C18-2d": "see C18-1d",
 "C19-1d": "missed at first (time stamps within int32 and canonical): out-of-range, very long and zero-padded decimal time stamps added to C19; a purely decimal time stamp outside 32 bits now counts as malformed",
 "C19-2d": "missed at first (five substituted characters, short lines): every byte value substituted at positions around every power-of-two length of lines carrying 1..300 message bytes",
 "C20-1d": "missed at first (a song was never changed after an export): chain export - edit (bar signature, resolution, added bar, moved event) - export, both orders of the two exports, against the bar model read off the public fields",
 # round 5
 "C01-1e": "missed at first (meta type bytes below 0x80 only): MetaUndefined with every type byte 0x80..0xFF added to C01's value sweep (outside the format, but the API builds them and the unchanged tree reads them back)",
 "C02-1e": "missed at first (one tempo value): meta payloads that are odd for their type (tempo of zero, all-FF, zero time signature, key signature beyond seven sharps ...) for every meta type added to C02's meta sweep",
 "C02-2e": "missed at first (tracks of at most a few hundred events): tracks of 5000..70000 channel messages with individual data bytes added to C02",
 "C03-2e": "missed at first (deltas at VLQ boundaries only): deltas whose base-128 digits are all combinations of 5 (thorough 12) digit values added to the scalar sweeps of C01/C03",
 "C04-1e": "not in C04's domain (an unterminated oversized sysex is not a message a sender puts on the wire); reported by C06",
 "C04-2e": "missed at first (no Send from inside the call-back): 'thru' histories - the listener answers from inside its call-back (plain, with running status + real-time byte, in two pieces) x all gap assignments",
 "C05-1e": "missed at first (allocation was bounded on malformed and short inputs only): amplification inputs - 2000/8000 events of one kind (tempo, signatures, text, sysex, program change) in two tracks with interleaved ticks, under the same allocation bound",
 "C05-2e": "missed at first (65535 tracks at most, header always consistent): 65535/65536/65537/70000 track chunks under headers declaring 0, 1 and 65535 tracks",
 "C06-1e": "NOT caught: visible only at the raw call-back of drivers.NewReader with an error handler configured, as a marker F7 00 00 that the unchanged tree also hands to midi.ListenTo (which drops it) for any F7 outside a sysex; nothing a listener receives through midi.ListenTo changes. C06 now also drives the reader directly with an error handler (the marker is not judged) and every other listener carries midi.HandleError",
 "C06-2e": "missed at first (the virtual clock stood still in C06): streams whose chunks are 20-30 days apart (the 32-bit millisecond clock runs over) added to C06",
 "C07-1e": "not in C07's domain (needs an unterminated sysex on the wire before the message); reported by C06 and C14",
 "C07-2e": "missed at first (a stop function was called once): life-cycle search of C17 got the operations 'newest stop function again' and 'older stop function again'; reported by C17",
 "C08-1e": "missed at first (meta payloads from a few patterns): all 65536 two-byte payloads for every meta type and every payload over 13 boundary bytes for tempo, time signature and SMPTE offset added to C08",
 "C09-1e": "missed at first (chunk lengths were always exact): chunks declaring 1..600 bytes more than their events take, in the last, first and middle track, added to C09",
 "C09-2e": "missed at first (inputs always started with MThd): an SMF inside a RIFF/RMID container, stray bytes before the header and a doubled magic added to C09",
 "C10-1e": "missed at first (failing writes returned fewer bytes than given): destination modes 'full' and 'once-full' (all bytes taken, error reported all the same) at every offset / call",
 "C10-2e": "missed at first: end-of-track events that carry data (last and earlier track) and a long final meta event added to C10's read-fault inputs",
 "C11-1e": "missed at first (files were read without options): every tempo map is also read with the logging option on (C11 style 3; C02 reads every file once more with it)",
 "C11-2e": "missed at first (header always declared the tracks): every tempo map is also read from a file whose header declares no track (C11 style 4)",
 "C12-1e": "missed at first (tempo events in one track): layout 3 - tempo events in two tracks, the later track slowing the song down before the earlier one does",
 "C12-2e": "missed at first (second playback used the same map): the first playback now maps track 0 only, the second the whole file",
 "C13-2e": "missed at first (one take per track): two takes recorded into the same track, closed, written, read back",
 "C14-1e": "missed at first (sysex contents were arbitrary small payloads): 16 sysex messages that mean something elsewhere (MTC full frame, MMC, device inquiry, GM/GS/XG, master volume, tuning, sample dump) x all option sets x four chunkings",
 "C15-1e": "missed at first (results were only checked for not changing later): engine.Owned - the first result is overwritten in place and the constructor called again - for every key signature, named key and the fixed-layout constructors",
 "C15-2e": "missed at first (texts up to 20000 bytes): lengths on both sides of 2^14, 2^21 and 2^24 for two text kinds and sequencer data",
 "C16-1e": "missed at first (one escape in the alphabet): 'lookalike' files - escapes, sysex, texts and unknown meta events that carry channel-status-like bytes, at every position between channel messages",
 "C16-2e": "needed the rewriter to redirect the real sync package to the shim in instrumented packages (a lock held by a suspended cooperative thread would block the process); then reported by the pair exploration",
 "C17-1e": "needed depth and transition caps on the life-cycle search (a session counter made the driver's state unbounded and the search ran for more than half an hour); reported through the new 'older stop function again' operation",
 "C17-2e": "missed at first (the exec shim had no Wait, the tree did not build): vexec.Cmd.Wait modelled (process dead and no write into the stdout pipe under way) and scenario S11 - the device keeps sending while the port is stopped and closed",
 "C18-1e": "missed at first (payload slices had no spare capacity): engine.Spare - the payload sits in front of sentinel bytes inside its capacity; building must not write there",
 "C19-2e": "a change to midicatdrv, outside what C19 observes (midicat.ReadAndConvert); reported by C17 scenario S12 (two lines written with one write)",
 # round 6
 "C02-1f": "missed at first: tokens that are not an end-of-track but end in FF 2F 00 (sequencer-specific, text, escape) added to the generator's alphabet",
 "C02-2f": "missed at first: end-of-track events whose zero length is written in two to four bytes, in every track of one- to three-track files",
 "C05-1f": "missed at first (no check looked across calls): a valid canary file (every channel status x four data values, every meta type, sysex packets) is read after every family of malformed inputs in the same process and must read as the reference parser reads it",
 "C06-2f": "missed at first (re-listen with the same buffer size): the same port listened to twice with different sysex buffer sizes, sysex lengths between the two",
 "C07-1f": "not in C07's domain (needs two messages in one Send); reported by C04 (partitions)",
 "C07-2f": "not in C07's domain (needs a message cut between its data bytes and time passing); reported by C04 (partitions x time deltas)",
 "C09-1f": "missed at first: files whose header declares no track (or one too many), followed by a track and the first 1..7 bytes of another chunk header",
 "C10-1f": "missed at first (read faults only through ReadFrom): every read fault is also injected under smf.ReadTracksFrom, whose Error() must tell",
 "C10-2f": "NOT caught: needs a destination that returns n < len(p) with a nil error, which breaks the io.Writer contract; the unchanged tree reports success for such a destination as well (domain decision, DESIGN.md 0.2)",
 "C12-1f": "missed at first (selections named existing tracks only): selections naming a track the file does not have, alone and together with an existing one",
 "C12-2f": "missed at first: the chunks of a multi-track file under a header that says format 0, played through Play",
 "C13-2f": "missed at first in C13 (C03's WriteFile sequence reports it): smf.RecordTo saves takes of different lengths under one file name",
 "C15-2f": "missed at first (clock arguments never zero): time signatures with one or both clock arguments 0, each zero standing for 8 on its own",
 "C17-1f": "missed at first (one in and one out port): the helper stand-in reports four out ports; scenario S14 - Driver.Close while another thread opens two further ports",
 "C17-2f": "missed at first (short messages only): scenario S13 - a 1500-byte message and a short one sent by two threads; each line must reach the helper in one piece",
 "C18-2f": "missed at first (mmc.Message receivers were fresh): one mmc.Message receiver parses a hand-written response, then commands; this found a genuine defect (stale Data kept, fixed in /repo b060481)",
 "C19-1f": "missed at first (malformed lines were short): long malformed lines, and every judged stream also decoded through a byte-wise source and one that answers every other call with (0, nil), call for call the same results",
 "C19-2f": "missed at first (final error always io.EOF): the last byte arrives together with an error that is not io.EOF, or wraps it",
 "C20-1f": "missed at first: edit 'bar numbers exchanged by hand' in the export-edit-export chain (expected order by Bar.Number)",
 "C20-2f": "missed at first (bars held channel messages only): edit 'tempo and text events put into bars' in the chain",
}
rows = []
for d in sorted(glob.glob(V + "/seeded/*/meta.json")):
    m = json.load(open(d))
    sid = os.path.basename(os.path.dirname(d))
    need = ""
    notes = os.path.join(os.path.dirname(d), "notes.md")
    if os.path.exists(notes):
        txt = open(notes).read()
        need = " ".join(txt.split())[:420]
    sigs = []
    for c, v in m.get("checks_run", {}).items():
        if v["exit"] == 1:
            sigs.append("%s: %s" % (c, ", ".join(v["signatures"][:3]) + (" ..." if len(v["signatures"]) > 3 else "")))
    rows.append((sid, m["property"], ", ".join(m.get("caught_by", [])) or "NOT CAUGHT", "; ".join(sigs), need, STRENGTHENED.get(sid, "")))
with open(V + "/seeded/README.md", "w") as f:
    f.write("# Seeded property-breaking changes\n\n")
    f.write("Each directory holds `patch.diff` (applies to /repo's HEAD with `git apply`), `demo_test.go` (fails with the change, passes without; its first line says where it goes), `notes.md` (the author's description) and `meta.json` (what was confirmed, which checks were run with which result). The changes were written by sub-agents that saw only the property text and a scratch worktree of the repository; each was confirmed (compiles, the repository's own tests pass, demo fails with / passes without) before it was kept. To re-run: `python3 tools/seedtest.py seeded/<id>/patch.diff --checks <ID>` (applies the patch to /repo, runs the checks, reverts).\n\n")
    f.write("| change | property | reported by | signatures (quick tier) | notes |\n|---|---|---|---|---|\n")
    for sid, prop, caught, sigs, need, st in rows:
        f.write("| %s | %s | %s | %s | %s |\n" % (sid, prop, caught, sigs.replace("|", "/"), st))
    f.write("\n## What each change is and what it needs in order to manifest\n\n")
    for sid, prop, caught, sigs, need, st in rows:
        f.write("* **%s** — %s\n" % (sid, need))
    n = len(rows)
    c = sum(1 for r in rows if r[2] != "NOT CAUGHT")
    f.write("\n%d of %d kept changes are reported by at least one check. Those that are not are marked NOT caught in the notes column, with the reason.\n" % (c, n))
print("rows", len(rows))
