#!/usr/bin/env python3
"""Re-run the checks against kept seeded changes and update their meta.json.

usage: tools/seedrecheck.py <glob under seeded/> [--checks own|all|C01,C02] [--only-missed]
       (SEED_REPO=<scratch worktree of /repo> to leave /repo alone)
"""
import glob, json, os, subprocess, sys

VERIF = os.path.dirname(os.path.dirname(os.path.abspath(__file__)))
pat = sys.argv[1]
checks = "own"
only_missed = "--only-missed" in sys.argv
if "--checks" in sys.argv:
    checks = sys.argv[sys.argv.index("--checks") + 1]
for d in sorted(glob.glob(os.path.join(VERIF, "seeded", pat))):
    mp = os.path.join(d, "meta.json")
    if not os.path.exists(mp):
        continue
    meta = json.load(open(mp))
    if only_missed and meta.get("caught_by"):
        continue
    cl = meta["property"] if checks == "own" else checks
    r = subprocess.run("python3 %s/tools/seedtest.py %s/patch.diff --checks %s --no-baseline" % (VERIF, d, cl), shell=True, capture_output=True, text=True)
    res = {}
    for ln in r.stdout.splitlines():
        if ln.startswith("RESULT "):
            res = json.loads(ln[7:])
    if not res:
        print(os.path.basename(d), "NO RESULT", r.stdout[-300:], r.stderr[-300:])
        continue
    run = meta.setdefault("checks_run", {})
    for c, v in res["checks"].items():
        run[c] = {"exit": v["exit"], "signatures": v["signatures"]}
    meta["caught_by"] = sorted(c for c, v in run.items() if v["exit"] == 1)
    json.dump(meta, open(mp, "w"), indent=1)
    print(os.path.basename(d), "caught_by", meta["caught_by"], {c: v["exit"] for c, v in res["checks"].items()})
    sys.stdout.flush()
