#!/usr/bin/env python3
"""Prepare a round of seeded-change production by sub-agents.

usage: tools/seedround.py <root> [IDs...]        e.g. tools/seedround.py /tmp/mut4

For every property: a scratch git worktree of /repo at <root>/<ID> (detached
HEAD), <root>/<ID>.property.txt (the text of the property only) and
<root>/<ID>.prompt.txt (the instructions for the sub-agent, naming the changes
already kept under /verif/seeded so that they are not repeated). Nothing from
/verif is given to the agents except these two files.
"""
import glob, json, os, re, subprocess, sys

VERIF = os.path.dirname(os.path.dirname(os.path.abspath(__file__)))
root = sys.argv[1]
ids = sys.argv[2:] or ["C%02d" % i for i in range(1, 21)]
os.makedirs(root, exist_ok=True)
props = {}
for l in open(VERIF + "/properties.jsonl"):
    p = json.loads(l)
    props[p["id"]] = p

PROMPT = """You are helping to test a verification suite by writing realistic *property-breaking changes* (seeded defects) for the Go library gomidi/midi (module gitlab.com/gomidi/midi/v2, sources under v2/).

Your private git worktree of the library is at {wt} (a detached checkout; work ONLY there; never touch /repo or /verif, and do not read anything under /verif).
The property you must break is described in {root}/{id}.property.txt — read it first, then read the code it is anchored in.

Environment: the sandbox has no network. Every shell command that runs go needs:
  export GOFLAGS=-mod=mod GOPROXY=off GOSUMDB=off GOTOOLCHAIN=local
The repository's own tests are run with:
  cd {wt}/v2 && go test -vet=off -count=1 ./ ./smf/ ./sequencer/ ./internal/... ./drivers/testdrv/ ./drivers/midicat/ ./drivers/internal/...
(packages drivers/midicatdrv, rtmididrv, portmididrv, webmididrv do not build/run in this sandbox and are not part of the test suite; ignore their failures, but a change to midicatdrv must still compile: check with `go build ./drivers/midicatdrv/`.)

Task: produce TWO different, independent changes to the library (NOT to its tests), each of which
  1. compiles, and leaves every existing test of the command above passing (run it and confirm);
  2. breaks the property in the sense of its statement;
  3. is realistic — the kind of slip a maintainer could make in a refactoring or "optimisation" (cursor/offset logic, state that is reset in the wrong place or not at all, a boundary comparison, an ordering of two steps, a cache that is reused, a lock scope) — not a deleted check or an obviously sabotaged line;
  4. needs something SPECIFIC to manifest: a particular interleaving, a fault or truncation at a particular point, a multi-step sequence of operations, an unusual input (boundary value, rare message kind, particular length), or two cooperating sites that each look fine alone. A change that ordinary use would expose at once is not wanted.
Prefer changes in different functions/files for the two mutations, and prefer subtle over blatant.

For each change k in {{1,2}} deliver under {wt}/OUT/:
  - mut<k>.diff        : `git diff` of the change alone against the worktree's HEAD (must apply with `git apply` to a clean checkout of HEAD)
  - mut<k>_demo_test.go: a small Go test file (package name and target directory stated in its first comment line, e.g. `// place in v2/smf/ as package smf_test`) that FAILS with the change applied and PASSES on the clean HEAD. It must be deterministic and finish within a few seconds. (For a concurrency property the demo may force the interleaving with sleeps/hooks of its own or run the scenario many times; say which.)
  - mut<k>.md          : 5-10 lines: which function was changed, why it breaks the property, what exactly is needed for it to manifest, and the exact commands you ran (tests pass with change; demo fails with change; demo passes without).
Verify all of that yourself before answering: apply each diff alone on a clean tree (`git checkout -- .`, `git apply file`), run the existing tests, run the demo with and without the change. Leave the worktree clean (no applied change) at the end, with only the OUT/ directory added.

Answer with a short summary (file names, one line per mutation describing it and what it needs to manifest). Do not include anything else.

This is a LATER round. {n} changes were already produced for this property by others; do NOT repeat them or close variants of them (use a different function and a different mechanism where you can):
{prev}

Important practical note: several agents work in sibling worktrees of the same repository at the same time and `git stash` is SHARED between worktrees — never use `git stash`; use `git diff > file`, `git checkout -- .` and `git apply file` instead.
Aim for changes whose trigger is as far as possible from what a systematic exhaustive test over small inputs, boundary sizes (128, 256, 4096, 65536), all byte values, repeated use of the same object, several reader/writer kinds and fault injection at every offset would hit. Think of: interactions between two independent features or options; behaviour that depends on the ORDER or COUNT of earlier calls; data-dependent paths keyed on content rather than on kind or length (e.g. a payload that happens to contain a particular byte pattern, a text that happens to look like something else); arithmetic that only breaks for particular combinations of two or three parameters; error paths that leave partially updated state; anything where two values that are usually equal happen to differ; a code path of the property's statement that looks rarely exercised (an exported function or option nobody calls in the tests). Still: it must be a plausible maintainer slip, it must violate the property as stated (re-read the statement: what it does not promise is not a violation), and the existing tests must pass.
Prefer a function that none of the earlier changes listed above touched. At least one of your two changes should stay strictly inside the domain the property quantifies over (inputs, options and objects the statement names - not an exotic driver, error value or out-of-range argument) and hide there: e.g. a value or length in the middle of a range that nothing marks as special, a particular combination of two or three ordinary arguments, a particular ordinary sequence of three or four calls, a counter or accumulator that only goes wrong after many steps, a table with one wrong entry.
"""

for pid in ids:
    p = props[pid]
    wt = "%s/%s" % (root, pid)
    if not os.path.isdir(wt):
        subprocess.run(["git", "-C", "/repo", "worktree", "add", "--detach", wt, "HEAD"], check=True, capture_output=True)
    with open("%s/%s.property.txt" % (root, pid), "w") as f:
        f.write("Property %s: %s\n\n%s\n\nAnchors (files, mechanisms, where to observe):\n%s\n" % (
            pid, p.get("title", ""), p.get("statement", ""), json.dumps(p.get("anchors", {}), indent=1)))
    prev = []
    for d in sorted(glob.glob("%s/seeded/%s-*" % (VERIF, pid))):
        n = d + "/notes.md"
        if os.path.exists(n):
            t = re.sub(r"\s+", " ", open(n).read()).strip()
            prev.append("  - " + t[:330])
    with open("%s/%s.prompt.txt" % (root, pid), "w") as f:
        f.write(PROMPT.format(wt=wt, root=root, id=pid, n=len(prev), prev="\n".join(prev)))
    print(pid, "worktree", wt, "previous", len(prev))
