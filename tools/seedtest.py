#!/usr/bin/env python3
"""Apply a seeded change to /repo, run checks against it, undo it.

usage: tools/seedtest.py <patch.diff> [--checks C01,C03|all] [--tier quick|thorough] [--no-baseline]

Prints one line per check: <ID> exit=<code> signatures=[...]; the patch is
always reverted (git checkout -- . && git clean -fd inside /repo).
"""
import json, os, re, subprocess, sys, time

VERIF = os.path.dirname(os.path.dirname(os.path.abspath(__file__)))
# SEED_REPO: run against a scratch worktree of /repo instead of /repo itself
# (needed while a background run is using /repo); default is /repo.
REPO = os.environ.get("SEED_REPO", "/repo")
ALL = ["C%02d" % i for i in range(1, 21)]


def sh(cmd, **kw):
    return subprocess.run(cmd, shell=True, capture_output=True, text=True, **kw)


def main():
    args = sys.argv[1:]
    patch = os.path.abspath(args[0])
    checks, tier, baseline = ALL, "quick", True
    i = 1
    while i < len(args):
        if args[i] == "--checks":
            checks = ALL if args[i + 1] == "all" else args[i + 1].split(",")
            i += 2
        elif args[i] == "--tier":
            tier = args[i + 1]
            i += 2
        elif args[i] == "--no-baseline":
            baseline = False
            i += 1
        else:
            i += 1
    st = sh("git -C %s status --porcelain" % REPO).stdout.strip()
    if st and REPO != "/repo":
        # a scratch tree left dirty by an interrupted run: reset it
        sh("git -C %s checkout -- . && git -C %s clean -fdq" % (REPO, REPO))
        st = sh("git -C %s status --porcelain" % REPO).stdout.strip()
    if st:
        print("REFUSING: /repo is not clean:\n" + st)
        sys.exit(2)
    r = sh("git -C %s apply %s" % (REPO, patch))
    if r.returncode != 0:
        print("PATCH DOES NOT APPLY:", r.stderr)
        sys.exit(2)
    result = {"patch": patch, "tier": tier, "checks": {}}
    try:
        if baseline:
            b = sh("python3 %s/tools/baseline.py" % VERIF)
            result["baseline"] = b.stdout.strip().splitlines()[0] if b.stdout else b.stderr[-300:]
            print("baseline:", result["baseline"])
        for c in checks:
            t = time.time()
            r = sh("cd %s && VERIF_EVIDENCE_DIR=%s/.work/seed-evidence VERIF_REPO=%s ./run %s %s" % (VERIF, VERIF, REPO, c, tier))
            sigs = sorted(set(re.findall(r"VIOLATION property=\S+ replay=\S+ signature=(\S+)", r.stdout)))
            build_failed = "BUILD-FAILED" in r.stderr
            result["checks"][c] = {"exit": r.returncode, "signatures": sigs, "wall_s": round(time.time() - t, 1), "build_failed": build_failed}
            extra = ""
            if r.returncode not in (0, 1):
                extra = " stderr=" + r.stderr.strip()[-400:].replace("\n", " | ")
            print("%s exit=%d wall=%.1fs signatures=%s%s" % (c, r.returncode, time.time() - t, sigs[:6], extra))
            sys.stdout.flush()
    finally:
        sh("git -C %s checkout -- . && git -C %s clean -fdq" % (REPO, REPO))
    print("RESULT " + json.dumps(result))


if __name__ == "__main__":
    main()
