#!/usr/bin/env python3
"""Confirm a seeded change delivered by a sub-agent and keep it under /verif/seeded.

usage: tools/seedverify.py <ID> <k> [--checks C01,C02|all|own] [--tier quick]

Steps (all in the agent's scratch worktree /tmp/mut/<ID>, never in /repo except
for running the checks through tools/seedtest.py, which reverts):
  1. worktree clean; demo passes on the clean tree
  2. apply mut<k>.diff; the repository's own tests still pass; demo fails
  3. revert
  4. run the checks against the change (git apply in /repo, run, git checkout)
  5. write /verif/seeded/<ID>-<k>/{patch.diff, demo_test.go, notes.md, meta.json}
"""
import json, os, re, shutil, subprocess, sys

VERIF = os.path.dirname(os.path.dirname(os.path.abspath(__file__)))
ENV = dict(os.environ, GOFLAGS="-mod=mod", GOPROXY="off", GOSUMDB="off", GOTOOLCHAIN="local")
TESTS = "go test -vet=off -count=1 ./ ./smf/ ./sequencer/ ./internal/... ./drivers/testdrv/ ./drivers/midicat/ ./drivers/internal/..."


def sh(cmd, cwd=None, timeout=900):
    return subprocess.run(cmd, shell=True, capture_output=True, text=True, cwd=cwd, env=ENV, timeout=timeout)


def main():
    pid, k = sys.argv[1], sys.argv[2]
    checks, tier = "own", "quick"
    a = sys.argv[3:]
    for i, x in enumerate(a):
        if x == "--checks":
            checks = a[i + 1]
        if x == "--tier":
            tier = a[i + 1]
    root = os.environ.get("MUTROOT", "/tmp/mut")
    suffix = os.environ.get("MUTSUFFIX", "")
    wt = "%s/%s" % (root, pid)
    out = "%s/OUT" % wt
    diff = "%s/mut%s.diff" % (out, k)
    demo = "%s/mut%s_demo_test.go" % (out, k)
    notes = "%s/mut%s.md" % (out, k)
    for f in (diff, demo):
        if not os.path.exists(f):
            print("MISSING", f)
            sys.exit(2)
    first = open(demo).readline()
    m = re.search(r"(v2/[\w/]*)", first)
    if not m:
        print("cannot find target directory in first line of demo:", first)
        sys.exit(2)
    tdir = m.group(1).rstrip("/")
    dest = "%s/%s/zz_seeded_demo_test.go" % (wt, tdir)
    pkg = "./" + tdir[len("v2/"):] if tdir != "v2" else "./"
    if pkg == "./":
        pkg = "."
    meta = {"property": pid, "mutation": int(k), "demo_dir": tdir}

    def demo_run():
        r = sh("go test -vet=off -count=1 -run . %s 2>&1 | tail -15" % pkg, cwd=wt + "/v2", timeout=600)
        ok = re.search(r"^ok\s", r.stdout, re.M) is not None and "FAIL" not in r.stdout
        return ok, r.stdout[-1200:]

    sh("git checkout -- . && git clean -fdq -e OUT", cwd=wt)
    shutil.copy(demo, dest)
    try:
        ok_clean, log_clean = demo_run()
        meta["demo_passes_on_clean_tree"] = ok_clean
        r = sh("git apply " + diff, cwd=wt)
        if r.returncode != 0:
            print("diff does not apply:", r.stderr)
            sys.exit(2)
        os.remove(dest)
        t = sh(TESTS + " 2>&1 | tail -12", cwd=wt + "/v2")
        meta["repo_tests_pass_with_change"] = "FAIL" not in t.stdout and "ok" in t.stdout
        b = sh("go build ./drivers/midicatdrv/ 2>&1 | tail -3", cwd=wt + "/v2")
        meta["midicatdrv_builds"] = b.stdout.strip() == ""
        shutil.copy(demo, dest)
        ok_mut, log_mut = demo_run()
        meta["demo_fails_with_change"] = not ok_mut
        meta["demo_output_with_change"] = log_mut[-600:]
    finally:
        if os.path.exists(dest):
            os.remove(dest)
        sh("git checkout -- . && git clean -fdq -e OUT", cwd=wt)
    print("confirm:", {k2: v for k2, v in meta.items() if k2 != "demo_output_with_change"})
    if not (meta["demo_passes_on_clean_tree"] and meta["repo_tests_pass_with_change"] and meta["demo_fails_with_change"]):
        print("NOT CONFIRMED — not kept")
        print(log_clean[-500:] if not meta["demo_passes_on_clean_tree"] else "")
        print(t.stdout[-800:] if not meta["repo_tests_pass_with_change"] else "")
        sys.exit(1)
    # run the checks
    cl = pid if checks == "own" else checks
    r = subprocess.run("python3 %s/tools/seedtest.py %s --checks %s --tier %s --no-baseline" % (VERIF, diff, cl, tier), shell=True, capture_output=True, text=True)
    print(r.stdout)
    res = {}
    for ln in r.stdout.splitlines():
        if ln.startswith("RESULT "):
            res = json.loads(ln[7:])
    if not res.get("checks"):
        print("CHECKS DID NOT RUN - not kept")
        sys.exit(2)
    meta["checks_run"] = {c: {"exit": v["exit"], "signatures": v["signatures"]} for c, v in res.get("checks", {}).items()}
    meta["caught_by"] = sorted(c for c, v in res.get("checks", {}).items() if v["exit"] == 1)
    meta["tier"] = tier
    sd = "%s/seeded/%s-%s%s" % (VERIF, pid, k, suffix)
    os.makedirs(sd, exist_ok=True)
    shutil.copy(diff, sd + "/patch.diff")
    shutil.copy(demo, sd + "/demo_test.go")
    if os.path.exists(notes):
        shutil.copy(notes, sd + "/notes.md")
        meta["needs_to_manifest"] = open(notes).read()[:1500]
    meta["what_was_run"] = [
        "in a scratch worktree: demo on clean tree (pass), git apply patch.diff, " + TESTS + " (pass), demo (fail), revert",
        ("git -C %s apply patch.diff; VERIF_REPO=%s ./run <check> %s for the checks listed in checks_run; git -C %s checkout -- ." % (os.environ.get("SEED_REPO", "/repo"), os.environ.get("SEED_REPO", "/repo"), tier, os.environ.get("SEED_REPO", "/repo")))
        + (" (a scratch worktree of /repo's HEAD, because /repo itself was in use by a long run)" if os.environ.get("SEED_REPO") else ""),
    ]
    json.dump(meta, open(sd + "/meta.json", "w"), indent=1)
    print("KEPT", sd, "caught_by", meta["caught_by"])


if __name__ == "__main__":
    main()
